(** C06 — for documents that use only declared members in declared order, validity against the
    published schema and soft validation reach the same verdict. *)
From Coq Require Import ZArith List Bool Lia ZifyBool Btauto.
From SpyneV Require Import C06.Spec C06.Docs C06.LeafProofs C06.SeqProofs C06.StructProofs.
Import ListNotations.
Open Scope Z_scope.

(* ------------------------------------------------------------------ general *)
Lemma is_ok_mapM {A B} (f : A -> out B) l : is_ok (mapM f l) = forallb (fun x => is_ok (f x)) l.
Proof.
  induction l as [|x r IH]; [reflexivity|]. cbn [mapM forallb]. destruct (f x) as [y| |]; cbn [bind is_ok andb]; try reflexivity.
  rewrite <- IH. destruct (mapM f r); reflexivity.
Qed.

Lemma is_ok_bind {A B} (x : out A) (f : A -> out B) : is_ok (bind x f) = match x with Ok a => is_ok (f a) | _ => false end.
Proof. destruct x; reflexivity. Qed.

(* ------------------------------------------------------------------ xsi:nil *)
Lemma nil_value_true v : existsb (text_eqb v) nil_values = true ->
  (let v' := xs_trim v in text_eqb v' t_true || text_eqb v' t_one) = true.
Proof.
  unfold nil_values. cbn [existsb]. rewrite orb_false_r. intros H. apply orb_prop in H.
  destruct H as [H|H]; apply text_eqb_true_eq in H; subst v; reflexivity.
Qed.

Lemma xsi_ok_lookup atts : xsi_ok atts = true ->
  match lookup_att xsi_ns t_nil atts with
  | Some v => existsb (text_eqb v) nil_values = true
  | None => forallb (fun a => negb (is_xsi a)) atts = true
  end.
Proof.
  unfold xsi_ok. intros H. apply andb_prop in H. destruct H as [H _].
  induction atts as [|[[a b] c] r IH]; [reflexivity|]. cbn [forallb] in H. apply andb_prop in H. destruct H as [H1 H2].
  cbn [lookup_att]. unfold is_xsi, is_xsi_nil in H1. cbn [snd] in H1.
  destruct (text_eqb a xsi_ns) eqn:Ea; cbn [negb orb andb] in H1.
  - apply andb_prop in H1. destruct H1 as [Hb Hv]. rewrite Hb. cbn [andb]. exact Hv.
  - cbn [andb]. specialize (IH H2). destruct (lookup_att xsi_ns t_nil r); [exact IH|].
    cbn [forallb]. unfold is_xsi at 1. rewrite Ea. cbn [negb andb]. exact IH.
Qed.

Lemma xsi_ok_guard atts : xsi_ok atts = true -> forallb (fun a => negb (is_xsi a) || is_xsi_nil a) atts = true.
Proof.
  unfold xsi_ok. intros H. apply andb_prop in H. destruct H as [H _]. apply forallb_forall. intros a Ha.
  rewrite forallb_forall in H. specialize (H a Ha). destruct (is_xsi a); [|reflexivity]. cbn [negb orb] in *.
  apply andb_prop in H. exact (proj1 H).
Qed.

Lemma not_nil_plain atts : xsi_ok atts = true -> is_nil_att atts = false ->
  lookup_att xsi_ns t_nil atts = None /\ forallb (fun a => negb (is_xsi a)) atts = true.
Proof.
  intros Hx Hn. pose proof (xsi_ok_lookup atts Hx) as H. unfold is_nil_att in Hn.
  destruct (lookup_att xsi_ns t_nil atts) as [v|]; [congruence|]. split; [reflexivity|exact H].
Qed.

Lemma all_plain_filter atts : forallb (fun a => negb (is_xsi a)) atts = true -> plain_atts atts = atts.
Proof.
  unfold plain_atts. induction atts as [|a r IH]; [reflexivity|]. cbn [forallb filter]. intros H. apply andb_prop in H.
  destruct H as [H1 H2]. rewrite H1, (IH H2). reflexivity.
Qed.

(* ------------------------------------------------------------------ the flat view of a content model *)
(** the element members of the tagged items, in order *)
Definition efields (L : list (text * item)) : list (text * fld) :=
  filter (fun p => is_elem (snd p)) (L_flds L).

(** the same traversal as items_doc / items_match, over the flat list of element members *)
Fixpoint fdoc (chk : fld -> xnode -> bool) (F : list (text * fld)) (kids : list xnode) : bool :=
  match F with
  | [] => is_nil_list kids
  | (ns, f) :: r => let '(run, rest) := span_name ns (fl_name f) kids in forallb (chk f) run && fdoc chk r rest
  end.
Fixpoint focc (U : univ) (F : list (text * fld)) (kids : list xnode) : bool :=
  match F with
  | [] => true
  | (ns, f) :: r => let '(run, rest) := span_name ns (fl_name f) kids in occ_ok (fld_edecl U f) (len_nodes run) && focc U r rest
  end.

Lemma fdoc_app chk A : forall B kids,
  fdoc chk (A ++ B) kids
  = runs_chk chk (map snd A) (fst (split_runs A kids)) && fdoc chk B (snd (split_runs A kids)).
Proof.
  induction A as [|[ns f] r IH]; intros B kids; [reflexivity|].
  cbn [app fdoc split_runs map snd]. destruct (span_name ns (fl_name f) kids) as [run rest]. rewrite IH.
  destruct (split_runs r rest) as [runs rest']. cbn [fst snd runs_chk]. rewrite andb_assoc. reflexivity.
Qed.

Lemma map_snd_tagged ns ms : map snd (tagged ns ms) = ms.
Proof. unfold tagged. rewrite map_map. cbn. apply map_id. Qed.

Lemma efields_cons_one ns f r : efields ((ns, IOne f) :: r) = (if is_elem f then [(ns, f)] else []) ++ efields r.
Proof. unfold efields. cbn [L_flds flat_map fst snd item_flds tagged map app filter]. destruct (is_elem f); reflexivity. Qed.
Lemma efields_cons_grp ns g ms r : forallb is_elem ms = true -> efields ((ns, IGroup g ms) :: r) = tagged ns ms ++ efields r.
Proof.
  intros H. unfold efields. cbn [L_flds flat_map fst snd item_flds]. rewrite filter_app. f_equal.
  induction ms as [|f m IH]; [reflexivity|]. cbn in H. apply andb_prop in H. destruct H as [H1 H2].
  cbn [tagged map filter snd]. rewrite H1. f_equal. apply IH. exact H2.
Qed.

Lemma items_doc_flat chk L : (forall p, In p L -> match snd p with IGroup _ ms => forallb is_elem ms = true | IOne _ => True end) ->
  forall kids, items_doc chk L kids = fdoc chk (efields L) kids.
Proof.
  induction L as [|[ns [f|g ms]] r IH]; intros Hw kids; [reflexivity| |].
  - rewrite efields_cons_one. cbn [items_doc]. destruct (is_elem f); cbn [app fdoc].
    + destruct (span_name ns (fl_name f) kids). rewrite IH; [reflexivity|intros p Hp; apply Hw; right; exact Hp].
    + apply IH. intros p Hp; apply Hw; right; exact Hp.
  - rewrite efields_cons_grp by (apply (Hw (ns, IGroup g ms)); left; reflexivity).
    cbn [items_doc]. rewrite fdoc_app, map_snd_tagged. destruct (split_runs (tagged ns ms) kids) as [runs rest]. cbn [fst snd].
    rewrite IH; [reflexivity|intros p Hp; apply Hw; right; exact Hp].
Qed.

Fixpoint runs_occ (U : univ) (A : list (text * fld)) (runs : list (list xnode)) : bool :=
  match A, runs with
  | [], [] => true
  | (_, f) :: r, run :: rs => occ_ok (fld_edecl U f) (len_nodes run) && runs_occ U r rs
  | _, _ => false
  end.

Lemma focc_app U A : forall B kids,
  focc U (A ++ B) kids = runs_occ U A (fst (split_runs A kids)) && focc U B (snd (split_runs A kids)).
Proof.
  induction A as [|[ns f] r IH]; intros B kids; [reflexivity|].
  cbn [app focc split_runs]. destruct (span_name ns (fl_name f) kids) as [run rest]. rewrite IH.
  destruct (split_runs r rest) as [runs rest']. cbn [fst snd runs_occ]. rewrite andb_assoc. reflexivity.
Qed.

Lemma runs_valid_split U velem A : forall runs,
  runs_valid U velem A runs
  = runs_chk (fun f => velem (fld_edecl U f)) (map snd A) runs && runs_occ U A runs.
Proof.
  induction A as [|[ns f] r IH]; intros [|run rs]; try reflexivity.
  cbn [runs_valid map snd runs_chk runs_occ]. rewrite IH. unfold run_valid. btauto.
Qed.

Lemma items_match_flat U velem L :
  (forall p, In p L -> match snd p with IGroup _ ms => forallb is_elem ms = true | IOne _ => True end) ->
  forall kids, items_match U velem L kids
               = fdoc (fun f => velem (fld_edecl U f)) (efields L) kids && focc U (efields L) kids.
Proof.
  induction L as [|[ns [f|g ms]] r IH]; intros Hw kids.
  - cbn. rewrite andb_true_r. reflexivity.
  - rewrite efields_cons_one. cbn [items_match]. destruct (is_elem f); cbn [app fdoc focc].
    + destruct (span_name ns (fl_name f) kids) as [run rest]. rewrite IH by (intros p Hp; apply Hw; right; exact Hp).
      unfold run_valid. btauto.
    + apply IH. intros p Hp; apply Hw; right; exact Hp.
  - rewrite efields_cons_grp by (apply (Hw (ns, IGroup g ms)); left; reflexivity).
    cbn [items_match]. rewrite fdoc_app, focc_app, map_snd_tagged. destruct (split_runs (tagged ns ms) kids) as [runs rest]. cbn [fst snd].
    rewrite IH by (intros p Hp; apply Hw; right; exact Hp). rewrite runs_valid_split, map_snd_tagged. btauto.
Qed.

(* ------------------------------------------------------------------ counting the children of a member *)
Lemma count_text_app k a b : count_text k (a ++ b) = count_text k a + count_text k b.
Proof. induction a as [|x r IH]; [reflexivity|]. cbn [app count_text]. rewrite IH. lia. Qed.

Lemma elt_is_name ns nm kid : elt_is ns nm kid = true -> node_name kid = nm.
Proof. destruct kid as [a b ? ? ?|]; [|discriminate]. cbn. intros H. apply andb_prop in H. apply text_eqb_true_eq. exact (proj2 H). Qed.

Lemma count_run_same ns nm run : forallb (elt_is ns nm) run = true -> count_text nm (map node_name run) = len_nodes run.
Proof.
  induction run as [|k r IH]; [reflexivity|]. cbn [forallb]. intros H. apply andb_prop in H. destruct H as [H1 H2].
  cbn [map count_text]. rewrite (elt_is_name _ _ _ H1), text_eqb_same, (IH H2). unfold len_nodes. cbn [length]. lia.
Qed.
Lemma count_names_other nm (kids : list xnode) : (forall kid, In kid kids -> node_name kid <> nm) -> count_text nm (map node_name kids) = 0.
Proof.
  induction kids as [|k r IH]; intros H; [reflexivity|]. cbn [map count_text].
  destruct (text_eqb (node_name k) nm) eqn:E.
  - apply text_eqb_true_eq in E. exfalso. apply (H k); [left; reflexivity|exact E].
  - rewrite IH; [reflexivity|]. intros x Hx. apply H. right. exact Hx.
Qed.

Definition shape (F : list (text * fld)) (kids : list xnode) : bool := fdoc (fun _ _ => true) F kids.

Lemma forallb_ext_in' {A} (f g : A -> bool) l : (forall x, In x l -> f x = g x) -> forallb f l = forallb g l.
Proof.
  induction l as [|x r IH]; intros H; [reflexivity|]. cbn. rewrite (H x (or_introl eq_refl)). f_equal. apply IH.
  intros y Hy. apply H. right. exact Hy.
Qed.

Lemma forallb_true {A} (l : list A) : forallb (fun _ => true) l = true.
Proof. induction l; [reflexivity|exact IHl]. Qed.

Lemma shape_cons ns f r kids : shape ((ns, f) :: r) kids = true ->
  exists run rest, span_name ns (fl_name f) kids = (run, rest) /\ kids = run ++ rest
                   /\ forallb (elt_is ns (fl_name f)) run = true /\ shape r rest = true.
Proof.
  unfold shape. cbn [fdoc]. destruct (span_name ns (fl_name f) kids) as [run rest] eqn:Es. rewrite forallb_true. cbn [andb].
  intros H. destruct (span_name_spec _ _ _ _ _ Es) as (E1 & E2 & _). exists run, rest. auto.
Qed.

Lemma shape_members F : forall kids, shape F kids = true ->
  forall kid, In kid kids -> exists p, In p F /\ elt_is (fst p) (fl_name (snd p)) kid = true.
Proof.
  induction F as [|[ns f] r IH]; intros kids H kid Hk.
  - unfold shape in H. cbn in H. destruct kids; [destruct Hk|discriminate].
  - destruct (shape_cons _ _ _ _ H) as (run & rest & _ & -> & Hr & Hs). apply in_app_iff in Hk. destruct Hk as [Hk|Hk].
    + exists (ns, f). split; [left; reflexivity|]. rewrite forallb_forall in Hr. apply Hr. exact Hk.
    + destruct (IH rest Hs kid Hk) as (p & Hp & He). exists p. split; [right; exact Hp|exact He].
Qed.

Lemma fdoc_shape chk F : forall kids, fdoc chk F kids = true -> shape F kids = true.
Proof.
  induction F as [|[ns f] r IH]; intros kids H; [exact H|]. unfold shape. cbn [fdoc] in *.
  destruct (span_name ns (fl_name f) kids) as [run rest]. apply andb_prop in H. destruct H as [_ H].
  rewrite forallb_true. cbn [andb]. apply IH. exact H.
Qed.

(** under the shape, checking the children member by member is checking every child against the
    member it is named after *)
Lemma fdoc_forallb chk (fields : list fld) F : forall kids,
  (forall p, In p F -> find_fld (fl_name (snd p)) fields = Some (snd p)) ->
  shape F kids = true ->
  fdoc chk F kids = forallb (fun kid => match find_fld (node_name kid) fields with Some f => chk f kid | None => true end) kids.
Proof.
  induction F as [|[ns f] r IH]; intros kids Hf Hs.
  - unfold shape in Hs. cbn in Hs. destruct kids; [reflexivity|discriminate].
  - destruct (shape_cons _ _ _ _ Hs) as (run & rest & Es & -> & Hr & Hs'). cbn [fdoc]. rewrite Es, forallb_app.
    rewrite (IH rest) by (try (intros p Hp; apply Hf; right; exact Hp); exact Hs'). f_equal.
    clear -Hr Hf. induction run as [|k run IHr]; [reflexivity|]. cbn [forallb] in *. apply andb_prop in Hr. destruct Hr as [H1 H2].
    pose proof (Hf (ns, f) (or_introl eq_refl)) as Hff. cbn [snd] in Hff.
    rewrite (elt_is_name _ _ _ H1), Hff. f_equal. apply IHr. exact H2.
Qed.

(** under the shape, the length of a member's run is the number of children with its name *)
Lemma focc_counts U F : forall kids,
  NoDup (map (fun p => fl_name (snd p)) F) -> shape F kids = true ->
  focc U F kids = forallb (fun p => occ_ok (fld_edecl U (snd p)) (count_text (fl_name (snd p)) (map node_name kids))) F.
Proof.
  induction F as [|[ns f] r IH]; intros kids Hnd Hs; [reflexivity|].
  destruct (shape_cons _ _ _ _ Hs) as (run & rest & Es & -> & Hr & Hs'). inversion Hnd as [|? ? Hnotin Hnd']; subst.
  cbn [focc forallb snd]. rewrite Es, map_app, count_text_app, (count_run_same ns _ run Hr).
  assert (Hrest0 : count_text (fl_name f) (map node_name rest) = 0).
  { apply count_names_other. intros kid Hk Heq. destruct (shape_members r rest Hs' kid Hk) as (p & Hp & He).
    apply Hnotin. apply in_map_iff. exists p. split; [|exact Hp]. rewrite <- Heq. symmetry. apply (elt_is_name _ _ _ He). }
  rewrite Hrest0, Z.add_0_r. f_equal. rewrite (IH rest Hnd' Hs').
  apply forallb_ext_in'. intros p Hp. rewrite count_text_app.
  assert (Hrun0 : count_text (fl_name (snd p)) (map node_name run) = 0).
  { apply count_names_other. intros kid Hk Heq. rewrite forallb_forall in Hr. rewrite (elt_is_name _ _ _ (Hr kid Hk)) in Heq.
    apply Hnotin. apply in_map_iff. exists p. split; [symmetry; exact Heq|exact Hp]. }
  rewrite Hrun0. reflexivity.
Qed.

(* ------------------------------------------------------------------ attributes: by name *)
Definition att_name (a : attr) : text := snd (fst a).

Lemma lookup_att_in nm atts v : lookup_att [] nm atts = Some v -> exists a, In a atts /\ fst (fst a) = [] /\ att_name a = nm /\ snd a = v.
Proof.
  induction atts as [|[[x y] z] r IH]; [discriminate|]. cbn [lookup_att].
  destruct (text_eqb x [] && text_eqb y nm) eqn:E.
  - intros H. injection H as <-. apply andb_prop in E. destruct E as [E1 E2]. apply text_eqb_true_eq in E1. apply text_eqb_true_eq in E2.
    exists (x, y, z). repeat split; auto. left. reflexivity.
  - intros H. destruct (IH H) as (a & Ha & Hr). exists a. split; [right; exact Ha|exact Hr].
Qed.

Lemma text_mem_in x l : text_mem x l = true <-> In x l.
Proof.
  induction l as [|y r IH]; cbn; [split; [discriminate|tauto]|]. rewrite orb_true_iff, IH. split.
  - intros [H|H]; [left; symmetry; apply text_eqb_true_eq; exact H|right; exact H].
  - intros [->|H]; [left; apply text_eqb_same|right; exact H].
Qed.

(** with distinct names, looking an attribute up finds exactly that attribute *)
Lemma lookup_att_nodup atts : nodup_text (map att_name atts) = true ->
  (forall a, In a atts -> fst (fst a) = []) ->
  forall a, In a atts -> lookup_att [] (att_name a) atts = Some (snd a).
Proof.
  induction atts as [|[[x y] z] r IH]; intros Hnd Hns a Ha; [destruct Ha|].
  cbn [map nodup_text att_name fst snd] in Hnd. apply andb_prop in Hnd. destruct Hnd as [Hn1 Hn2].
  cbn [lookup_att]. pose proof (Hns _ (or_introl eq_refl)) as Hx. cbn in Hx. subst x. cbn [text_eqb andb].
  destruct Ha as [<-|Ha].
  - cbn [att_name fst snd]. rewrite text_eqb_same. reflexivity.
  - destruct (text_eqb y (att_name a)) eqn:E.
    + exfalso. apply text_eqb_true_eq in E. apply negb_true_iff in Hn1.
      assert (text_mem y (map att_name r) = true) by (apply text_mem_in; rewrite E; apply in_map; exact Ha). congruence.
    + apply IH; [exact Hn2|intros b Hb; apply Hns; right; exact Hb|exact Ha].
Qed.

Lemma att_count atts nm : nodup_text (map att_name atts) = true -> (forall a, In a atts -> fst (fst a) = []) ->
  count_text nm (map att_name atts) = match lookup_att [] nm atts with Some _ => 1 | None => 0 end.
Proof.
  induction atts as [|[[x y] z] r IH]; intros Hnd Hns; [reflexivity|].
  cbn [map nodup_text att_name fst snd] in Hnd. apply andb_prop in Hnd. destruct Hnd as [Hn1 Hn2].
  pose proof (Hns _ (or_introl eq_refl)) as Hx. cbn in Hx. subst x.
  cbn [map count_text lookup_att att_name fst snd text_eqb andb].
  rewrite IH by (try exact Hn2; intros b Hb; apply Hns; right; exact Hb).
  destruct (text_eqb y nm) eqn:E; [|reflexivity].
  apply text_eqb_true_eq in E. subst y.
  destruct (lookup_att [] nm r) as [v|] eqn:El; [|reflexivity].
  exfalso. destruct (lookup_att_in _ _ _ El) as (a & Ha & _ & Hn & _). apply negb_true_iff in Hn1.
  assert (text_mem nm (map att_name r) = true) by (apply text_mem_in; rewrite <- Hn; apply in_map; exact Ha). congruence.
Qed.

Lemma find_fld_in nm fs f : find_fld nm fs = Some f -> In f fs /\ fl_name f = nm.
Proof.
  induction fs as [|g r IH]; [discriminate|]. cbn. destruct (text_eqb (fl_name g) nm) eqn:E.
  - intros H. injection H as <-. split; [left; reflexivity|apply text_eqb_true_eq; exact E].
  - intros H. destruct (IH H). split; [right|]; assumption.
Qed.
Lemma find_fld_nodup fs : NoDup (map fl_name fs) -> forall f, In f fs -> find_fld (fl_name f) fs = Some f.
Proof.
  induction fs as [|g r IH]; intros Hnd f Hf; [destruct Hf|]. inversion Hnd as [|? ? Hn Hnd']; subst. cbn.
  destruct Hf as [->|Hf]; [rewrite text_eqb_same; reflexivity|].
  destruct (text_eqb (fl_name g) (fl_name f)) eqn:E; [|apply IH; assumption].
  exfalso. apply text_eqb_true_eq in E. apply Hn. rewrite E. apply in_map. exact Hf.
Qed.

Lemma count_text_rev k l : count_text k (rev l) = count_text k l.
Proof. induction l as [|x r IH]; [reflexivity|]. cbn [rev count_text]. rewrite count_text_app, IH. cbn [count_text]. lia. Qed.

Lemma forallb_split {A} (p q : A -> bool) l :
  forallb p l = forallb p (filter q l) && forallb p (filter (fun x => negb (q x)) l).
Proof.
  induction l as [|x r IH]; [reflexivity|]. cbn [forallb filter]. rewrite IH. destruct (q x); cbn [negb forallb]; btauto.
Qed.
Lemma forallb_map {A B} (g : A -> B) (p : B -> bool) l : forallb p (map g l) = forallb (fun x => p (g x)) l.
Proof. induction l as [|x r IH]; [reflexivity|]. cbn. rewrite IH. reflexivity. Qed.
Lemma forallb_and {A} (p q : A -> bool) l : forallb (fun x => p x && q x) l = forallb p l && forallb q l.
Proof. induction l as [|x r IH]; [reflexivity|]. cbn [forallb]. rewrite IH. btauto. Qed.

(** iterating over the attributes present = iterating over the attribute members and looking
    each one up, when attribute names are distinct and every attribute is a member *)
Lemma atts_reindex (P : fld -> text -> bool) (AF : list fld) (atts : list attr) :
  NoDup (map fl_name AF) ->
  nodup_text (map att_name atts) = true ->
  (forall a, In a atts -> fst (fst a) = [] /\ exists f, In f AF /\ fl_name f = att_name a) ->
  forallb (fun a => match find_fld (att_name a) AF with Some f => P f (snd a) | None => true end) atts
  = forallb (fun f => match lookup_att [] (fl_name f) atts with Some v => P f v | None => true end) AF.
Proof.
  intros Hnd Hna Hat. apply Bool.eq_iff_eq_true. rewrite !forallb_forall. split.
  - intros H f Hf. destruct (lookup_att [] (fl_name f) atts) as [v|] eqn:El; [|reflexivity].
    destruct (lookup_att_in _ _ _ El) as (a & Ha & _ & Hn & Hv). specialize (H a Ha).
    rewrite Hn, (find_fld_nodup AF Hnd f Hf), Hv in H. exact H.
  - intros H a Ha. destruct (Hat a Ha) as (Hns & f & Hf & Hn). rewrite <- Hn, (find_fld_nodup AF Hnd f Hf).
    specialize (H f Hf). rewrite Hn in H.
    rewrite (lookup_att_nodup atts Hna (fun b Hb => proj1 (Hat b Hb)) a Ha) in H. exact H.
Qed.

Lemma fld_attr_facts0 n f : fld_ok n f = true -> is_elem f = false ->
  (exists st, fl_ty f = DLeaf st /\ wf_stype st = true)
  /\ eff_required (adecl_of f) = (0 <? fl_min f) /\ 0 <= fl_min f /\ fl_max f = Fin 1 /\ fl_min f <= 1.
Proof.
  intros Hok He. unfold fld_ok in Hok. unfold is_elem in He. destruct (fl_kind f) eqn:Ek; [discriminate|]. split_all.
  destruct (fl_ty f) as [st| |] eqn:Et; try discriminate. split; [exists st; split; [reflexivity|assumption]|].
  assert (Hmax : fl_max f = Fin 1).
  { match goal with H1 : ext_leb (Fin 1) (fl_max f) = true, H2 : ext_leb (fl_max f) (Fin 1) = true |- _ =>
      destruct (fl_max f) as [|z|]; cbn in H1, H2; try discriminate; f_equal; lia end. }
  split; [|split; [lia|split; [exact Hmax|]]].
  2: { match goal with H : ext_leb (Fin (fl_min f)) (fl_max f) = true |- _ => rewrite Hmax in H; cbn in H; lia end. }
  - unfold eff_required, adecl_of, attr_use. cbn [a_required].
    destruct (fl_use f) as [b|].
    + match goal with H : Bool.eqb b (0 <? fl_min f) = true |- _ => apply eqb_prop in H; rewrite H end. reflexivity.
    + destruct (fl_min f >? 0) eqn:E; destruct (0 <? fl_min f) eqn:E2; try reflexivity; lia.
Qed.

Section Agree.
  Variable pat : text -> option re.
  Variable olex : okind -> text -> option Z.
  Variable ord : okind -> text -> out Z.
  Variable U : univ.
  Variable S : schema.
  Variable LA : stype -> bool -> option text -> option text -> bool.
  Hypothesis Hwf : wf_univ U = true.
  Hypothesis Hres : resolves S U.
  (** the leaf contents the document class allows are those on which the two validators agree *)
  Hypothesis H_LA : forall st nil d txt,
    In (DLeaf st) (tys_of U) -> wf_stype st = true -> LA st nil d txt = true ->
    st_elem_ok pat olex st d txt = is_ok (soft_leaf ord st nil txt).

  Lemma lookup_plain_none nm atts : forallb is_xsi atts = true -> lookup_att [] nm atts = None.
  Proof.
    induction atts as [|[[a b] c] r IH]; [reflexivity|]. cbn [forallb]. intros H. apply andb_prop in H. destruct H as [H1 H2].
    cbn [lookup_att]. unfold is_xsi in H1. apply text_eqb_true_eq in H1. subst a. cbn [text_eqb xsi_ns]. apply IH. exact H2.
  Qed.

  Lemma plain_nil_all_xsi atts : plain_atts atts = [] -> forallb is_xsi atts = true.
  Proof.
    unfold plain_atts. induction atts as [|a r IH]; [reflexivity|]. cbn [filter forallb].
    destruct (is_xsi a); cbn [negb]; [exact IH|discriminate].
  Qed.

  (** a nilled element: both validators accept it iff the member is nillable *)
  Lemma agree_nil m' k t nillable dflt ns name atts txt :
    ty_known U t -> (k + length U < m')%nat ->
    xsi_ok atts = true -> is_nil_att atts = true -> no_text txt = true -> plain_atts atts = [] -> (negb nillable || nil_ok U t) = true ->
    valid_elem pat olex (Datatypes.S m') S (type_qn U t) nillable dflt (XElt ns name atts txt []) = nillable
    /\ is_ok (soft U ord (Datatypes.S k) t nillable (XElt ns name atts txt [])) = nillable.
  Proof.
    intros Hty Hm Hx Hn Ht Hp Hnok. split; [|cbn [soft]; rewrite Hn; destruct nillable; reflexivity].
    pose proof (xsi_ok_lookup atts Hx) as Hl. unfold is_nil_att in Hn.
    destruct (lookup_att xsi_ns t_nil atts) as [v|] eqn:El; [|discriminate].
    cbn -[resolve_simple eff_content attrs_ok match_seq].
    rewrite (xsi_ok_guard atts Hx), El. cbn [negb is_some andb].
    destruct nillable; [|reflexivity]. cbn [negb orb] in Hnok. cbn [negb].
    pose proof (nil_value_true v Hl) as Hv. cbv zeta in Hv. rewrite Hv.
    fold (plain_atts atts). rewrite Hp.
    pose proof (plain_nil_all_xsi atts Hp) as Hall.
    destruct t as [st|c|aq iname el].
    - destruct Hty as [Hin Hw]. cbn [dty_ok] in Hw. cbn [type_qn]. rewrite (resolve_leaf U S Hres st Hin Hw). exact Ht.
    - cbn [ty_known] in Hty. destruct (nth_error U c) as [cl|] eqn:Ec; [|apply nth_error_None in Ec; lia].
      destruct (chain_exists U Hwf c cl Ec) as [L HL].
      destruct (HL m' ltac:(lia)) as (C1 & _ & _). destruct (HL (Datatypes.S c) ltac:(lia)) as (_ & C2 & _).
      cbn [type_qn]. destruct (rs_klass S U Hres c cl Ec) as (d & Hd1 & Hd2 & Hd3).
      pose proof (wf_klass U c cl Hwf Ec) as Hk. unfold klass_ok in Hk. split_all.
      rewrite (resolve_complex S (klass_qn U c) (cdef_of U cl)).
      + rewrite (eff_content_klass U S Hwf Hres m' c L C1). rewrite Ht. cbn [andb]. rewrite andb_true_r.
        cbn [nil_ok] in Hnok. apply negb_true_iff in Hnok. unfold has_required_attr in Hnok. unfold flat in Hnok. rewrite C2 in Hnok.
        unfold attrs_ok. apply andb_true_iff. split.
        * apply forallb_forall. intros a Ha. rewrite forallb_forall in Hall. rewrite (Hall a Ha). destruct a as [[? ?] ?]. reflexivity.
        * apply forallb_forall. intros dd Hdd. rewrite (lookup_plain_none _ atts Hall). apply negb_true_iff.
          unfold attrs_of in Hdd. apply in_map_iff in Hdd. destruct Hdd as (f & <- & Hf).
          apply filter_In in Hf. destruct Hf as [Hf Hel]. apply negb_true_iff in Hel. apply in_map_iff in Hf. destruct Hf as (q & <- & Hq).
          destruct (L_flds_known U Hwf L (chain_known U _ _ _ C1) q Hq) as (_ & _ & _ & Hok).
          destruct (fld_attr_facts0 _ (snd q) Hok Hel) as (_ & Hr & Hm0 & _ & _). rewrite Hr.
          destruct (0 <? fl_min (snd q)) eqn:E; [|reflexivity]. exfalso.
          assert (existsb (fun p : text * fld => negb (is_elem (snd p)) && (0 <? fl_min (snd p))) (L_flds L) = true).
          { apply existsb_exists. exists q. split; [exact Hq|]. rewrite Hel, E. reflexivity. }
          congruence.
      + rewrite (klass_qn_get U c cl Ec). cbn [fst]. apply negb_true_iff. assumption.
      + rewrite (klass_qn_get U c cl Ec). exact Hd3.
    - destruct Hty as [Hin Hw]. cbn [dty_ok] in Hw. apply andb_prop in Hw. destruct Hw as [Hns _]. apply negb_true_iff in Hns.
      destruct (rs_arr S U Hres aq iname el Hin) as (d & D1 & D2 & D3). cbn [type_qn].
      rewrite (resolve_complex S aq _ Hns D3).
      destruct m' as [|m'']; [lia|]. cbn [eff_content]. rewrite D1, D3. cbn [c_base c_seq c_atts]. rewrite Ht.
      unfold attrs_ok. cbn [forallb andb]. rewrite !andb_true_r.
      apply forallb_forall. intros a Ha. rewrite forallb_forall in Hall. rewrite (Hall a Ha). destruct a as [[? ?] ?]. reflexivity.
  Qed.

  (* ---------------------------------------------------------------- soft validation of the children *)
  Lemma child_atts_ok fields catts :
    forallb (fun a : attr => is_none (find_fld (clark (fst (fst a)) (snd (fst a))) fields)) catts = true ->
    child_atts ord fields catts = Ok tt.
  Proof.
    induction catts as [|[[a b] c] r IH]; [reflexivity|]. cbn [forallb fst snd]. intros H. apply andb_prop in H. destruct H as [H1 H2].
    cbn [child_atts]. apply is_none_true in H1. rewrite H1. apply IH. exact H2.
  Qed.

  Definition kid_ok (sf : fld -> xnode -> out unit) (fields : list fld) (kid : xnode) : bool :=
    match find_fld (node_name kid) fields with Some f => is_ok (sf f kid) | None => true end.

  (** every child is an element named after an element member, and carries no clashing attribute *)
  Definition kids_plain (fields : list fld) (kids : list xnode) : Prop :=
    forall kid, In kid kids ->
      match kid with
      | XElt _ name catts _ _ =>
          (exists f, find_fld name fields = Some f /\ is_elem f = true)
          /\ forallb (fun a : attr => is_none (find_fld (clark (fst (fst a)) (snd (fst a))) fields)) catts = true
      | XOther => False
      end.

  Lemma soft_kids_spec sf fields : forall kids freq, kids_plain fields kids ->
    if forallb (kid_ok sf fields) kids
    then soft_kids ord sf fields kids freq = Ok (rev (map node_name kids) ++ freq)
    else is_ok (soft_kids ord sf fields kids freq) = false.
  Proof.
    induction kids as [|kid r IH]; intros freq Hp; [reflexivity|].
    assert (Hr : kids_plain fields r) by (intros x Hx; apply Hp; right; exact Hx).
    pose proof (Hp kid (or_introl eq_refl)) as Hk. destruct kid as [ns name catts txt ks|]; [|contradiction].
    destruct Hk as ((f & Hf & Hel) & Hc). cbn [forallb soft_kids]. unfold kid_ok at 1. cbn [node_name]. rewrite Hf.
    unfold is_elem in Hel. destruct (fl_kind f) eqn:Ek; [|discriminate].
    destruct (sf f (XElt ns name catts txt ks)) as [[]| |] eqn:Es; cbn [is_ok andb bind]; try reflexivity.
    rewrite (child_atts_ok fields catts Hc). cbn [bind].
    specialize (IH (name :: freq) Hr). destruct (forallb (kid_ok sf fields) r).
    - rewrite IH. cbn [map rev]. rewrite <- app_assoc. reflexivity.
    - exact IH.
  Qed.

  (* ---------------------------------------------------------------- soft validation of the attributes *)
  Definition att_ok (fields : list fld) (a : attr) : bool :=
    match find_fld (snd (fst a)) fields with
    | Some f => match fl_ty f with
                | DLeaf st => is_ok (soft_leaf ord st (fl_nillable f) (Some (snd a)))
                | _ => false
                end
    | None => true
    end.

  Lemma clark_plain n : clark [] n = n.
  Proof. reflexivity. Qed.

  Lemma soft_atts_spec fields : forall atts freq,
    (forall a, In a atts -> fst (fst a) = [] /\ exists f, find_fld (snd (fst a)) fields = Some f /\ is_elem f = false) ->
    if forallb (att_ok fields) atts
    then soft_atts ord fields atts freq = Ok (rev (map (fun a : attr => snd (fst a)) atts) ++ freq)
    else is_ok (soft_atts ord fields atts freq) = false.
  Proof.
    induction atts as [|[[ans an] av] r IH]; intros freq Hp; [reflexivity|].
    assert (Hr : forall a, In a r -> fst (fst a) = [] /\ exists f, find_fld (snd (fst a)) fields = Some f /\ is_elem f = false)
      by (intros x Hx; apply Hp; right; exact Hx).
    destruct (Hp _ (or_introl eq_refl)) as (Hns & f & Hf & Hel). cbn [fst snd] in Hns, Hf. subst ans.
    cbn [forallb soft_atts]. unfold att_ok at 1. cbn [fst snd]. rewrite clark_plain, Hf.
    unfold is_elem in Hel. destruct (fl_kind f) eqn:Ek; [discriminate|].
    destruct (fl_ty f) as [st| |]; cbn [andb is_ok]; try reflexivity.
    destruct (soft_leaf ord st (fl_nillable f) (Some av)) as [[]| |]; cbn [is_ok andb bind]; try reflexivity.
    specialize (IH (an :: freq) Hr). destruct (forallb (att_ok fields) r).
    - rewrite IH. cbn [map rev fst snd]. rewrite <- app_assoc. reflexivity.
    - exact IH.
  Qed.


  (* ---------------------------------------------------------------- a class element *)
  Lemma valid_elem_complex2 m' q nillable dflt ns name atts txt kids ps ats :
    forallb (fun a => negb (is_xsi a)) atts = true -> resolve_simple S q = None -> eff_content m' S q = Some (ps, ats) ->
    valid_elem pat olex (Datatypes.S m') S q nillable dflt (XElt ns name atts txt kids)
    = attrs_ok pat olex S ats atts && (all_xws txt && match_seq (velem_m pat olex S m') ps (filter is_elt kids)).
  Proof.
    intros Hp Hr He. cbn -[resolve_simple eff_content attrs_ok match_seq all_xws].
    assert (H1 : forallb (fun a => negb (is_xsi a) || is_xsi_nil a) atts = true).
    { apply forallb_forall. intros a Ha. rewrite forallb_forall in Hp. rewrite (Hp a Ha). reflexivity. }
    rewrite H1, (lookup_nil_plain atts Hp), Hr, He. cbn [negb is_some andb]. reflexivity.
  Qed.

  Lemma filter_all_elts kids : forallb is_elt kids = true -> filter is_elt kids = kids.
  Proof. induction kids as [|k r IH]; [reflexivity|]. cbn. intros H. apply andb_prop in H. destruct H as [-> H]. rewrite (IH H). reflexivity. Qed.

  Definition child_chk (k : nat) (f : fld) (c0 : xnode) : bool :=
    ddoc U LA k (fl_ty f) (fl_nillable f) (default_text f) c0.

  Lemma agree_class k m' c cl L nillable dflt ns name atts txt kids :
    (k + length U < m')%nat ->
    get_klass U c = Some cl -> chain_fuel (Datatypes.S c) U c = Some L ->
    (forall t' nil' d' e', ty_known U t' -> ddoc U LA k t' nil' d' e' = true ->
        valid_elem pat olex m' S (type_qn U t') nil' d' e' = is_ok (soft U ord k t' nil' e')) ->
    xsi_ok atts = true -> is_nil_att atts = false ->
    all_xws txt = true -> forallb is_elt kids = true ->
    items_doc (child_chk k) L kids = true ->
    groups_single L kids = true ->
    atts_doc LA (map snd (L_flds L)) (plain_atts atts) = true ->
    no_clash (map snd (L_flds L)) atts kids = true ->
    valid_elem pat olex (Datatypes.S m') S (klass_qn U c) nillable dflt (XElt ns name atts txt kids)
    = is_ok (soft U ord (Datatypes.S k) (DRef c) nillable (XElt ns name atts txt kids)).
  Proof.
    intros Hm Hc HL IH Hx Hnil Hws Helts Hdoc Hgs Hatts Hclash.
    set (F0 := map snd (L_flds L)) in *.
    destruct (not_nil_plain atts Hx Hnil) as [Hlk Hplain]. rewrite (all_plain_filter atts Hplain) in Hatts.
    (* facts about the universe *)
    destruct (chain_exists U Hwf c cl Hc) as [L' HL'].
    destruct (HL' (Datatypes.S c) ltac:(lia)) as (C0 & C2 & _). rewrite HL in C0. injection C0 as <-.
    destruct (HL' m' ltac:(pose proof (nth_error_Some U c); unfold get_klass in Hc; rewrite Hc in *; assert (c < length U)%nat by (apply H; discriminate); lia)) as (C1 & _ & _).
    pose proof (chain_known U _ _ _ HL) as Hkn.
    pose proof (wf_klass U c cl Hwf Hc) as Hk. unfold klass_ok in Hk. split_all.
    assert (Hnd : NoDup (map (fun p => fl_name (snd p)) (L_flds L))).
    { apply nodup_text_NoDup. match goal with H : match flat U c with _ => _ end = true |- _ => unfold flat in H; rewrite C2 in H; exact H end. }
    assert (Hnd0 : NoDup (map fl_name F0)) by (unfold F0; rewrite map_map; exact Hnd).
    assert (Hgw : forall p, In p L -> match snd p with IGroup _ ms => forallb is_elem ms = true | IOne _ => True end).
    { intros p Hp. pose proof (item_known_wf U Hwf _ (Hkn p Hp)) as Hw. destruct (snd p) as [f|g ms]; [exact I|].
      destruct Hw as [_ Hms]. apply forallb_forall. intros f Hf. exact (proj1 (proj2 (proj2 (Hms f Hf)))). }
    assert (Hgwf : forall p, In p L -> group_wf (snd p)).
    { intros p Hp. pose proof (item_known_wf U Hwf _ (Hkn p Hp)) as Hw. destruct (snd p) as [f|g ms]; [exact I|].
      destruct Hw as [Hne Hms]. split; [exact Hne|]. intros f Hf. destruct (Hms f Hf) as (Q1 & Q2 & _). split; [exact Q1|].
      pose proof (fld_ok_max _ f Q2) as Hmx. destruct (fl_max f) as [|z|]; cbn in *; try discriminate; try reflexivity. lia. }
    set (E := efields L).
    assert (HE : forall p, In p E -> In (snd p) F0 /\ is_elem (snd p) = true).
    { intros p Hp. unfold E, efields in Hp. apply filter_In in Hp. destruct Hp as [Hp He]. split; [|exact He]. unfold F0. apply in_map. exact Hp. }
    assert (HEfind : forall p, In p E -> find_fld (fl_name (snd p)) F0 = Some (snd p)).
    { intros p Hp. apply find_fld_nodup; [exact Hnd0|exact (proj1 (HE p Hp))]. }
    assert (HEnd : NoDup (map (fun p => fl_name (snd p)) E)).
    { unfold E, efields. clear -Hnd. induction (L_flds L) as [|q r IHr]; [constructor|]. cbn [map filter] in *. inversion Hnd as [|? ? Hn Hnd']; subst.
      destruct (is_elem (snd q)); [|apply IHr; exact Hnd']. cbn [map]. constructor; [|apply IHr; exact Hnd'].
      intros Hin. apply Hn. apply in_map_iff in Hin. destruct Hin as (x & Hx1 & Hx2). apply filter_In in Hx2. apply in_map_iff. exists x. split; [exact Hx1|exact (proj1 Hx2)]. }
    rewrite (items_doc_flat (child_chk k) L Hgw) in Hdoc. fold E in Hdoc.
    pose proof (fdoc_shape _ _ _ Hdoc) as Hshape.
    (* ---- the schema side *)
    destruct (rs_klass S U Hres c cl Hc) as (dd & Hd1 & Hd2 & Hd3).
    rewrite (valid_elem_complex2 m' (klass_qn U c) nillable dflt ns name atts txt kids (L_parts U L) (attrs_of F0) Hplain).
    2: { apply (resolve_complex S (klass_qn U c) (cdef_of U cl)); rewrite (klass_qn_get U c cl Hc); [cbn [fst]; apply negb_true_iff; assumption|exact Hd3]. }
    2: { unfold F0. apply (eff_content_klass U S Hwf Hres m' c L C1). }
    rewrite Hws, (filter_all_elts kids Helts). cbn [andb].
    rewrite (match_items U _ L kids Hgwf Hgs), (items_match_flat U _ L Hgw). fold E.
    rewrite (fdoc_forallb _ F0 E kids HEfind Hshape), (focc_counts U E kids HEnd Hshape).
    (* ---- the soft side *)
    cbn [soft]. rewrite Hnil. unfold flat. rewrite C2. fold F0.
    assert (Hkp : kids_plain F0 kids).
    { intros kid Hkid. rewrite forallb_forall in Helts. pose proof (Helts kid Hkid) as Hel.
      destruct kid as [kns kname catts ktxt kkids|]; [|discriminate].
      destruct (shape_members E kids Hshape _ Hkid) as (p & Hp & He). pose proof (elt_is_name _ _ _ He) as Hn. cbn [node_name] in Hn. subst kname.
      split; [exists (snd p); split; [exact (HEfind p Hp)|exact (proj2 (HE p Hp))]|].
      unfold no_clash in Hclash. apply andb_prop in Hclash. destruct Hclash as [_ Hcl]. rewrite forallb_forall in Hcl. exact (Hcl _ Hkid). }
    pose proof (soft_kids_spec (fun f => soft U ord k (fl_ty f) (fl_nillable f)) F0 kids [] Hkp) as HK.
    (* children: the two per-child checks coincide by the induction hypothesis *)
    assert (Hkids : forallb (fun kid => match find_fld (node_name kid) F0 with
                                        | Some f => velem_m pat olex S m' (fld_edecl U f) kid | None => true end) kids
                    = forallb (kid_ok (fun f => soft U ord k (fl_ty f) (fl_nillable f)) F0) kids).
    { rewrite (fdoc_forallb (child_chk k) F0 E kids HEfind Hshape) in Hdoc. rewrite forallb_forall in Hdoc.
      apply forallb_ext_in'. intros kid Hkid. specialize (Hdoc kid Hkid). unfold kid_ok.
      destruct (find_fld (node_name kid) F0) as [f|] eqn:Ef; [|reflexivity].
      rewrite velem_fld. unfold child_chk in Hdoc. rewrite default_text_dtext in Hdoc. apply IH; [|exact Hdoc].
      destruct (find_fld_in _ _ _ Ef) as [Hin _]. unfold F0 in Hin. apply in_map_iff in Hin. destruct Hin as (q & <- & Hq).
      destruct (L_flds_known U Hwf L Hkn q Hq) as (cl' & Hcl' & Hin' & Hok).
      pose proof (fld_ok_ty _ _ Hok) as Hty. unfold ty_known. destruct (fl_ty (snd q)) as [st|c'|aq iname el] eqn:Et.
      - split; [|exact Hty]. unfold tys_of. apply in_flat_map. exists cl'. split; [exact Hcl'|]. apply in_flat_map. exists (snd q). split; [exact Hin'|].
        rewrite Et. left. reflexivity.
      - cbn in Hty. apply Nat.ltb_lt. exact Hty.
      - split; [|exact Hty]. unfold tys_of. apply in_flat_map. exists cl'. split; [exact Hcl'|]. apply in_flat_map. exists (snd q). split; [exact Hin'|].
        rewrite Et. left. reflexivity. }
    rewrite Hkids.
    destruct (forallb (kid_ok (fun f => soft U ord k (fl_ty f) (fl_nillable f)) F0) kids) eqn:EK.
    2: { rewrite andb_false_r. cbn [andb]. rewrite is_ok_bind.
         destruct (soft_kids ord _ F0 kids []) as [fr| |]; [discriminate HK|reflexivity|reflexivity]. }
    rewrite HK. cbn [bind]. cbn [andb]. rewrite app_nil_r.
    (* attributes *)
    unfold atts_doc in Hatts. apply andb_prop in Hatts. destruct Hatts as [Hat1 Hat2]. rewrite forallb_forall in Hat1.
    assert (Hatt : forall a, In a atts -> fst (fst a) = [] /\ exists f, find_fld (snd (fst a)) F0 = Some f /\ is_elem f = false
                                           /\ exists st, fl_ty f = DLeaf st /\ LA st (fl_nillable f) None (Some (snd a)) = true).
    { intros [[ans an] av] Ha. specialize (Hat1 _ Ha). cbn beta iota in Hat1. apply andb_prop in Hat1. destruct Hat1 as [A1 A2].
      destruct ans; [|discriminate]. split; [reflexivity|]. cbn [fst snd]. destruct (find_fld an F0) as [f|]; [|discriminate].
      apply andb_prop in A2. destruct A2 as [A2 A3]. apply negb_true_iff in A2. exists f. repeat split; try assumption.
      destruct (fl_ty f) as [st| |]; try discriminate. exists st. split; [reflexivity|exact A3]. }
    pose proof (soft_atts_spec F0 atts (rev (map node_name kids))
                 (fun a Ha => let '(conj H1 (ex_intro _ f (conj H2 (conj H3 _)))) := Hatt a Ha in conj H1 (ex_intro _ f (conj H2 H3)))) as HA.
    set (AF := filter (fun f => negb (is_elem f)) F0).
    assert (HAF : forall f, In f AF -> In f F0 /\ is_elem f = false
                     /\ exists q, In q (L_flds L) /\ snd q = f /\ fld_ok (length U) f = true).
    { intros f Hf. unfold AF in Hf. apply filter_In in Hf. destruct Hf as [Hf He]. apply negb_true_iff in He.
      split; [exact Hf|]. split; [exact He|]. unfold F0 in Hf. apply in_map_iff in Hf. destruct Hf as (q & <- & Hq).
      destruct (L_flds_known U Hwf L Hkn q Hq) as (_ & _ & _ & Hok). exists q. auto. }
    assert (HAFnd : NoDup (map fl_name AF)).
    { unfold AF. clear -Hnd0. induction F0 as [|g r IHr]; [constructor|]. cbn [map filter] in *. inversion Hnd0 as [|? ? Hn Hnd']; subst.
      destruct (negb (is_elem g)); [|apply IHr; exact Hnd']. cbn [map]. constructor; [|apply IHr; exact Hnd'].
      intros Hin. apply Hn. apply in_map_iff in Hin. destruct Hin as (x & Hx1 & Hx2). apply filter_In in Hx2. apply in_map_iff. exists x. split; [exact Hx1|exact (proj1 Hx2)]. }
    set (occA := fun f => match lookup_att [] (fl_name f) atts with Some _ => true | None => negb (0 <? fl_min f) end).
    assert (Hattns : forall a, In a atts -> fst (fst a) = []) by (intros a Ha; exact (proj1 (Hatt a Ha))).
    assert (Hnda : nodup_text (map att_name atts) = true) by exact Hat2.
    (* no attribute is named like an element member, no child like an attribute member *)
    assert (Hlk_elem : forall p, In p E -> lookup_att [] (fl_name (snd p)) atts = None).
    { intros p Hp. destruct (lookup_att [] (fl_name (snd p)) atts) as [v|] eqn:El; [|reflexivity]. exfalso.
      destruct (lookup_att_in _ _ _ El) as (a & Ha & _ & Hn & _). destruct (Hatt a Ha) as (_ & f & Hf & He & _).
      unfold att_name in Hn. rewrite Hn, (HEfind p Hp) in Hf. injection Hf as <-. rewrite (proj2 (HE p Hp)) in He. discriminate. }
    assert (Hcnt_attr : forall f, In f AF -> count_text (fl_name f) (map node_name kids) = 0).
    { intros f Hf. apply count_names_other. intros kid Hkid Heq. destruct (shape_members E kids Hshape _ Hkid) as (p & Hp & He).
      rewrite (elt_is_name _ _ _ He) in Heq. destruct (HAF f Hf) as (Hf0 & Hfe & _).
      pose proof (find_fld_nodup F0 Hnd0 f Hf0) as Hff. rewrite <- Heq, (HEfind p Hp) in Hff. injection Hff as <-.
      rewrite (proj2 (HE p Hp)) in Hfe. discriminate. }
    (* (i) the attribute uses of the schema = the attribute checks of soft validation + their occurrence *)
    assert (Hattrs : attrs_ok pat olex S (attrs_of F0) atts = forallb (att_ok F0) atts && forallb occA AF).
    { unfold attrs_ok.
      assert (X1 : forallb (fun a : attr => let '(ans, n, _) := a in
                      is_xsi a || (match ans with [] => true | _ => false end && existsb (fun d => text_eqb (a_name d) n) (attrs_of F0))) atts = true).
      { apply forallb_forall. intros [[ans an] av] Ha. destruct (Hatt _ Ha) as (Hns & f & Hf & He & _). cbn [fst snd] in Hns, Hf. subst ans.
        apply orb_true_iff. right. cbn [andb]. apply existsb_exists. exists (adecl_of f). split.
        - unfold attrs_of. apply in_map. apply filter_In. split; [exact (proj1 (find_fld_in _ _ _ Hf))|rewrite He; reflexivity].
        - cbn [a_name adecl_of]. rewrite (proj2 (find_fld_in _ _ _ Hf)). apply text_eqb_same. }
      rewrite X1. cbn [andb]. unfold attrs_of. fold AF. rewrite forallb_map.
      set (P := fun (f : fld) (v : text) => match fl_ty f with DLeaf st => simple_ok pat olex S (leaf_qn st) v | _ => true end).
      rewrite (forallb_ext_in' _ (fun f => match lookup_att [] (fl_name f) atts with Some v => P f v | None => true end && occA f) AF).
      2: { intros f Hf. destruct (HAF f Hf) as (_ & He & q & _ & _ & Hok). destruct (fld_attr_facts0 _ f Hok He) as ((st & Et & _) & Hr & _).
           cbn [a_name a_type adecl_of]. unfold occA, P. rewrite Et, Hr. destruct (lookup_att [] (fl_name f) atts); [rewrite andb_true_r|]; reflexivity. }
      rewrite forallb_and. f_equal.
      rewrite <- (atts_reindex P AF atts HAFnd Hnda).
      2: { intros a Ha. destruct (Hatt a Ha) as (Hns & f & Hf & He & _). split; [exact Hns|]. exists f. destruct (find_fld_in _ _ _ Hf) as [Hin Hn].
           split; [unfold AF; apply filter_In; split; [exact Hin|rewrite He; reflexivity]|exact Hn]. }
      apply forallb_ext_in'. intros a Ha. destruct (Hatt a Ha) as (Hns & f & Hf & He & st & Et & Hla).
      destruct (find_fld_in _ _ _ Hf) as [Hin Hn].
      assert (HfAF : In f AF) by (unfold AF; apply filter_In; split; [exact Hin|rewrite He; reflexivity]).
      unfold att_name. rewrite <- Hn, (find_fld_nodup AF HAFnd f HfAF). unfold att_ok. rewrite <- Hn at 1. rewrite (find_fld_nodup F0 Hnd0 f Hin).
      unfold P. rewrite Et. destruct (HAF f HfAF) as (_ & _ & q & Hq & Hqf & Hok).
      destruct (L_flds_known U Hwf L Hkn q Hq) as (cl' & Hcl' & Hin' & _). rewrite Hqf in Hin'.
      pose proof (fld_ok_ty _ _ Hok) as Hty. rewrite Et in Hty. cbn [dty_ok] in Hty.
      assert (Hin_ty : In (DLeaf st) (tys_of U)).
      { unfold tys_of. apply in_flat_map. exists cl'. split; [exact Hcl'|]. apply in_flat_map. exists f. split; [exact Hin'|]. rewrite Et. left. reflexivity. }
      rewrite (simple_ok_leaf pat olex U S Hres st _ Hin_ty Hty).
      rewrite <- (H_LA st (fl_nillable f) None (Some (snd a)) Hin_ty Hty Hla). destruct (snd a); reflexivity. }
    (* (ii) the occurrence check of soft validation, member by member *)
    assert (Hocc : occurs_ok F0 (rev (map att_name atts) ++ rev (map node_name kids))
                   = forallb (fun p => occ_ok (fld_edecl U (snd p)) (count_text (fl_name (snd p)) (map node_name kids))) E
                     && forallb occA AF).
    { unfold occurs_ok. rewrite (forallb_split _ is_elem F0). fold AF. f_equal.
      - assert (HEmap : filter is_elem F0 = map snd E).
        { unfold F0, E, efields. clear. induction (L_flds L) as [|q r IHr]; [reflexivity|]. cbn [map filter]. destruct (is_elem (snd q)); cbn [map]; rewrite IHr; reflexivity. }
        rewrite HEmap, forallb_map. apply forallb_ext_in'. intros p Hp.
        rewrite count_text_app, !count_text_rev, (att_count atts _ Hnda Hattns), (Hlk_elem p Hp), occ_ok_fld. reflexivity.
      - apply forallb_ext_in'. intros f Hf. destruct (HAF f Hf) as (_ & He & q & _ & _ & Hok).
        destruct (fld_attr_facts0 _ f Hok He) as (_ & _ & Hm0 & Hmax & Hm1).
        rewrite count_text_app, !count_text_rev, (att_count atts _ Hnda Hattns), (Hcnt_attr f Hf), Hmax. unfold occA.
        destruct (lookup_att [] (fl_name f) atts); cbn [ext_leb]; lia. }
    rewrite Hattrs. rewrite is_ok_bind.
    destruct (forallb (att_ok F0) atts) eqn:EA.
    - rewrite HA. unfold att_name in Hocc. rewrite Hocc. cbn [andb].
      destruct (forallb _ E && forallb occA AF) eqn:EO; rewrite andb_comm in EO; rewrite EO; reflexivity.
    - cbn [andb]. destruct (soft_atts ord F0 atts _) as [fr| |]; [discriminate HA|reflexivity|reflexivity].
  Qed.


  (* ---------------------------------------------------------------- the theorem *)
  Lemma tys_of_arr_el aq iname el : In (DArr aq iname el) (tys_of U) -> In el (tys_of U).
  Proof.
    unfold tys_of. intros H. apply in_flat_map in H. destruct H as (cl & Hcl & H). apply in_flat_map in H. destruct H as (f & Hf & H).
    apply in_flat_map. exists cl. split; [exact Hcl|]. apply in_flat_map. exists f. split; [exact Hf|].
    clear -H. revert H. generalize (fl_ty f). intros t. induction t as [st|c|aq' iname' e IH]; cbn [sub_tys]; intros H.
    - destruct H as [H|[]]. discriminate.
    - destruct H as [H|[]]. discriminate.
    - destruct H as [H|H].
      + injection H as -> -> ->. right. destruct el; left; reflexivity.
      + right. apply IH. exact H.
  Qed.

  Theorem verdicts_agree : forall n t nillable dflt e,
    ty_known U t -> ddoc U LA n t nillable dflt e = true ->
    forall m, (n + length U < m)%nat ->
      valid_elem pat olex m S (type_qn U t) nillable dflt e = is_ok (soft U ord n t nillable e).
  Proof.
    induction n as [|k IHk]; intros t nillable dflt e Hty Hdoc m Hm; [discriminate Hdoc|].
    destruct m as [|m']; [lia|]. assert (Hm' : (k + length U < m')%nat) by lia.
    destruct e as [ns name atts txt kids|]; [|discriminate Hdoc].
    cbn [ddoc] in Hdoc. apply andb_prop in Hdoc. destruct Hdoc as [Hx Hdoc].
    destruct (is_nil_att atts) eqn:Enil.
    - (* nilled *)
      apply andb_prop in Hdoc. destruct Hdoc as [Hdoc Hnok]. apply andb_prop in Hdoc. destruct Hdoc as [Hdoc Hpl].
      apply andb_prop in Hdoc. destruct Hdoc as [Htxt Hk]. destruct kids; [|discriminate Hk].
      assert (Hpl' : plain_atts atts = []) by (destruct (plain_atts atts); [reflexivity|discriminate Hpl]).
      destruct (agree_nil m' k t nillable dflt ns name atts txt Hty Hm' Hx Enil Htxt Hpl' Hnok) as [A B]. rewrite A, B. reflexivity.
    - destruct (not_nil_plain atts Hx Enil) as [Hlk Hplain].
      destruct t as [st|c|aq iname el].
      + (* a leaf element *)
        apply andb_prop in Hdoc. destruct Hdoc as [Hdoc Hla]. apply andb_prop in Hdoc. destruct Hdoc as [Hdoc Hne].
        apply andb_prop in Hdoc. destruct Hdoc as [Hk Hpl]. destruct kids; [|discriminate Hk].
        rewrite (all_plain_filter atts Hplain) in Hpl. destruct atts; [|discriminate Hpl].
        destruct Hty as [Hin Hw]. cbn [dty_ok] in Hw. cbn [type_qn].
        rewrite (valid_elem_leaf pat olex U S Hres m' st nillable dflt ns name txt Hin Hw).
        cbn [soft]. cbn [is_nil_att lookup_att]. apply H_LA; assumption.
      + (* a class element *)
        cbn [ty_known] in Hty. destruct (nth_error U c) as [cl|] eqn:Ec; [|apply nth_error_None in Ec; lia].
        destruct (chain_fuel (Datatypes.S c) U c) as [L|] eqn:EL; [|discriminate Hdoc].
        apply andb_prop in Hdoc. destruct Hdoc as [Hdoc H6]. apply andb_prop in Hdoc. destruct Hdoc as [Hdoc H5].
        apply andb_prop in Hdoc. destruct Hdoc as [Hdoc H4]. apply andb_prop in Hdoc. destruct Hdoc as [Hdoc H3].
        apply andb_prop in Hdoc. destruct Hdoc as [H1 H2].
        cbn [type_qn].
        apply (agree_class k m' c cl L nillable dflt ns name atts txt kids Hm' Ec EL); try assumption.
        intros t' nil' d' e' Hty' Hd'. apply IHk; assumption.
      + (* an array element *)
        apply andb_prop in Hdoc. destruct Hdoc as [Hdoc Hkids]. apply andb_prop in Hdoc. destruct Hdoc as [Hpl Hws].
        rewrite (all_plain_filter atts Hplain) in Hpl. destruct atts; [|discriminate Hpl].
        destruct Hty as [Hin Hw]. cbn [dty_ok] in Hw. apply andb_prop in Hw. destruct Hw as [Hns Hwel]. apply negb_true_iff in Hns.
        destruct (rs_arr S U Hres aq iname el Hin) as (d & D1 & D2 & D3). cbn [type_qn].
        assert (Heff : eff_content m' S aq = Some ([(fst aq, PElem (edecl_of U iname el 0 PosInf true None))], [])).
        { destruct m' as [|m'']; [lia|]. cbn [eff_content]. rewrite D1, D3. cbn [c_base c_seq c_atts map].
          unfold local_ns. rewrite D2, (find_doc_tns S _ _ D1). reflexivity. }
        refine (eq_trans (valid_elem_complex2 m' aq nillable dflt ns name [] txt kids _ _ eq_refl (resolve_complex S aq _ Hns D3) Heff) _).
        rewrite Hws. cbn [attrs_ok forallb andb].
        assert (Hel : ty_known U el).
        { pose proof (tys_of_arr_el aq iname el Hin) as Hin'. destruct el as [st|c|? ? ?]; cbn [ty_known]; [split; assumption| |split; assumption].
          cbn in Hwel. apply Nat.ltb_lt. exact Hwel. }
        rewrite forallb_forall in Hkids.
        assert (Helts : forallb is_elt kids = true).
        { apply forallb_forall. intros c0 Hc0. specialize (Hkids c0 Hc0). apply andb_prop in Hkids. destruct Hkids as [He _]. destruct c0; [reflexivity|discriminate He]. }
        rewrite (filter_all_elts kids Helts). cbn [match_seq]. change (e_name (edecl_of U iname el 0 PosInf true None)) with iname.
        assert (Hrun : forallb (elt_is (fst aq) iname) kids = true).
        { apply forallb_forall. intros c0 Hc0. specialize (Hkids c0 Hc0). apply andb_prop in Hkids. exact (proj1 Hkids). }
        rewrite <- (app_nil_r kids) at 1. rewrite (span_name_app (fst aq) iname kids [] Hrun eq_refl).
        unfold occ_ok. rewrite eff_min_edecl, eff_max_edecl. cbn [ext_leb andb].
        assert (0 <=? len_nodes kids = true) as -> by (unfold len_nodes; lia). cbn [andb]. rewrite andb_true_r.
        cbn [soft]. cbn [is_nil_att lookup_att]. rewrite is_ok_bind.
        assert (Hmap : is_ok (mapM (soft U ord k el true) kids) = forallb (velem_m pat olex S m' (edecl_of U iname el 0 PosInf true None)) kids).
        { rewrite is_ok_mapM. apply forallb_ext_in'. intros c0 Hc0. specialize (Hkids c0 Hc0). apply andb_prop in Hkids. destruct Hkids as [_ Hd0].
          unfold velem_m. rewrite e_type_edecl, eff_nillable_edecl, e_default_edecl. symmetry. apply IHk; assumption. }
        rewrite <- Hmap. destruct (mapM (soft U ord k el true) kids); reflexivity.
  Qed.

End Agree.
