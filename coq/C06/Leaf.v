(** C06 — leaf (simple) values shared by the Spyne side and the XSD side.  Definitions only. *)
From SpyneV Require Export Base.Digits Base.Ext C08.IntModel C06.Syntax C06.Regex C06.Dec.

(** leaf kinds whose text codec is delegated to the standard library; the models only need
    their order (a key) and the text Spyne writes (carried in the value, as observed) *)
Inductive okind := ODouble | OFloat | ODate | OTime | ODateTime | ODuration | OBase64 | OUuid.

Definition okind_eqb (a b : okind) : bool :=
  match a, b with
  | ODouble, ODouble | OFloat, OFloat | ODate, ODate | OTime, OTime | ODateTime, ODateTime
  | ODuration, ODuration | OBase64, OBase64 | OUuid, OUuid => true
  | _, _ => false
  end.

Inductive sval :=
| SInt (z : Z)
| SText (t : text)
| SBool (b : bool)
| SDec (d : decimal)
| SOpq (k : okind) (key : Z) (canon : text).

(** order of the value space, where there is one *)
Definition sval_cmp (a b : sval) : option comparison :=
  match a, b with
  | SInt x, SInt y => Some (Z.compare x y)
  | SDec x, SDec y => Some (dec_compare x y)
  | SOpq k x _, SOpq k' y _ => if okind_eqb k k' then Some (Z.compare x y) else None
  | _, _ => None
  end.
Definition sval_ltb (a b : sval) : bool := match sval_cmp a b with Some Lt => true | _ => false end.
Definition sval_leb (a b : sval) : bool := match sval_cmp a b with Some Lt | Some Eq => true | _ => false end.
(** equality of the value space (Python ==, XSD value equality) *)
Definition sval_eqb (a b : sval) : bool :=
  match a, b with
  | SText x, SText y => text_eqb x y
  | SBool x, SBool y => Bool.eqb x y
  | _, _ => match sval_cmp a b with Some Eq => true | _ => false end
  end.

(** XML whitespace (#x20 #x9 #xA #xD) trimmed at both ends: the effect of whiteSpace=collapse
    on literals without inner blanks *)
Definition is_xws (c : Z) : bool := (c =? 32) || (c =? 9) || (c =? 10) || (c =? 13).
Fixpoint drop_xws (l : text) : text :=
  match l with c :: r => if is_xws c then drop_xws r else l | [] => [] end.
Definition xs_trim (l : text) : text := rev (drop_xws (rev (drop_xws l))).

Definition t_false : text := [102; 97; 108; 115; 101].
Definition t_zero : text := [48].
