(** C06 — decimal.Decimal: format(d, 'f') is an xs:decimal literal of the same number for every
    finite Decimal; str(d) is one exactly when it has no exponent. *)
From Coq Require Import ZArith List Bool Lia ZifyBool.
From SpyneV Require Import Base.DigitsProofs C08.IntProofs C06.Spec C06.LeafProofs.
Import ListNotations.
Open Scope Z_scope.

(* ------------------------------------------------------------------ digits *)
Lemma all_digits_app a b : all_digits (a ++ b) = all_digits a && all_digits b.
Proof. induction a as [|c r IH]; [reflexivity|]. cbn. rewrite IH. apply andb_assoc. Qed.
Lemma all_digits_zeros n : all_digits (zeros n) = true.
Proof. induction n; [reflexivity|exact IHn]. Qed.
Lemma all_digits_str_nat c : 0 <= c -> all_digits (str_nat c) = true.
Proof. intros H. apply Forall_all_digits. apply str_nat_digits. exact H. Qed.
Lemma all_digits_firstn n l : all_digits l = true -> all_digits (firstn n l) = true.
Proof. revert n. induction l as [|c r IH]; intros [|n]; cbn; try reflexivity. intros H. apply andb_prop in H. destruct H as [-> H]. apply IH. exact H. Qed.
Lemma all_digits_skipn n l : all_digits l = true -> all_digits (skipn n l) = true.
Proof. revert n. induction l as [|c r IH]; intros [|n]; cbn; try reflexivity; [auto|]. intros H. apply andb_prop in H. destruct H as [_ H]. apply IH. exact H. Qed.

Lemma span_digits_all ds rest :
  all_digits ds = true -> match rest with c :: _ => is_digit c = false | [] => True end ->
  span_digits (ds ++ rest) = (ds, rest).
Proof.
  intros Hd Hr. induction ds as [|c r IH].
  - cbn. destruct rest as [|c r]; [reflexivity|]. cbn. rewrite Hr. reflexivity.
  - cbn in Hd. apply andb_prop in Hd. destruct Hd as [H1 H2]. cbn. rewrite H1, (IH H2). reflexivity.
Qed.

Lemma val_digits_zeros_l n l : val_digits 0 (zeros n ++ l) = val_digits 0 l.
Proof. induction n as [|n IH]; [reflexivity|]. cbn [zeros app]. unfold val_digits in *. cbn [fold_left]. unfold dstep at 2. exact IH. Qed.
Lemma val_digits_zeros_r n : forall a, val_digits a (zeros n) = a * 10 ^ Z.of_nat n.
Proof.
  induction n as [|n IH]; intros a; [cbn; lia|].
  cbn [zeros]. unfold val_digits in *. cbn [fold_left]. rewrite IH. unfold dstep. rewrite Nat2Z.inj_succ, Z.pow_succ_r by lia. lia.
Qed.
Lemma len_zeros n : len (zeros n) = Z.of_nat n.
Proof. unfold len. induction n; [reflexivity|]. cbn [zeros length]. lia. Qed.
Lemma len_app (a b : text) : len (a ++ b) = len a + len b.
Proof. unfold len. rewrite app_length. lia. Qed.

(* ------------------------------------------------------------------ numeric comparison *)
Lemma dec_scaled_shift d m M : M <= m -> m <= d_exp d -> dec_scaled d M = dec_scaled d m * 10 ^ (m - M).
Proof.
  intros H1 H2. unfold dec_scaled. replace (d_exp d - M) with ((d_exp d - m) + (m - M)) by lia.
  rewrite Z.pow_add_r by lia. lia.
Qed.

Lemma dec_compare_scale a b M : M <= d_exp a -> M <= d_exp b ->
  dec_compare a b = Z.compare (dec_scaled a M) (dec_scaled b M).
Proof.
  intros Ha Hb. unfold dec_compare. set (m := Z.min (d_exp a) (d_exp b)).
  rewrite (dec_scaled_shift a m M), (dec_scaled_shift b m M) by lia.
  apply Zmult_compare_compat_r. apply Z.lt_gt. apply Z.pow_pos_nonneg; lia.
Qed.

(** two representations of the same number *)
Definition same_num (a b : decimal) : Prop :=
  forall M, M <= d_exp a -> M <= d_exp b -> dec_scaled a M = dec_scaled b M.

Lemma same_num_compare_l a b x : same_num a b -> dec_compare a x = dec_compare b x.
Proof.
  intros H. set (M := Z.min (d_exp a) (Z.min (d_exp b) (d_exp x))).
  rewrite (dec_compare_scale a x M), (dec_compare_scale b x M) by lia. rewrite (H M) by lia. reflexivity.
Qed.
Lemma same_num_compare_r a b x : same_num a b -> dec_compare x a = dec_compare x b.
Proof.
  intros H. set (M := Z.min (d_exp a) (Z.min (d_exp b) (d_exp x))).
  rewrite (dec_compare_scale x a M), (dec_compare_scale x b M) by lia. rewrite (H M) by lia. reflexivity.
Qed.

Lemma same_num_equiv a b : same_num a b -> sval_equiv (SDec a) (SDec b).
Proof.
  intros H. repeat split; intros v; destruct v; try reflexivity; unfold sval_eqb; cbn [sval_cmp];
    rewrite ?(same_num_compare_l a b _ H), ?(same_num_compare_r a b _ H); reflexivity.
Qed.

(* ------------------------------------------------------------------ format(d, 'f') is an xs:decimal literal of d *)
Lemma val_digits_app0 a b : val_digits 0 (a ++ b) = val_digits (val_digits 0 a) b.
Proof. apply val_digits_app. Qed.

Lemma str_nat_cons c : 0 <= c -> exists c0 r, str_nat c = c0 :: r /\ is_digit c0 = true.
Proof. intros H. destruct (str_nat_head c H) as (c0 & m & E & D). eauto. Qed.

Definition plain_exp (d : decimal) : Z := if (d_coeff d =? 0) && (0 <? d_exp d) then 0 else d_exp d.
Definition plain_body (d : decimal) : text :=
  let digits := str_nat (d_coeff d) in
  let n := len digits in
  let e := plain_exp d in
  let dotplace := e + n in
  if 0 <=? e then digits ++ zerosZ e
  else if dotplace <=? 0 then [48; 46] ++ zerosZ (- dotplace) ++ digits
  else firstn (Z.to_nat dotplace) digits ++ 46 :: skipn (Z.to_nat dotplace) digits.
Lemma dec_plain_body d : dec_plain d = sign_text (d_neg d) ++ plain_body d.
Proof. reflexivity. Qed.

(** the value xs:decimal reads from the text *)
Definition plain_value (neg : bool) (d : decimal) : decimal :=
  if 0 <=? plain_exp d then mkdec neg (d_coeff d * 10 ^ plain_exp d) 0 else mkdec neg (d_coeff d) (plain_exp d).

Lemma plain_body_parse neg d : 0 <= d_coeff d -> xs_decimal_unsigned neg (plain_body d) = Some (plain_value neg d).
Proof.
  intros Hc. unfold plain_body, plain_value. set (digits := str_nat (d_coeff d)). set (e := plain_exp d).
  assert (Hdig : all_digits digits = true) by (apply all_digits_str_nat; exact Hc).
  assert (Hval : val_digits 0 digits = d_coeff d) by (apply val_str_nat0; exact Hc).
  destruct (str_nat_cons _ Hc) as (c0 & r0 & Ed & Hc0). fold digits in Ed.
  assert (Hn : 1 <= len digits) by (rewrite Ed; unfold len; cbn [length]; lia).
  unfold xs_decimal_unsigned.
  destruct (0 <=? e) eqn:Ee.
  - (* integer part followed by zeros *)
    rewrite <- (app_nil_r (digits ++ zerosZ e)).
    rewrite span_digits_all; [|rewrite all_digits_app, Hdig; apply all_digits_zeros|exact I].
    destruct (digits ++ zerosZ e) as [|z0 zr] eqn:Eapp.
    { apply app_eq_nil in Eapp. destruct Eapp as [Eapp _]. rewrite Ed in Eapp. discriminate. }
    rewrite <- Eapp. f_equal. f_equal.
    rewrite val_digits_app0, Hval. unfold zerosZ. rewrite val_digits_zeros_r, Z2Nat.id by lia. reflexivity.
  - destruct (e + len digits <=? 0) eqn:Ed2.
    + (* 0.000ddd *)
      change ([48; 46] ++ zerosZ (- (e + len digits)) ++ digits) with ([48] ++ 46 :: zerosZ (- (e + len digits)) ++ digits).
      rewrite span_digits_all; [|reflexivity|reflexivity].
      rewrite <- (app_nil_r (zerosZ (- (e + len digits)) ++ digits)).
      rewrite span_digits_all; [|rewrite all_digits_app, Hdig, andb_true_r; apply all_digits_zeros|exact I].
      f_equal. unfold zerosZ. cbn [app]. f_equal.
      * change (48 :: zeros (Z.to_nat (- (e + len digits))) ++ digits) with (zeros (S (Z.to_nat (- (e + len digits)))) ++ digits).
        rewrite val_digits_zeros_l. exact Hval.
      * rewrite len_app, len_zeros, Z2Nat.id by lia. lia.
    + (* ddd.ddd *)
      set (dp := Z.to_nat (e + len digits)).
      assert (Hdp : (dp < length digits)%nat) by (unfold len in *; lia).
      rewrite span_digits_all; [|apply all_digits_firstn; exact Hdig|reflexivity].
      rewrite <- (app_nil_r (skipn dp digits)).
      rewrite span_digits_all; [|apply all_digits_skipn; exact Hdig|exact I].
      assert (Hsk : skipn dp digits <> []).
      { intros E. apply (f_equal (@length Z)) in E. rewrite skipn_length in E. change (length (@nil Z)) with 0%nat in E. lia. }
      destruct (skipn dp digits) as [|s0 sr] eqn:Esk; [contradiction|].
      assert (Hm : match firstn dp digits, s0 :: sr with [], [] => None | _, _ => Some (mkdec neg (val_digits 0 (firstn dp digits ++ s0 :: sr)) (- len (s0 :: sr))) end
                   = Some (mkdec neg (val_digits 0 (firstn dp digits ++ s0 :: sr)) (- len (s0 :: sr)))) by (destruct (firstn dp digits); reflexivity).
      rewrite Hm. rewrite <- Esk, firstn_skipn, Hval. f_equal. f_equal.
      unfold len. rewrite skipn_length. unfold len in *. lia.
Qed.

Lemma plain_body_head d : 0 <= d_coeff d -> exists c0 r, plain_body d = c0 :: r /\ is_digit c0 = true.
Proof.
  intros Hc. unfold plain_body. destruct (str_nat_cons _ Hc) as (c0 & r0 & Ed & Hc0).
  destruct (0 <=? plain_exp d); [rewrite Ed; cbn [app]; eauto|].
  destruct (plain_exp d + len (str_nat (d_coeff d)) <=? 0) eqn:E; [cbn [app]; eexists; eexists; split; [reflexivity|reflexivity]|].
  rewrite Ed. destruct (Z.to_nat (plain_exp d + len (c0 :: r0))) eqn:En.
  - rewrite Ed in E. lia.
  - cbn [firstn app]. eauto.
Qed.

Theorem xs_decimal_plain d : 0 <= d_coeff d -> xs_decimal (dec_plain d) = Some (plain_value (d_neg d) d).
Proof.
  intros Hc. rewrite dec_plain_body. destruct (d_neg d) eqn:En; cbn [sign_text app].
  - cbn [xs_decimal]. apply plain_body_parse. exact Hc.
  - destruct (plain_body_head d Hc) as (c0 & r & Eb & Hd).
    assert (Hx : xs_decimal (plain_body d) = xs_decimal_unsigned false (plain_body d)).
    { rewrite Eb. unfold is_digit in Hd.
      assert (c0 = 48 \/ c0 = 49 \/ c0 = 50 \/ c0 = 51 \/ c0 = 52 \/ c0 = 53 \/ c0 = 54 \/ c0 = 55 \/ c0 = 56 \/ c0 = 57) as Hcases by lia.
      destruct Hcases as [->|[->|[->|[->|[->|[->|[->|[->|[->| ->]]]]]]]]]; reflexivity. }
    rewrite Hx. apply plain_body_parse. exact Hc.
Qed.

Lemma plain_value_same d : 0 <= d_coeff d -> same_num (plain_value (d_neg d) d) d.
Proof.
  intros Hc M. unfold plain_value, plain_exp.
  destruct ((d_coeff d =? 0) && (0 <? d_exp d)) eqn:Ez.
  - apply andb_prop in Ez. destruct Ez as [E0 _]. apply Z.eqb_eq in E0. cbn [Z.leb Z.compare].
    intros _ _. unfold dec_scaled. cbn [d_neg d_coeff d_exp]. rewrite E0. lia.
  - destruct (0 <=? d_exp d) eqn:Ee.
    + cbn [d_exp]. intros H1 H2. unfold dec_scaled. cbn [d_neg d_coeff d_exp].
      replace (d_exp d - M) with (d_exp d + (0 - M)) by lia. rewrite Z.pow_add_r by lia. lia.
    + intros _ _. destruct d as [n c e]. reflexivity.
Qed.

Lemma plain_last_digit d : 0 <= d_coeff d -> exists m c, dec_plain d = m ++ [c] /\ is_digit c = true.
Proof.
  intros Hc. rewrite dec_plain_body. unfold plain_body.
  destruct (str_nat_last _ Hc) as (m & c & Em & Hd).
  assert (Hz : forall k (pre : text), exists m' c', pre ++ str_nat (d_coeff d) ++ zerosZ k = m' ++ [c'] /\ is_digit c' = true).
  { intros k pre. unfold zerosZ. destruct (Z.to_nat k) as [|j].
    - cbn [zeros]. rewrite app_nil_r, Em. exists (pre ++ m), c. rewrite app_assoc. auto.
    - exists (pre ++ str_nat (d_coeff d) ++ zeros j), 48. split; [|reflexivity].
      assert (zeros (S j) = zeros j ++ [48]) as -> by (clear; induction j; [reflexivity|cbn [zeros app] in *; f_equal; exact IHj]).
      rewrite !app_assoc. reflexivity. }
  destruct (0 <=? plain_exp d) eqn:E0.
  - apply Hz.
  - destruct (plain_exp d + len (str_nat (d_coeff d)) <=? 0) eqn:E1.
    + rewrite Em. exists (sign_text (d_neg d) ++ [48; 46] ++ zerosZ (- (plain_exp d + len (m ++ [c]))) ++ m), c.
      split; [rewrite !app_assoc; reflexivity|exact Hd].
    + set (dp := Z.to_nat (plain_exp d + len (str_nat (d_coeff d)))).
      destruct (skipn dp (str_nat (d_coeff d))) as [|s0 sr] eqn:Esk.
      * (* nothing after the point: cannot happen, but the last character is then the point's predecessor: handle by cases *)
        exfalso. apply (f_equal (@length Z)) in Esk. rewrite skipn_length in Esk. change (length (@nil Z)) with 0%nat in Esk.
        unfold dp, len in *. lia.
      * assert (Hl : exists m' c', s0 :: sr = m' ++ [c'] /\ is_digit c' = true).
        { assert (Hall : all_digits (s0 :: sr) = true) by (rewrite <- Esk; apply all_digits_skipn; apply all_digits_str_nat; exact Hc).
          clear -Hall. revert s0 Hall. induction sr as [|x r IH]; intros s0 Hall.
          - exists [], s0. cbn in Hall. rewrite andb_true_r in Hall. auto.
          - cbn in Hall. apply andb_prop in Hall. destruct Hall as [_ Hall]. destruct (IH x Hall) as (m' & c' & E & D).
            exists (s0 :: m'), c'. rewrite E. auto. }
        destruct Hl as (m' & c' & E & D). rewrite E.
        exists (sign_text (d_neg d) ++ firstn dp (str_nat (d_coeff d)) ++ 46 :: m'), c'. split; [|exact D].
        rewrite <- !app_assoc. cbn [app]. reflexivity.
Qed.

Lemma dec_plain_trim d : 0 <= d_coeff d -> xs_trim (dec_plain d) = dec_plain d.
Proof.
  intros Hc. destruct (plain_last_digit d Hc) as (m & c & Em & Hd).
  assert (Hhead : exists x r, dec_plain d = x :: r /\ is_xws x = false).
  { rewrite dec_plain_body. destruct (plain_body_head d Hc) as (c0 & r & Eb & Hd0). rewrite Eb.
    destruct (d_neg d); cbn [sign_text app]; eexists; eexists; (split; [reflexivity|]); [reflexivity|apply digit_not_xws; exact Hd0]. }
  destruct Hhead as (x & r & Ex & Hx).
  destruct m as [|y m'].
  - rewrite Em. apply (xs_trim_id _ c c []); auto using digit_not_xws.
  - rewrite Em in Ex. cbn [app] in Ex. injection Ex as -> _. rewrite Em.
    apply (xs_trim_id _ x c m'); auto using digit_not_xws.
Qed.

(** the number of digits of c * 10^e *)
Lemma len_str_nat_pow c e : 0 < c -> 0 <= e -> len (str_nat (c * 10 ^ e)) = len (str_nat c) + e.
Proof.
  intros Hc He. set (L := len (str_nat c)).
  assert (HL1 : 1 <= L).
  { unfold L. destruct (str_nat_head c ltac:(lia)) as (c0 & m & E & _). rewrite E. unfold len. cbn [length]. lia. }
  assert (Hup : c < 10 ^ L) by (apply (str_nat_len c ltac:(lia) L HL1); lia).
  assert (Hlo : 10 ^ (L - 1) <= c).
  { destruct (Z.eq_dec L 1) as [E1|E1]; [rewrite E1; cbn; lia|].
    destruct (Z_lt_le_dec c (10 ^ (L - 1))) as [Hlt|Hge]; [|exact Hge].
    apply (str_nat_len c ltac:(lia) (L - 1) ltac:(lia)) in Hlt. unfold L in *. lia. }
  assert (Hp : 0 < 10 ^ e) by (apply Z.pow_pos_nonneg; lia).
  assert (H1 : len (str_nat (c * 10 ^ e)) <= L + e).
  { apply (str_nat_len (c * 10 ^ e) ltac:(nia) (L + e) ltac:(lia)). rewrite Z.pow_add_r by lia. nia. }
  assert (H2 : ~ len (str_nat (c * 10 ^ e)) <= L + e - 1).
  { intros H. destruct (Z.eq_dec (L + e) 1) as [E1|E1].
    - assert (1 <= len (str_nat (c * 10 ^ e))).
      { destruct (str_nat_head (c * 10 ^ e) ltac:(nia)) as (c0 & m & E & _). rewrite E. unfold len. cbn [length]. lia. }
      lia.
    - apply (str_nat_len (c * 10 ^ e) ltac:(nia) (L + e - 1) ltac:(lia)) in H.
      replace (L + e - 1) with ((L - 1) + e) in H by lia. rewrite Z.pow_add_r in H by lia. nia. }
  lia.
Qed.

Lemma plain_value_digits d : 0 <= d_coeff d -> dec_digits (plain_value (d_neg d) d) = dec_digits d.
Proof.
  intros Hc. unfold plain_value, plain_exp.
  destruct ((d_coeff d =? 0) && (0 <? d_exp d)) eqn:Ez.
  - apply andb_prop in Ez. destruct Ez as [E0 _]. apply Z.eqb_eq in E0. cbn [Z.leb Z.compare].
    unfold dec_digits. cbn [d_coeff]. rewrite E0. reflexivity.
  - destruct (0 <=? d_exp d) eqn:Ee; [|destruct d; reflexivity].
    unfold dec_digits. cbn [d_coeff d_exp].
    destruct (d_coeff d =? 0) eqn:E0.
    + apply Z.eqb_eq in E0. rewrite E0. reflexivity.
    + assert (Hp : 0 < 10 ^ d_exp d) by (apply Z.pow_pos_nonneg; lia).
      assert (d_coeff d * 10 ^ d_exp d =? 0 = false) as -> by nia.
      assert (Hf : Z.to_nat (- d_exp d) = 0%nat) by lia. rewrite Hf. cbn [Z.to_nat Z.opp strip_tz].
      cbn [Z.leb Z.compare]. rewrite Ee. rewrite len_str_nat_pow by lia. f_equal. lia.
Qed.

(* ------------------------------------------------------------------ the leaf facts for Decimal classes *)
Lemma wf_dec st :
  st_base st = BDec -> wf_stype st = true ->
  fa_pattern (st_fa st) = None
  /\ nonneg_opt (fa_total_digits (st_fa st)) = true /\ nonneg_opt (fa_fraction_digits (st_fa st)) = true
  /\ (forall g, In g (facet_values (st_fa st)) -> in_space BDec g = true).
Proof.
  intros Hb Hwf. unfold wf_stype in Hwf. rewrite Hb in Hwf. split_all.
  repeat split; try assumption; try (apply is_none_true; assumption).
  match goal with H : forallb _ _ = true |- _ => rewrite forallb_forall in H; exact H end.
Qed.

Section DecLeaf.
  Variable pat : text -> option re.
  Variable olex : okind -> text -> option Z.

  Lemma xs_value_dec_plain d : 0 <= d_coeff d ->
    xs_value olex XDec (dec_plain d) = Some (SDec (plain_value (d_neg d) d)).
  Proof. intros Hc. cbn [xs_value]. rewrite (dec_plain_trim d Hc), (xs_decimal_plain d Hc). reflexivity. Qed.

  Lemma schema_text_dec d : schema_text BDec (SDec d) = dec_plain d.
  Proof. unfold schema_text, schema_decimal_plain. reflexivity. Qed.

  Lemma dec_lex_rt g : in_space BDec g = true -> lex_rt olex BDec g.
  Proof.
    unfold in_space. destruct g as [| | |d|]; try discriminate. cbn [kind_ok andb]. intros Hc.
    assert (Hc' : 0 <= d_coeff d) by lia.
    exists (SDec (plain_value (d_neg d) d)). split.
    - rewrite schema_text_dec. cbn [xbase_of]. apply xs_value_dec_plain. exact Hc'.
    - apply same_num_equiv. apply plain_value_same. exact Hc'.
  Qed.

  (** format(d, 'f') of a Decimal that satisfies the declared constraints is valid against the
      published simple type: every finite Decimal, whatever its exponent *)
  Theorem dec_plain_valid st d :
    st_base st = BDec -> wf_stype st = true -> leaf_conf st (SDec d) = true ->
    st_simple_ok pat olex st (dec_plain d) = true.
  Proof.
    intros Hb Hwf Hlc. destruct (wf_dec st Hb Hwf) as (Hp & N1 & N2 & Hsp).
    unfold leaf_conf in Hlc. rewrite Hb in Hlc. cbn [kind_ok andb] in Hlc. split_all.
    assert (Hc : 0 <= d_coeff d) by lia.
    unfold st_simple_ok. rewrite Hb. cbn [xbase_of]. rewrite (xs_value_dec_plain d Hc).
    pose proof (range_facets_spec pat olex st (dec_plain d) (SDec d) (SDec (plain_value (d_neg d) d))) as HR.
    cbv zeta in HR. rewrite Hb in HR. cbn [xbase_of] in HR. rewrite HR; try assumption; try reflexivity.
    - repeat match goal with H : range_ok _ _ = true |- _ => rewrite H | H : values_ok _ _ = true |- _ => rewrite H end.
      unfold digits_ok. cbn [value_digits]. rewrite (plain_value_digits d Hc).
      destruct (dec_digits d) as [td fd]. cbn [fst snd] in *.
      destruct (fa_total_digits (st_fa st)), (fa_fraction_digits (st_fa st));
        repeat match goal with H : _ = true |- _ => rewrite H end; reflexivity.
    - intros Hw. discriminate Hw.
    - intros g Hg. apply dec_lex_rt. apply Hsp. exact Hg.
    - apply same_num_equiv. apply plain_value_same. exact Hc.
  Qed.

  (** str(d) = format(d, 'f') when str writes no exponent *)
  Lemma dec_str_plain d : 0 <= d_coeff d -> dec_plain_region d = true -> dec_str d = dec_plain d.
  Proof.
    intros Hc Hr. unfold dec_plain_region in Hr. apply andb_prop in Hr. destruct Hr as [R1 R2].
    unfold dec_str, dec_plain. set (digits := str_nat (d_coeff d)) in *. set (n := len digits) in *.
    assert (Hn : 1 <= n).
    { unfold n, digits. destruct (str_nat_head _ Hc) as (c0 & m & E & _). rewrite E. unfold len. cbn [length]. lia. }
    rewrite R1, R2. cbn [andb]. rewrite Z.eqb_refl, app_nil_r.
    assert (E0 : (d_coeff d =? 0) && (0 <? d_exp d) = false) by lia. rewrite E0.
    f_equal.
    destruct (0 <=? d_exp d) eqn:Ee.
    - assert (d_exp d = 0) as -> by lia. replace (0 + n) with n by lia.
      assert (n <=? 0 = false) as -> by lia. rewrite Z.leb_refl. replace (n - n) with 0 by lia. reflexivity.
    - destruct (d_exp d + n <=? 0) eqn:E1; [reflexivity|].
      assert (n <=? d_exp d + n = false) as -> by lia. reflexivity.
  Qed.
End DecLeaf.

(** both Decimal facts the structure theorem needs *)
Theorem dec_literal_holds pat olex : forall st d,
  st_base st = BDec -> wf_stype st = true -> leaf_conf st (SDec d) = true ->
  st_simple_ok pat olex st (schema_text BDec (SDec d)) = true.
Proof. intros st d Hb Hw Hl. rewrite schema_text_dec. apply dec_plain_valid; assumption. Qed.

Theorem dec_wire_holds pat olex : forall st d,
  st_base st = BDec -> wf_stype st = true -> leaf_conf st (SDec d) = true ->
  (d_exp d <=? 0) && (-6 <? d_exp d + len (str_nat (d_coeff d))) = true ->
  st_simple_ok pat olex st (dec_print decimal_printer d) = true.
Proof.
  intros st d Hb Hw Hl Hr. unfold decimal_printer. cbn [dec_print].
  assert (Hc : 0 <= d_coeff d).
  { unfold leaf_conf in Hl. rewrite Hb in Hl. cbn [kind_ok andb] in Hl. split_all. lia. }
  rewrite dec_str_plain by assumption. apply dec_plain_valid; assumption.
Qed.
