(** C06 — soundness of the decidable closure check. *)
From Coq Require Import ZArith List Bool Lia.
From SpyneV Require Import C06.Closure C06.LeafProofs.
Import ListNotations.
Open Scope Z_scope.

Lemma qname_eqb_eq a b : qname_eqb a b = true -> a = b.
Proof.
  destruct a, b. unfold qname_eqb. cbn. intros H. apply andb_prop in H. destruct H as [H1 H2].
  apply text_eqb_true_eq in H1. apply text_eqb_true_eq in H2. congruence.
Qed.
Lemma opt_eqb_eq {A} (eqb : A -> A -> bool) (Heq : forall x y, eqb x y = true -> x = y) a b : opt_eqb eqb a b = true -> a = b.
Proof. destruct a, b; cbn; try discriminate; [intros H; f_equal; apply Heq; exact H|reflexivity]. Qed.
Lemma list_eqb_eq {A} (eqb : A -> A -> bool) (Heq : forall x y, eqb x y = true -> x = y) a : forall b, list_eqb eqb a b = true -> a = b.
Proof.
  induction a as [|x r IH]; destruct b as [|y s]; cbn; try discriminate; [reflexivity|].
  intros H. apply andb_prop in H. destruct H as [H1 H2]. f_equal; [apply Heq; exact H1|apply IH; exact H2].
Qed.
Lemma ext_eqb_eq a b : ext_eqb a b = true -> a = b.
Proof. destruct a, b; cbn; try discriminate; try reflexivity. intros H. apply Z.eqb_eq in H. congruence. Qed.
Lemma zeqb_eq a b : Z.eqb a b = true -> a = b.
Proof. apply Z.eqb_eq. Qed.
Lemma ftag_eqb_eq a b : ftag_eqb a b = true -> a = b.
Proof. destruct a, b; cbn; try discriminate; reflexivity. Qed.

Lemma edecl_eqb_eq a b : edecl_eqb a b = true -> a = b.
Proof.
  destruct a, b. unfold edecl_eqb. cbn. intros H.
  repeat (apply andb_prop in H; destruct H as [H ?]).
  apply text_eqb_true_eq in H. 
  repeat match goal with
         | H : qname_eqb _ _ = true |- _ => apply qname_eqb_eq in H
         | H : opt_eqb Z.eqb _ _ = true |- _ => apply (opt_eqb_eq _ zeqb_eq) in H
         | H : opt_eqb ext_eqb _ _ = true |- _ => apply (opt_eqb_eq _ ext_eqb_eq) in H
         | H : opt_eqb Bool.eqb _ _ = true |- _ => apply (opt_eqb_eq _ eqb_prop) in H
         | H : opt_eqb text_eqb _ _ = true |- _ => apply (opt_eqb_eq _ text_eqb_true_eq) in H
         end.
  congruence.
Qed.
Lemma particle_eqb_eq a b : particle_eqb a b = true -> a = b.
Proof.
  destruct a, b; cbn; try discriminate; intros H; f_equal; [apply edecl_eqb_eq; exact H|apply (list_eqb_eq _ edecl_eqb_eq); exact H].
Qed.
Lemma adecl_eqb_eq a b : adecl_eqb a b = true -> a = b.
Proof.
  destruct a, b. unfold adecl_eqb. cbn. intros H. repeat (apply andb_prop in H; destruct H as [H ?]).
  apply text_eqb_true_eq in H.
  repeat match goal with
         | H : qname_eqb _ _ = true |- _ => apply qname_eqb_eq in H
         | H : opt_eqb Bool.eqb _ _ = true |- _ => apply (opt_eqb_eq _ eqb_prop) in H
         | H : opt_eqb text_eqb _ _ = true |- _ => apply (opt_eqb_eq _ text_eqb_true_eq) in H
         end.
  congruence.
Qed.
Lemma facet_eqb_eq a b : facet_eqb a b = true -> a = b.
Proof.
  destruct a, b. unfold facet_eqb. cbn. intros H. apply andb_prop in H. destruct H as [H1 H2].
  apply ftag_eqb_eq in H1. apply text_eqb_true_eq in H2. congruence.
Qed.
Lemma tdef_eqb_eq a b : tdef_eqb a b = true -> a = b.
Proof.
  destruct a as [[n1 b1 f1]|[n1 b1 s1 a1]], b as [[n2 b2 f2]|[n2 b2 s2 a2]]; unfold tdef_eqb; try discriminate;
    cbn [s_name s_base s_facets c_name c_base c_seq c_atts]; intros H.
  - apply andb_prop in H. destruct H as [H H3]. apply andb_prop in H. destruct H as [H1 H2].
    apply text_eqb_true_eq in H1. apply qname_eqb_eq in H2. apply (list_eqb_eq _ facet_eqb_eq) in H3. congruence.
  - apply andb_prop in H. destruct H as [H H4]. apply andb_prop in H. destruct H as [H H3]. apply andb_prop in H. destruct H as [H1 H2].
    apply text_eqb_true_eq in H1. apply (opt_eqb_eq _ qname_eqb_eq) in H2.
    apply (list_eqb_eq _ particle_eqb_eq) in H3. apply (list_eqb_eq _ adecl_eqb_eq) in H4. congruence.
Qed.

Lemma find_type_is_eq S q t : find_type_is S q t = true -> find_type S q = Some t.
Proof. unfold find_type_is. destruct (find_type S q) as [t'|]; [|discriminate]. intros H. apply tdef_eqb_eq in H. congruence. Qed.

(** the decidable check implies the closure property the structure theorems assume *)
Theorem resolves_b_sound S U : resolves_b S U = true -> resolves S U.
Proof.
  unfold resolves_b. intros H. apply andb_prop in H. destruct H as [Hk Ht]. rewrite forallb_forall in Hk, Ht.
  assert (Hcl : forall c cl, get_klass U c = Some cl -> klass_resolves S U cl = true).
  { intros c cl Hc. apply Hk. unfold get_klass in Hc. eapply nth_error_In. exact Hc. }
  constructor.
  - intros c cl Hc. specialize (Hcl c cl Hc). unfold klass_resolves in Hcl.
    destruct (find_doc S (k_ns cl)) as [d|]; [|discriminate]. apply andb_prop in Hcl. destruct Hcl as [Hcl _].
    apply andb_prop in Hcl. destruct Hcl as [H1 H2]. exists d. repeat split; [exact H1|apply find_type_is_eq; exact H2].
  - intros c cl Hc. specialize (Hcl c cl Hc). unfold klass_resolves in Hcl.
    destruct (find_doc S (k_ns cl)) as [d|]; [|discriminate]. apply andb_prop in Hcl. destruct Hcl as [_ Hcl].
    exists d. split; [reflexivity|]. destruct (assoc_text (k_name cl) (d_elems d)) as [q|] eqn:Ea; [|discriminate].
    apply qname_eqb_eq in Hcl. rewrite Hcl. reflexivity.
  - intros st Hin Hp. specialize (Ht _ Hin). cbn in Ht. rewrite Hp in Ht. destruct (st_qn st) as [q|]; [|discriminate].
    exists q. split; [reflexivity|apply find_type_is_eq; exact Ht].
  - intros aq iname e Hin. specialize (Ht _ Hin). cbn in Ht. destruct (find_doc S (fst aq)) as [d|]; [|discriminate].
    apply andb_prop in Ht. destruct Ht as [H1 H2]. exists d. repeat split; [exact H1|apply find_type_is_eq; exact H2].
Qed.
