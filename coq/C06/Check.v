(** C06 — comparison functions used by the correspondence case files (not by theorems):
    structural equality of schema syntax trees up to the order of documents, imports,
    type definitions and global elements.  Definitions only. *)
From SpyneV Require Export C06.Model.

Definition opt_eqb {A} (eqb : A -> A -> bool) (a b : option A) : bool :=
  match a, b with Some x, Some y => eqb x y | None, None => true | _, _ => false end.
Fixpoint list_eqb {A} (eqb : A -> A -> bool) (a b : list A) : bool :=
  match a, b with
  | [], [] => true
  | x :: r, y :: s => eqb x y && list_eqb eqb r s
  | _, _ => false
  end.
Definition set_eqb {A} (eqb : A -> A -> bool) (a b : list A) : bool :=
  Nat.eqb (length a) (length b)
  && forallb (fun x => existsb (eqb x) b) a && forallb (fun y => existsb (fun x => eqb x y) a) b.

Definition edecl_eqb (a b : edecl) : bool :=
  text_eqb (e_name a) (e_name b) && qname_eqb (e_type a) (e_type b)
  && opt_eqb Z.eqb (e_min a) (e_min b) && opt_eqb ext_eqb (e_max a) (e_max b)
  && opt_eqb Bool.eqb (e_nillable a) (e_nillable b) && opt_eqb text_eqb (e_default a) (e_default b).
Definition particle_eqb (a b : particle) : bool :=
  match a, b with
  | PElem x, PElem y => edecl_eqb x y
  | PChoice x, PChoice y => list_eqb edecl_eqb x y
  | _, _ => false
  end.
Definition adecl_eqb (a b : adecl) : bool :=
  text_eqb (a_name a) (a_name b) && qname_eqb (a_type a) (a_type b)
  && opt_eqb Bool.eqb (a_required a) (a_required b) && opt_eqb text_eqb (a_default a) (a_default b).
Definition facet_eqb (a b : ftag * text) : bool := ftag_eqb (fst a) (fst b) && text_eqb (snd a) (snd b).
Definition tdef_eqb (a b : tdef) : bool :=
  match a, b with
  | TSimple x, TSimple y =>
      text_eqb (s_name x) (s_name y) && qname_eqb (s_base x) (s_base y) && list_eqb facet_eqb (s_facets x) (s_facets y)
  | TComplex x, TComplex y =>
      text_eqb (c_name x) (c_name y) && opt_eqb qname_eqb (c_base x) (c_base y)
      && list_eqb particle_eqb (c_seq x) (c_seq y) && list_eqb adecl_eqb (c_atts x) (c_atts y)
  | _, _ => false
  end.
Definition elem_eqb (a b : text * qname) : bool := text_eqb (fst a) (fst b) && qname_eqb (snd a) (snd b).
Definition subset {A} (eqb : A -> A -> bool) (a b : list A) : bool := forallb (fun x => existsb (eqb x) b) a.
(** what of a model document [m] is missing from the real document [r] of the same namespace.
    The real schema may hold more (Spyne also publishes the uncustomised twin of an Array member
    type, and imports more namespaces than it refers to); what the model says must be there.
    Likewise the real schema may hold more documents (the namespace of Uuid when only customised
    twins of it are used). *)
Definition sdoc_missing (m r : sdoc) : list text * list tdef * list (text * qname) :=
  (filter (fun x => negb (existsb (text_eqb x) (d_imports r))) (d_imports m),
   filter (fun x => negb (existsb (tdef_eqb x) (d_types r))) (d_types m),
   filter (fun x => negb (existsb (elem_eqb x) (d_elems r))) (d_elems m)).
Definition sdoc_covered (m r : sdoc) : bool :=
  Bool.eqb (d_qualified m) (d_qualified r)
  && match sdoc_missing m r with ([], [], []) => true | _ => false end.
Definition schema_covered (model real : schema) : bool :=
  forallb (fun m => match find (fun r => text_eqb (d_tns r) (d_tns m)) real with
                       | Some r => sdoc_covered m r
                       | None => false
                       end) model.
Definition schema_diff (model real : schema) : list (text * option (list text * list tdef * list (text * qname))) :=
  map (fun m => (d_tns m, option_map (sdoc_missing m) (find (fun r => text_eqb (d_tns r) (d_tns m)) real))) model.

(** tables standing for the library functions in case files *)
Fixpoint assoc2 {A} (k : okind) (s : text) (l : list (okind * text * A)) : option A :=
  match l with
  | [] => None
  | (k', s', v) :: r => if okind_eqb k k' && text_eqb s s' then Some v else assoc2 k s r
  end.
Definition olex_of (t : list (okind * text * option Z)) (k : okind) (s : text) : option Z :=
  match assoc2 k s t with Some (Some z) => Some z | _ => None end.
Definition ord_of (t : list (okind * text * out Z)) (k : okind) (s : text) : out Z :=
  match assoc2 k s t with Some o => o | None => Crash OtherExn end.
Definition pat_of (t : list (text * re)) (p : text) : option re := assoc_text p t.

Definition out_unit_eqb (a b : out unit) : bool := out_eqb (fun _ _ => true) a b.
