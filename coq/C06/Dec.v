(** Python's decimal.Decimal text forms and the xs:decimal lexical space.  Definitions only.

    A finite Decimal is (sign, coefficient, exponent): Decimal.as_tuple() with the digit tuple
    read as a non-negative integer (the tuple never has leading zeros except for the single
    digit 0).  Mirrors CPython's Decimal.__str__ (scientific notation when exponent > 0 or
    adjusted exponent < -6) and Decimal.__format__(d, 'f') (never an exponent; a zero with a
    positive exponent is rescaled to exponent 0). *)
From SpyneV Require Export Base.Digits C06.Syntax.

Record decimal := mkdec { d_neg : bool; d_coeff : Z; d_exp : Z }.

Fixpoint zeros (n : nat) : text := match n with O => [] | S k => 48 :: zeros k end.
Definition zerosZ (n : Z) : text := zeros (Z.to_nat n).

Definition sign_text (neg : bool) : text := if neg then [45] else [].

(** "%+d" % n *)
Definition signed_int (n : Z) : text := if n <? 0 then str_int n else 43 :: str_int n.

(** Decimal.__str__ *)
Definition dec_str (d : decimal) : text :=
  let digits := str_nat (d_coeff d) in
  let n := len digits in
  let leftdigits := d_exp d + n in
  let dotplace := if (d_exp d <=? 0) && (-6 <? leftdigits) then leftdigits else 1 in
  let body :=
    if dotplace <=? 0 then [48; 46] ++ zerosZ (- dotplace) ++ digits
    else if n <=? dotplace then digits ++ zerosZ (dotplace - n)
    else firstn (Z.to_nat dotplace) digits ++ 46 :: skipn (Z.to_nat dotplace) digits in
  let ex := if leftdigits =? dotplace then [] else 69 :: signed_int (leftdigits - dotplace) in
  sign_text (d_neg d) ++ body ++ ex.

(** format(d, 'f') *)
Definition dec_plain (d : decimal) : text :=
  let digits := str_nat (d_coeff d) in
  let n := len digits in
  let e := if (d_coeff d =? 0) && (0 <? d_exp d) then 0 else d_exp d in
  let dotplace := e + n in
  let body :=
    if 0 <=? e then digits ++ zerosZ e
    else if dotplace <=? 0 then [48; 46] ++ zerosZ (- dotplace) ++ digits
    else firstn (Z.to_nat dotplace) digits ++ 46 :: skipn (Z.to_nat dotplace) digits in
  sign_text (d_neg d) ++ body.

Definition dec_print (p : dec_printer) (d : decimal) : text :=
  match p with DecStr => dec_str d | DecPlain => dec_plain d end.

(** xs:decimal lexical space ([+-]? (digits (. digits* )? | . digits+)) and its value *)
Fixpoint span_digits (l : text) : text * text :=
  match l with
  | c :: r => if is_digit c then let '(a, b) := span_digits r in (c :: a, b) else ([], l)
  | [] => ([], [])
  end.
Definition xs_decimal_unsigned (neg : bool) (s : text) : option decimal :=
  let '(ip, rest) := span_digits s in
  match rest with
  | [] => match ip with [] => None | _ => Some (mkdec neg (val_digits 0 ip) 0) end
  | 46 :: r =>
      let '(fp, rest') := span_digits r in
      match rest' with
      | [] => match ip, fp with
              | [], [] => None
              | _, _ => Some (mkdec neg (val_digits 0 (ip ++ fp)) (- len fp))
              end
      | _ => None
      end
  | _ => None
  end.
Definition xs_decimal (s : text) : option decimal :=
  match s with
  | 45 :: r => xs_decimal_unsigned true r
  | 43 :: r => xs_decimal_unsigned false r
  | _ => xs_decimal_unsigned false s
  end.

(** numeric comparison: scale both coefficients to the smaller exponent *)
Definition dec_scaled (d : decimal) (m : Z) : Z :=
  (if d_neg d then -1 else 1) * d_coeff d * 10 ^ (d_exp d - m).
Definition dec_compare (a b : decimal) : comparison :=
  let m := Z.min (d_exp a) (d_exp b) in
  Z.compare (dec_scaled a m) (dec_scaled b m).
Definition dec_ltb (a b : decimal) : bool := match dec_compare a b with Lt => true | _ => false end.
Definition dec_leb (a b : decimal) : bool := match dec_compare a b with Gt => false | _ => true end.
Definition dec_eqb (a b : decimal) : bool := match dec_compare a b with Eq => true | _ => false end.

(** XSD totalDigits / fractionDigits of the value: trailing fractional zeros do not count *)
Fixpoint strip_tz (fuel : nat) (c e : Z) : Z * Z :=
  match fuel with
  | O => (c, e)
  | S k => if (e <? 0) && (c mod 10 =? 0) && negb (c =? 0) then strip_tz k (c / 10) (e + 1) else (c, e)
  end.
Definition dec_digits (d : decimal) : Z * Z :=
  if d_coeff d =? 0 then (1, 0)
  else
    let '(c, e) := strip_tz (Z.to_nat (- d_exp d)) (d_coeff d) (d_exp d) in
    let n := len (str_nat c) in
    if 0 <=? e then (n + e, 0) else (Z.max n (- e), - e).
