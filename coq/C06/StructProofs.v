(** C06 — structure level: the effective content model of a published class, what Spyne
    writes for a conformant value is valid against it, and for documents in declared order
    schema validity and soft validation agree. *)
From Coq Require Import ZArith List Bool Lia ZifyBool Btauto.
From SpyneV Require Import C06.Spec C06.Docs C06.LeafProofs C06.SeqProofs.
Import ListNotations.
Open Scope Z_scope.

(* ------------------------------------------------------------------ a class with its ancestors *)
Lemma L_flds_app a b : L_flds (a ++ b) = L_flds a ++ L_flds b.
Proof. unfold L_flds. apply flat_map_app. Qed.
Lemma L_parts_app U a b : L_parts U (a ++ b) = L_parts U a ++ L_parts U b.
Proof. unfold L_parts. apply flat_map_app. Qed.

Lemma L_flds_own ns its : L_flds (map (pair ns) its) = map (pair ns) (flat_map item_flds its).
Proof.
  induction its as [|i r IH]; [reflexivity|]. cbn [map L_flds flat_map fst snd]. fold (L_flds (map (pair ns) r)).
  rewrite IH. unfold tagged. rewrite map_app. reflexivity.
Qed.

Lemma wf_from6_nth U : forall l i, wf_from6 U i l = true ->
  forall j cl, nth_error l j = Some cl -> klass_ok U (i + j) cl = true.
Proof.
  induction l as [|x r IH]; intros i H j cl Hn; [destruct j; discriminate|].
  cbn in H. apply andb_prop in H. destruct H as [H1 H2]. destruct j as [|j].
  - cbn in Hn. injection Hn as <-. rewrite Nat.add_0_r. exact H1.
  - cbn in Hn. replace (i + S j)%nat with (S i + j)%nat by lia. eapply IH; eassumption.
Qed.
Lemma wf_klass U c cl : wf_univ U = true -> get_klass U c = Some cl -> klass_ok U c cl = true.
Proof. intros H Hn. apply (wf_from6_nth U U 0 H c cl Hn). Qed.

(** in a well-formed universe the ancestors of a class are found with any sufficient fuel *)
Lemma chain_exists U : wf_univ U = true -> forall c cl, get_klass U c = Some cl ->
  exists L, forall fuel, (c < fuel)%nat ->
    chain_fuel fuel U c = Some L /\ flat_fuel fuel U c = Some (L_flds L) /\ flat_items_fuel U fuel c = Some (map snd L).
Proof.
  intros Hwf c. induction c as [c IH] using lt_wf_ind. intros cl Hc.
  pose proof (wf_klass U c cl Hwf Hc) as Hk. unfold klass_ok in Hk. split_all.
  destruct (k_parent cl) as [p|] eqn:Ep.
  - match goal with H : (p <? c)%nat = true |- _ => apply Nat.ltb_lt in H; rename H into Hp end.
    destruct (get_klass U p) as [pcl|] eqn:Epc.
    + destruct (IH p Hp pcl Epc) as [L HL].
      exists (L ++ map (pair (k_ns cl)) (k_items cl)). intros fuel Hf. destruct fuel as [|k]; [lia|].
      destruct (HL k ltac:(lia)) as (G1 & G2 & G3).
      cbn [chain_fuel flat_fuel flat_items_fuel]. rewrite Hc, Ep, G1, G2, G3.
      repeat split.
      * rewrite L_flds_app, L_flds_own. reflexivity.
      * rewrite map_app, map_map. cbn [snd]. rewrite map_id. reflexivity.
    + exfalso. match goal with H : match flat U c with _ => _ end = true |- _ => rename H into Hfl end.
      unfold flat in Hfl. cbn [flat_fuel] in Hfl. rewrite Hc, Ep in Hfl.
      assert (E : flat_fuel c U p = None).
      { destruct c; [lia|]. cbn. rewrite Epc. reflexivity. }
      rewrite E in Hfl. discriminate Hfl.
  - exists (map (pair (k_ns cl)) (k_items cl)). intros fuel Hf. destruct fuel as [|k]; [lia|].
    cbn [chain_fuel flat_fuel flat_items_fuel]. rewrite Hc, Ep. repeat split.
    + rewrite L_flds_own. reflexivity.
    + rewrite map_map. cbn [snd]. rewrite map_id. reflexivity.
Qed.

(* ------------------------------------------------------------------ effective content of a published class *)
Lemma klass_qn_get U c cl : get_klass U c = Some cl -> klass_qn U c = (k_ns cl, k_name cl).
Proof. unfold klass_qn. intros ->. reflexivity. Qed.

Lemma find_doc_tns S ns d : find_doc S ns = Some d -> d_tns d = ns.
Proof. unfold find_doc. intros H. apply find_some in H. destruct H as [_ H]. apply text_eqb_true_eq. exact H. Qed.

Lemma attrs_of_app a b : attrs_of (a ++ b) = attrs_of a ++ attrs_of b.
Proof. unfold attrs_of. rewrite filter_app, map_app. reflexivity. Qed.

Lemma L_parts_own U ns its : L_parts U (map (pair ns) its) = map (pair ns) (flat_map (ipart U) its).
Proof.
  induction its as [|i r IH]; [reflexivity|]. cbn [map L_parts flat_map fst snd]. fold (L_parts U (map (pair ns) r)).
  rewrite IH, map_app. reflexivity.
Qed.

Lemma klass_items_wf U c cl : wf_univ U = true -> get_klass U c = Some cl ->
  nodupZ (group_ids (k_items cl)) = true
  /\ (forall g ms, In (IGroup g ms) (k_items cl) ->
        ms <> [] /\ forallb is_elem ms = true
        /\ forall f, In f ms -> fl_min f = 0 /\ fld_ok (length U) f = true /\ fl_default f = None)
  /\ (forall f, In (IOne f) (k_items cl) -> fld_ok (length U) f = true).
Proof.
  intros Hwf Hc. pose proof (wf_klass U c cl Hwf Hc) as Hk. unfold klass_ok in Hk.
  assert (Hit : forall x, In x (k_items cl) -> item_ok (length U) x = true).
  { split_all. match goal with H : forallb (item_ok _) _ = true |- _ => rewrite forallb_forall in H; exact H end. }
  assert (Hn : nodupZ (group_ids (k_items cl)) = true) by (split_all; assumption).
  clear Hk. split; [exact Hn|]. split.
  - intros g ms Hin. specialize (Hit _ Hin). cbn [item_ok] in Hit. apply andb_prop in Hit. destruct Hit as [Hall Hne].
    rewrite forallb_forall in Hall. split; [destruct ms; [discriminate Hne|discriminate]|]. split.
    + apply forallb_forall. intros f Hf. specialize (Hall f Hf). split_all. assumption.
    + intros f Hf. specialize (Hall f Hf). split_all. repeat split; [lia|assumption|apply is_none_true; assumption].
  - intros f Hf. exact (Hit _ Hf).
Qed.

Section Content.
  Variable U : univ.
  Variable S : schema.
  Hypothesis Hwf : wf_univ U = true.
  Hypothesis Hres : resolves S U.

  Lemma eff_content_klass : forall fuel c L,
    chain_fuel fuel U c = Some L ->
    eff_content fuel S (klass_qn U c) = Some (L_parts U L, attrs_of (map snd (L_flds L))).
  Proof.
    induction fuel as [|k IH]; intros c L Hch; [discriminate|].
    cbn [chain_fuel] in Hch. destruct (get_klass U c) as [cl|] eqn:Ec; [|discriminate].
    rewrite (klass_qn_get U c cl Ec). destruct (rs_klass S U Hres c cl Ec) as (d & Hd & Hq & Ht).
    cbn [eff_content fst]. rewrite Hd, Ht.
    destruct (klass_items_wf U c cl Hwf Ec) as (Hn & Hg & _).
    assert (Hp : particles_of U (k_items cl) = flat_map (ipart U) (k_items cl)).
    { apply particles_of_items; [exact Hn|]. intros g ms Hin. apply (Hg g ms Hin). }
    assert (Hloc : local_ns d = k_ns cl) by (unfold local_ns; rewrite Hq; apply (find_doc_tns S); exact Hd).
    unfold cdef_of. cbn [c_seq c_atts c_base]. rewrite Hloc, Hp.
    destruct (k_parent cl) as [p|] eqn:Ep; cbn [option_map].
    - destruct (chain_fuel k U p) as [pl|] eqn:Epl; [|discriminate]. injection Hch as <-.
      rewrite (IH p pl Epl). cbn [fst snd].
      rewrite L_parts_app, L_parts_own, L_flds_app, L_flds_own, map_app, attrs_of_app.
      rewrite (map_map (pair (k_ns cl)) snd). cbn [snd]. rewrite map_id. reflexivity.
    - injection Hch as <-. rewrite L_parts_own, L_flds_own, (map_map (pair (k_ns cl)) snd). cbn [snd]. rewrite map_id. reflexivity.
  Qed.
End Content.

(* ------------------------------------------------------------------ resolution of type references *)
Lemma builtin_base b : (match b with BInt k => wf_ikind k | _ => true end) = true ->
  builtin (base_name b) = Some (xbase_of b).
Proof.
  destruct b as [k|u| | |k]; intros H; [apply builtin_int; exact H|destruct u; reflexivity|reflexivity|reflexivity|].
  destruct k; reflexivity.
Qed.

Lemma wf_stype_base st : wf_stype st = true -> (match st_base st with BInt k => wf_ikind k | _ => true end) = true.
Proof.
  intros H. destruct (st_base st) as [k| | | |] eqn:Eb; try reflexivity. exact (proj1 (wf_int st k Eb H)).
Qed.

Lemma wf_stype_qn st : wf_stype st = true ->
  (published st = true -> exists q, st_qn st = Some q /\ text_eqb (fst q) xs_ns = false).
Proof.
  intros H Hp. unfold wf_stype in H. split_all.
  rewrite Hp in *. cbn [negb orb] in *.
  destruct (st_qn st) as [q|]; [|discriminate]. exists q. split; [reflexivity|].
  cbn [is_none orb] in *. apply negb_true_iff. assumption.
Qed.

Section Resolve.
  Variable pat : text -> option re.
  Variable olex : okind -> text -> option Z.
  Variable U : univ.
  Variable S : schema.
  Hypothesis Hres : resolves S U.

  Lemma resolve_leaf st :
    In (DLeaf st) (tys_of U) -> wf_stype st = true ->
    resolve_simple S (leaf_qn st) = Some (xbase_of (st_base st), st_facets st).
  Proof.
    intros Hin Hwf. pose proof (builtin_base _ (wf_stype_base st Hwf)) as Hb.
    unfold leaf_qn, st_facets. destruct (published st) eqn:Ep.
    - destruct (wf_stype_qn st Hwf Ep) as (q & Hq & Hns).
      destruct (rs_leaf S U Hres st Hin Ep) as (q' & Hq' & Ht). rewrite Hq in Hq'. injection Hq' as <-.
      rewrite Hq. unfold resolve_simple. rewrite Hns, Ht. cbn [s_base s_facets fst snd].
      rewrite text_eqb_same, Hb. reflexivity.
    - unfold resolve_simple. cbn [fst snd]. rewrite text_eqb_same, Hb. reflexivity.
  Qed.

  Lemma simple_ok_leaf st s :
    In (DLeaf st) (tys_of U) -> wf_stype st = true ->
    simple_ok pat olex S (leaf_qn st) s = st_simple_ok pat olex st s.
  Proof.
    intros Hin Hwf. unfold simple_ok, st_simple_ok. rewrite (resolve_leaf st Hin Hwf). reflexivity.
  Qed.

  Lemma resolve_complex q c : text_eqb (fst q) xs_ns = false -> find_type S q = Some (TComplex c) -> resolve_simple S q = None.
  Proof. intros H1 H2. unfold resolve_simple. rewrite H1, H2. reflexivity. Qed.
End Resolve.

(* ------------------------------------------------------------------ shape of what to_parent writes *)
Lemma mapM_ok {A B} (f : A -> out B) l ys : mapM f l = Ok ys -> Forall2 (fun x y => f x = Ok y) l ys.
Proof.
  revert ys. induction l as [|x r IH]; intros ys H; cbn in H.
  - injection H as <-. constructor.
  - destruct (f x) as [y| |] eqn:E; try discriminate. cbn in H.
    destruct (mapM f r) as [ys'| |] eqn:E2; try discriminate. cbn in H. injection H as <-.
    constructor; [exact E|apply IH; reflexivity].
Qed.

Lemma Forall2_len2 {A B} (P : A -> B -> Prop) l1 l2 : Forall2 P l1 l2 -> length l1 = length l2.
Proof. induction 1; cbn; congruence. Qed.

Lemma emit_shape U n t dflt ns name v e :
  emit U n t dflt ns name v = Ok e -> exists atts txt kids, e = XElt ns name atts txt kids.
Proof.
  destruct n as [|k]; [discriminate|]. cbn [emit].
  destruct (match v, dflt with NNone, Some d => NLeaf d | _, _ => v end) as [|sv|d fs|xs].
  - intros H. injection H as <-. eauto.
  - destruct t; try discriminate. destruct (pr_leaf (st_base st) sv); try discriminate. cbn. intros H. injection H as <-. eauto.
  - destruct t; try discriminate. destruct (negb (d =? c)%nat); [discriminate|].
    destruct (flat U c); [|discriminate]. destruct (emit_members _ _ _); try discriminate. cbn. intros H. injection H as <-. eauto.
  - destruct t; try discriminate. destruct (mapM _ xs); try discriminate. cbn. intros H. injection H as <-. eauto.
Qed.

Lemma wire_shape ns name atts txt kids :
  wire (XElt ns name atts txt kids) = XElt ns name atts (match txt with Some [] => None | _ => txt end) (map wire kids).
Proof. reflexivity. Qed.

Lemma emit_elt_is U n t dflt ns name v e : emit U n t dflt ns name v = Ok e -> elt_is ns name (wire e) = true.
Proof.
  intros H. destruct (emit_shape _ _ _ _ _ _ _ _ H) as (a & tx & k & ->). rewrite wire_shape. cbn. rewrite !text_eqb_same. reflexivity.
Qed.
Lemma emit_is_elt U n t dflt ns name v e : emit U n t dflt ns name v = Ok e -> is_elt (wire e) = true.
Proof. intros H. destruct (emit_shape _ _ _ _ _ _ _ _ H) as (a & tx & k & ->). reflexivity. Qed.

(* ------------------------------------------------------------------ emitted documents are valid *)
Definition dtext (t : dty) (dflt : option sval) : option text :=
  match dflt, leaf_base_of t with Some v, Some b => Some (schema_text b v) | _, _ => None end.
Lemma default_text_dtext f : default_text f = dtext (fl_ty f) (fl_default f).
Proof. reflexivity. Qed.

Lemma fld_ok_ty n f : fld_ok n f = true -> dty_ok n (fl_ty f) = true.
Proof. unfold fld_ok. intros H. split_all. assumption. Qed.
Lemma fld_ok_max n f : fld_ok n f = true -> ext_leb (Fin 1) (fl_max f) = true.
Proof. unfold fld_ok. intros H. split_all. assumption. Qed.

Definition ty_known (U : univ) (t : dty) : Prop :=
  match t with
  | DRef c => (c < length U)%nat
  | _ => In t (tys_of U) /\ dty_ok (length U) t = true
  end.

Section Emitted.
  Variable pat : text -> option re.
  Variable olex : okind -> text -> option Z.
  Variable U : univ.
  Variable S : schema.
  Variable extra : sval -> bool.
  Hypothesis Hwf : wf_univ U = true.
  Hypothesis Hres : resolves S U.
  Hypothesis H_leaf : forall st v,
    In (DLeaf st) (tys_of U) -> wf_stype st = true -> leaf_conf st v = true -> extra v = true ->
    exists s, pr_leaf (st_base st) v = Ok s /\ st_simple_ok pat olex st s = true.
  Hypothesis H_literal : forall st v,
    In (DLeaf st) (tys_of U) -> wf_stype st = true -> leaf_conf st v = true -> extra v = true ->
    st_simple_ok pat olex st (schema_text (st_base st) v) = true.
  Hypothesis H_defaults : forall cl f d, In cl U -> In f (k_own cl) -> fl_default f = Some d -> extra d = true.

  Definition velem_m (m : nat) (d : edecl) (c : xnode) : bool :=
    valid_elem pat olex m S (e_type d) (eff_nillable d) (e_default d) c.

  (** what the induction hypothesis says at nesting depth k *)
  Definition emit_valid_at (k : nat) : Prop :=
    forall t dflt ns name x e nillable,
      ty_known U t ->
      match x with NNone => true | _ => vconf U extra k t x end = true ->
      (x = NNone -> dflt = None -> nillable = true /\ nil_ok U t = true) ->
      (forall d, dflt = Some d -> exists st, t = DLeaf st /\ leaf_conf st d = true /\ extra d = true) ->
      emit U k t dflt ns name x = Ok e ->
      forall m, (k + length U < m)%nat ->
        valid_elem pat olex m S (type_qn U t) nillable (dtext t dflt) (wire e) = true.

  Lemma velem_fld m f c :
    velem_m m (fld_edecl U f) c
    = valid_elem pat olex m S (type_qn U (fl_ty f)) (fl_nillable f) (dtext (fl_ty f) (fl_default f)) c.
  Proof.
    unfold velem_m, fld_edecl. rewrite e_type_edecl, eff_nillable_edecl, e_default_edecl, default_text_dtext. reflexivity.
  Qed.

  Lemma fld_default_ok n f d : fld_ok n f = true -> is_elem f = true -> fl_default f = Some d ->
    exists st, fl_ty f = DLeaf st /\ leaf_conf st d = true.
  Proof.
    intros Hf He Hd. unfold fld_ok in Hf. unfold is_elem in He. destruct (fl_kind f); [|discriminate]. split_all.
    rewrite Hd in *. destruct (fl_ty f) as [st| |]; try discriminate. eauto.
  Qed.

  Lemma occ6_elem_none f : is_elem f = true -> occ6 f NNone = if 0 <? fl_min f then 1 else 0.
  Proof. unfold is_elem, occ6. destruct (fl_kind f); [reflexivity|discriminate]. Qed.

  (** one element member: the run it writes has the declared name, the declared number of
      occurrences, and every element of it is valid *)
  Lemma emit_field_elem k cl dns f x ks ats :
    emit_valid_at k -> In cl U -> In f (k_own cl) -> fld_ok (length U) f = true -> is_elem f = true ->
    field_conf6 U (vconf U extra k) f x = true ->
    emit_field (emit U k) dns f x = Ok (ks, ats) ->
    ats = [] /\ forallb (elt_is dns (fl_name f)) (map wire ks) = true
    /\ len_nodes (map wire ks) = occ6 f x
    /\ forall m, (k + length U < m)%nat -> forallb (velem_m m (fld_edecl U f)) (map wire ks) = true.
  Proof.
    intros IH Hcl Hf Hok He Hconf Hemit.
    assert (Hk : fl_kind f = FElem) by (unfold is_elem in He; destruct (fl_kind f); [reflexivity|discriminate]).
    assert (Hty : ty_known U (fl_ty f)).
    { apply fld_ok_ty in Hok. unfold ty_known. destruct (fl_ty f) as [st|c|aq iname el] eqn:Et.
      - split; [|exact Hok]. unfold tys_of. apply in_flat_map. exists cl. split; [exact Hcl|].
        apply in_flat_map. exists f. split; [exact Hf|]. rewrite Et. left. reflexivity.
      - cbn in Hok. apply Nat.ltb_lt. exact Hok.
      - split; [|exact Hok]. unfold tys_of. apply in_flat_map. exists cl. split; [exact Hcl|].
        apply in_flat_map. exists f. split; [exact Hf|]. rewrite Et. left. reflexivity. }
    assert (Hd : forall d, fl_default f = Some d -> exists st, fl_ty f = DLeaf st /\ leaf_conf st d = true /\ extra d = true).
    { intros d Hdd. destruct (fld_default_ok _ f d Hok He Hdd) as (st & E1 & E2). exists st. repeat split; try assumption.
      eapply H_defaults; eassumption. }
    assert (one : forall y e, match y with NNone => true | _ => vconf U extra k (fl_ty f) y end = true ->
              (y = NNone -> fl_default f = None -> fl_nillable f = true /\ nil_ok U (fl_ty f) = true) ->
              emit U k (fl_ty f) (fl_default f) dns (fl_name f) y = Ok e ->
              elt_is dns (fl_name f) (wire e) = true
              /\ forall m, (k + length U < m)%nat -> velem_m m (fld_edecl U f) (wire e) = true).
    { intros y e Hy Hn Hem. split; [eapply emit_elt_is; exact Hem|]. intros m Hm. rewrite velem_fld.
      eapply IH; eassumption. }
    unfold field_conf6 in Hconf. rewrite Hk in Hconf. unfold emit_field in Hemit. rewrite Hk in Hemit.
    apply andb_prop in Hconf. destruct Hconf as [Hocc Hconf].
    destruct x as [|sv|d fs|xs].
    - (* None *)
      rewrite occ6_elem_none by exact He. destruct (0 <? fl_min f) eqn:Emin.
      + destruct (emit U k (fl_ty f) (fl_default f) dns (fl_name f) NNone) as [e| |] eqn:Ee; try discriminate.
        cbn in Hemit. injection Hemit as <- <-.
        assert (Hn : NNone = NNone -> fl_default f = None -> fl_nillable f = true /\ nil_ok U (fl_ty f) = true).
        { intros _ Hdn. rewrite Hdn in Hconf. cbn [is_some orb] in Hconf.
          assert (fl_min f <=? 0 = false) as E0 by lia. rewrite E0 in Hconf. cbn [orb] in Hconf.
          apply andb_prop in Hconf. exact Hconf. }
        destruct (one NNone e eq_refl Hn Ee) as [O1 O2].
        repeat split; [cbn; rewrite O1; reflexivity|]. intros m Hm. cbn. rewrite (O2 m Hm). reflexivity.
      + injection Hemit as <- <-. repeat split.
    - (* a leaf value *)
      apply andb_prop in Hconf. destruct Hconf as [Hm Hrec]. apply negb_true_iff in Hm. rewrite Hm in Hemit.
      destruct (emit U k (fl_ty f) (fl_default f) dns (fl_name f) (NLeaf sv)) as [e| |] eqn:Ee; try discriminate.
      cbn in Hemit. injection Hemit as <- <-.
      destruct (one (NLeaf sv) e Hrec ltac:(intros; discriminate) Ee) as [O1 O2].
      unfold occ6. rewrite Hk. repeat split; [cbn; rewrite O1; reflexivity|]. intros m Hmm. cbn. rewrite (O2 m Hmm). reflexivity.
    - (* an object *)
      apply andb_prop in Hconf. destruct Hconf as [Hm Hrec]. apply negb_true_iff in Hm. rewrite Hm in Hemit.
      destruct (emit U k (fl_ty f) (fl_default f) dns (fl_name f) (NObj d fs)) as [e| |] eqn:Ee; try discriminate.
      cbn in Hemit. injection Hemit as <- <-.
      destruct (one (NObj d fs) e Hrec ltac:(intros; discriminate) Ee) as [O1 O2].
      unfold occ6. rewrite Hk. repeat split; [cbn; rewrite O1; reflexivity|]. intros m Hmm. cbn. rewrite (O2 m Hmm). reflexivity.
    - (* a list *)
      destruct (multi f) eqn:Em.
      + destruct (mapM (emit U k (fl_ty f) (fl_default f) dns (fl_name f)) xs) as [es| |] eqn:Ees; try discriminate.
        cbn in Hemit. injection Hemit as <- <-. apply mapM_ok in Ees.
        unfold occ6. rewrite Hk, Em. split; [reflexivity|].
        rewrite forallb_forall in Hconf.
        assert (Hall : Forall (fun e => elt_is dns (fl_name f) (wire e) = true
                                        /\ forall m, (k + length U < m)%nat -> velem_m m (fld_edecl U f) (wire e) = true) es).
        { clear Hocc. induction Ees as [|y e r es' Hye _ IHr]; [constructor|].
          constructor; [|apply IHr; intros z Hz; apply Hconf; right; exact Hz].
          specialize (Hconf y (or_introl eq_refl)). apply andb_prop in Hconf. destruct Hconf as [C1 C2].
          apply (one y e); [destruct y; try exact C2; reflexivity| |exact Hye].
          intros -> Hdn. rewrite Hdn in C1. cbn [is_some orb] in C1. apply andb_prop in C1. exact C1. }
        split; [|split].
        * apply forallb_forall. intros c Hc. apply in_map_iff in Hc. destruct Hc as (e & <- & He').
          rewrite Forall_forall in Hall. apply (Hall e He').
        * unfold len_nodes. rewrite map_length. f_equal. symmetry. eapply Forall2_len2. exact Ees.
        * intros m Hm. apply forallb_forall. intros c Hc. apply in_map_iff in Hc. destruct Hc as (e & <- & He').
          rewrite Forall_forall in Hall. apply (Hall e He'). exact Hm.
      + destruct (emit U k (fl_ty f) (fl_default f) dns (fl_name f) (NList xs)) as [e| |] eqn:Ee; try discriminate.
        cbn in Hemit. injection Hemit as <- <-.
        destruct (one (NList xs) e Hconf ltac:(intros; discriminate) Ee) as [O1 O2].
        unfold occ6. rewrite Hk, Em. repeat split; [cbn; rewrite O1; reflexivity|]. intros m Hmm. cbn. rewrite (O2 m Hmm). reflexivity.
  Qed.

  Lemma hd_is_app_false ns nm (K tail : list xnode) :
    Forall (fun e => elt_is ns nm e = false) K -> hd_is ns nm tail = false -> hd_is ns nm (K ++ tail) = false.
  Proof. intros HK Ht. destruct K as [|e r]; [exact Ht|]. inversion HK; subst. cbn. assumption. Qed.

  Lemma elt_is_other ns nm ns' nm' e : elt_is ns' nm' e = true -> nm <> nm' -> elt_is ns nm e = false.
  Proof.
    destruct e as [a b ? ? ?|]; [|discriminate]. cbn. intros H Hne. apply andb_prop in H. destruct H as [_ H].
    apply text_eqb_true_eq in H. apply andb_false_iff. right.
    destruct (text_eqb b nm) eqn:E; [|reflexivity]. apply text_eqb_true_eq in E. congruence.
  Qed.

  (** the element members of a run of the field list, written in order: the children split
      back into one run per member, each valid *)
  Lemma fields_runs k cl : emit_valid_at k -> In cl U ->
    forall (F : list (text * fld)) vals kids atts tail,
      (forall p, In p F -> In (snd p) (k_own cl) /\ fld_ok (length U) (snd p) = true /\ is_elem (snd p) = true) ->
      NoDup (map (fun p => fl_name (snd p)) F) ->
      (forall p, In p F -> hd_is (fst p) (fl_name (snd p)) tail = false) ->
      length vals = length F ->
      (forall p x, In (p, x) (combine F vals) -> field_conf6 U (vconf U extra k) (snd p) x = true) ->
      emit_members (emit U k) F vals = Ok (kids, atts) ->
      atts = []
      /\ Forall (fun e => exists p, In p F /\ elt_is (fst p) (fl_name (snd p)) e = true) (map wire kids)
      /\ exists runs, split_runs F (map wire kids ++ tail) = (runs, tail)
                      /\ map len_nodes runs = map (fun px => occ6 (snd (fst px)) (snd px)) (combine F vals)
                      /\ forall m, (k + length U < m)%nat -> runs_valid U (velem_m m) F runs = true.
  Proof.
    intros IH Hcl. induction F as [|[ns f] r IHF]; intros vals kids atts tail HF Hnd Htail Hlen Hconf Hemit.
    - cbn in Hemit. injection Hemit as <- <-. repeat split; [constructor|]. exists []. repeat split.
    - destruct vals as [|x vs]; [discriminate|]. cbn [emit_members hd tl] in Hemit.
      destruct (emit_field (emit U k) ns f x) as [[ks1 as1]| |] eqn:E1; try discriminate. cbn [bind] in Hemit.
      destruct (emit_members (emit U k) r vs) as [[ks2 as2]| |] eqn:E2; try discriminate. cbn [bind fst snd] in Hemit.
      injection Hemit as <- <-.
      destruct (HF (ns, f) (or_introl eq_refl)) as (Hin & Hok & He). cbn [snd] in *.
      destruct (emit_field_elem k cl ns f x ks1 as1 IH Hcl Hin Hok He (Hconf (ns, f) x (or_introl eq_refl)) E1)
        as (-> & R1 & R2 & R3).
      inversion Hnd as [|? ? Hnotin Hnd']; subst.
      destruct (IHF vs ks2 as2 tail) as (-> & K2 & runs & S2 & L2 & V2); try assumption.
      { intros p Hp. apply HF. right. exact Hp. }
      { intros p Hp. apply Htail. right. exact Hp. }
      { cbn in Hlen. lia. }
      { intros p y Hp. apply Hconf. right. exact Hp. }
      split; [reflexivity|]. rewrite map_app. split.
      + apply Forall_app. split.
        * apply Forall_forall. intros e He'. exists (ns, f). split; [left; reflexivity|].
          rewrite forallb_forall in R1. apply R1. exact He'.
        * eapply Forall_impl; [|exact K2]. intros e (p & Hp & Hpe). exists p. split; [right; exact Hp|exact Hpe].
      + exists (map wire ks1 :: runs). cbn [split_runs]. rewrite <- app_assoc.
        rewrite (span_name_app ns (fl_name f) (map wire ks1) (map wire ks2 ++ tail) R1).
        * rewrite S2. repeat split.
          -- cbn [map combine fst snd]. rewrite R2, L2. reflexivity.
          -- intros m Hm. cbn [runs_valid]. rewrite (V2 m Hm), andb_true_r. unfold run_valid.
             rewrite (R3 m Hm), andb_true_r, occ_ok_fld, R2.
             specialize (Hconf (ns, f) x (or_introl eq_refl)). unfold field_conf6 in Hconf. cbn [snd] in Hconf.
             apply andb_prop in Hconf. exact (proj1 Hconf).
        * apply hd_is_app_false; [|apply (Htail (ns, f)); left; reflexivity].
          eapply Forall_impl; [|exact K2]. intros e (p & Hp & Hpe). cbn beta.
          eapply elt_is_other; [exact Hpe|]. intros Heq. apply Hnotin. apply in_map_iff. exists p. split; [symmetry; exact Heq|exact Hp].
  Qed.

  (* ---------------------------------------------------------------- attributes *)
  Lemma emit_field_atts e dns f x ks ats :
    emit_field e dns f x = Ok (ks, ats) ->
    match fl_kind f with
    | FElem => ats = []
    | FAttr => ks = [] /\ ((x = NNone /\ ats = [])
                          \/ exists v st s, x = NLeaf v /\ fl_ty f = DLeaf st /\ pr_leaf (st_base st) v = Ok s
                                           /\ ats = [([], fl_name f, s)])
    end.
  Proof.
    unfold emit_field. destruct (fl_kind f).
    - destruct x as [|sv|d fs|xs].
      + destruct (0 <? fl_min f); [|intros H; injection H as <- <-; reflexivity].
        destruct (e _ _ _ _ _); try discriminate. cbn. intros H. injection H as <- <-. reflexivity.
      + destruct (multi f); [discriminate|]. destruct (e _ _ _ _ _); try discriminate. cbn. intros H. injection H as <- <-. reflexivity.
      + destruct (multi f); [discriminate|]. destruct (e _ _ _ _ _); try discriminate. cbn. intros H. injection H as <- <-. reflexivity.
      + destruct (multi f).
        * destruct (mapM _ xs); try discriminate. cbn. intros H. injection H as <- <-. reflexivity.
        * destruct (e _ _ _ _ _); try discriminate. cbn. intros H. injection H as <- <-. reflexivity.
    - destruct x as [|sv|d fs|xs]; try discriminate.
      + intros H. injection H as <- <-. split; [reflexivity|]. left. split; reflexivity.
      + destruct (fl_ty f) as [st| |]; try discriminate. destruct (pr_leaf (st_base st) sv) as [s| |] eqn:Ep; try discriminate.
        cbn. intros H. injection H as <- <-. split; [reflexivity|]. right. exists sv, st, s. repeat split. exact Ep.
  Qed.

  Lemma lookup_att_app ns nm a b :
    lookup_att ns nm (a ++ b) = match lookup_att ns nm a with Some v => Some v | None => lookup_att ns nm b end.
  Proof.
    induction a as [|[[x y] z] r IH]; [reflexivity|]. cbn. destruct (text_eqb x ns && text_eqb y nm); [reflexivity|exact IH].
  Qed.

  Lemma lookup_att_some_in ns nm l v : lookup_att ns nm l = Some v -> exists a, In a l /\ snd (fst a) = nm.
  Proof.
    induction l as [|[[x y] z] r IHl]; [discriminate|]. cbn.
    destruct (text_eqb x ns && text_eqb y nm) eqn:E.
    - intros _. apply andb_prop in E. destruct E as [_ E]. apply text_eqb_true_eq in E. exists (x, y, z). split; [left; reflexivity|exact E].
    - intros H. destruct (IHl H) as (a & Ha & Hn). exists a. split; [right; exact Ha|exact Hn].
  Qed.

  (** the attributes written for the members: one per XmlAttribute member that holds a value *)
  Lemma members_atts e : forall (F : list (text * fld)) vals kids atts,
    NoDup (map (fun p => fl_name (snd p)) F) -> length vals = length F ->
    emit_members e F vals = Ok (kids, atts) ->
    (forall a, In a atts -> exists p, In p F /\ is_elem (snd p) = false /\ fst (fst a) = [] /\ snd (fst a) = fl_name (snd p))
    /\ (forall p x, In (p, x) (combine F vals) -> is_elem (snd p) = false ->
          lookup_att [] (fl_name (snd p)) atts
          = match x, fl_ty (snd p) with
            | NLeaf v, DLeaf st => Some (pr_text (st_base st) v)
            | _, _ => None
            end).
  Proof.
    induction F as [|[ns f] r IH]; intros vals kids atts Hnd Hlen Hemit.
    - cbn in Hemit. injection Hemit as <- <-. split; [intros a []|intros p x []].
    - destruct vals as [|x0 vs]; [discriminate|]. cbn [emit_members hd tl] in Hemit.
      destruct (emit_field e ns f x0) as [[ks1 as1]| |] eqn:E1; try discriminate. cbn [bind] in Hemit.
      destruct (emit_members e r vs) as [[ks2 as2]| |] eqn:E2; try discriminate. cbn [bind fst snd] in Hemit.
      injection Hemit as <- <-. inversion Hnd as [|? ? Hnotin Hnd']; subst.
      destruct (IH vs ks2 as2 Hnd' ltac:(cbn in Hlen; lia) E2) as [A1 A2].
      pose proof (emit_field_atts e ns f x0 ks1 as1 E1) as Hf.
      assert (Has1 : forall s, In s as1 -> fl_kind f = FAttr /\ fst (fst s) = [] /\ snd (fst s) = fl_name f).
      { intros s Hs. destruct (fl_kind f); [subst as1; destruct Hs|].
        destruct Hf as (_ & [[_ ->]|(v & st & t & _ & _ & _ & ->)]); [destruct Hs|].
        destruct Hs as [<-|[]]. repeat split. }
      split.
      + intros a Ha. apply in_app_iff in Ha. destruct Ha as [Ha|Ha].
        * exists (ns, f). split; [left; reflexivity|]. destruct (Has1 a Ha) as (Hk & H1 & H2).
          unfold is_elem. cbn [snd]. rewrite Hk. repeat split; assumption.
        * destruct (A1 a Ha) as (p & Hp & Hrest). exists p. split; [right; exact Hp|exact Hrest].
      + intros p x Hin Hattr. cbn [combine] in Hin. rewrite lookup_att_app. destruct Hin as [Hin|Hin].
        * injection Hin as <- <-. cbn [snd] in *.
          unfold is_elem in Hattr. destruct (fl_kind f); [discriminate|].
          destruct Hf as (_ & [[-> ->]|(v & st & t & -> & Et & Ep & ->)]).
          -- cbn [lookup_att]. destruct (lookup_att [] (fl_name f) as2) as [w|] eqn:El; [|reflexivity].
             exfalso.
             destruct (lookup_att_some_in _ _ _ _ El) as (a & Ha & Hn).
             destruct (A1 a Ha) as (p & Hp & _ & _ & Hnm). apply Hnotin. apply in_map_iff. exists p. split; [congruence|exact Hp].
          -- rewrite Et. cbn [lookup_att]. rewrite !text_eqb_same. cbn [andb]. unfold pr_text. rewrite Ep. reflexivity.
        * assert (Hl1 : lookup_att [] (fl_name (snd p)) as1 = None).
          { assert (Hp : In p r) by (eapply in_combine_l; exact Hin).
            destruct (lookup_att [] (fl_name (snd p)) as1) as [w|] eqn:El; [|reflexivity].
            exfalso. destruct (lookup_att_some_in _ _ _ _ El) as (a & Ha & Hn).
            destruct (Has1 a Ha) as (_ & _ & Hb). apply Hnotin. apply in_map_iff. exists p. split; [congruence|exact Hp]. }
          rewrite Hl1. apply A2; assumption.
  Qed.


  (* ---------------------------------------------------------------- all members of a class *)
  Lemma emit_members_app e : forall (A B : list (text * fld)) vals kids atts,
    emit_members e (A ++ B) vals = Ok (kids, atts) ->
    exists k1 a1 k2 a2,
      emit_members e A (firstn (length A) vals) = Ok (k1, a1)
      /\ emit_members e B (skipn (length A) vals) = Ok (k2, a2)
      /\ kids = k1 ++ k2 /\ atts = a1 ++ a2.
  Proof.
    induction A as [|[ns f] r IH]; intros B vals kids atts H.
    - cbn in *. exists [], [], kids, atts. repeat split. exact H.
    - cbn [app emit_members] in H.
      destruct (emit_field e ns f (hd NNone vals)) as [[ks1 as1]| |] eqn:E1; try discriminate. cbn [bind] in H.
      destruct (emit_members e (r ++ B) (tl vals)) as [[ks2 as2]| |] eqn:E2; try discriminate. cbn [bind fst snd] in H.
      injection H as <- <-. destruct (IH B (tl vals) ks2 as2 E2) as (k1 & a1 & k2 & a2 & H1 & H2 & -> & ->).
      exists (ks1 ++ k1), (as1 ++ a1), k2, a2.
      assert (Hhd : hd NNone (firstn (length ((ns, f) :: r)) vals) = hd NNone vals) by (destruct vals; reflexivity).
      assert (Htl : tl (firstn (length ((ns, f) :: r)) vals) = firstn (length r) (tl vals)).
      { destruct vals; cbn; [rewrite firstn_nil; reflexivity|reflexivity]. }
      assert (Hsk : skipn (length ((ns, f) :: r)) vals = skipn (length r) (tl vals)).
      { destruct vals; cbn; [rewrite skipn_nil; reflexivity|reflexivity]. }
      cbn [emit_members]. rewrite Hhd, Htl, Hsk, E1, H1. cbn [bind fst snd]. rewrite !app_assoc. repeat split. exact H2.
  Qed.

  Lemma NoDup_app_r {A} (a b : list A) : NoDup (a ++ b) -> NoDup b.
  Proof. induction a as [|x a IH]; [auto|]. cbn. intros H. inversion H; subst. auto. Qed.

  Lemma nodup_text_NoDup l : nodup_text l = true -> NoDup l.
  Proof.
    induction l as [|x r IH]; cbn; [constructor|]. intros H. apply andb_prop in H. destruct H as [H1 H2].
    constructor; [|apply IH; exact H2]. intros Hin. apply negb_true_iff in H1.
    assert (text_mem x r = true).
    { clear -Hin. induction r as [|y r IH]; [destruct Hin|]. cbn. destruct Hin as [->|Hin]; [rewrite text_eqb_same; reflexivity|].
      rewrite (IH Hin). apply orb_true_r. }
    congruence.
  Qed.

  Lemma count_nonempty_lens (runs : list (list xnode)) :
    count_nonempty runs = length (filter (fun n => 0 <? n) (map len_nodes runs)).
  Proof.
    unfold count_nonempty. induction runs as [|r rs IH]; [reflexivity|]. cbn [filter map].
    destruct r as [|x r]; cbn [nonempty].
    - change (len_nodes []) with 0. cbn. exact IH.
    - assert (0 <? len_nodes (x :: r) = true) as -> by (unfold len_nodes; cbn [length]; lia). cbn. f_equal. exact IH.
  Qed.

  Definition item_known (i : item) : Prop := exists cl, In cl U /\ In i (k_items cl).

  Lemma item_known_flds i f : item_known i -> In f (item_flds i) ->
    exists cl, In cl U /\ In f (k_own cl).
  Proof.
    intros (cl & Hcl & Hi) Hf. exists cl. split; [exact Hcl|]. unfold k_own. apply in_flat_map. exists i. split; assumption.
  Qed.

  Lemma item_known_wf i : item_known i ->
    match i with
    | IOne f => fld_ok (length U) f = true
    | IGroup _ ms => ms <> [] /\ forall f, In f ms -> fl_min f = 0 /\ fld_ok (length U) f = true /\ is_elem f = true
                                                  /\ fl_default f = None
    end.
  Proof.
    intros (cl & Hcl & Hi). apply In_nth_error in Hcl. destruct Hcl as [c Hc].
    destruct (klass_items_wf U c cl Hwf Hc) as (_ & Hg & Ho). destruct i as [f|g ms].
    - apply Ho. exact Hi.
    - destruct (Hg g ms Hi) as (Hne & Hel & Hm). split; [exact Hne|]. intros f Hf. destruct (Hm f Hf) as (M1 & M2 & M3).
      rewrite forallb_forall in Hel. repeat split; auto.
  Qed.

  Lemma members_match k : emit_valid_at k -> forall (L : list (text * item)) vals kids atts,
    (forall p, In p L -> item_known (snd p)) ->
    NoDup (map (fun p => fl_name (snd p)) (L_flds L)) ->
    items_conf U (vconf U extra k) (map snd L) vals = true ->
    emit_members (emit U k) (L_flds L) vals = Ok (kids, atts) ->
    Forall (fun e => exists p, In p (L_flds L) /\ elt_is (fst p) (fl_name (snd p)) e = true) (map wire kids)
    /\ groups_single L (map wire kids) = true
    /\ forall m, (k + length U < m)%nat -> items_match U (velem_m m) L (map wire kids) = true.
  Proof.
    intros IHk. induction L as [|[ns [f|g ms]] r IH]; intros vals kids atts Hkn Hnd Hconf Hemit.
    - cbn in Hemit. injection Hemit as <- <-. repeat split. constructor.
    - (* a single member *)
      cbn [map snd items_conf] in Hconf. destruct vals as [|x vs]; [discriminate|].
      apply andb_prop in Hconf. destruct Hconf as [Cf Cr].
      cbn [L_flds flat_map fst snd item_flds tagged map app] in Hemit, Hnd. fold (L_flds r) in Hemit, Hnd.
      cbn [emit_members hd tl] in Hemit.
      destruct (emit_field (emit U k) ns f x) as [[ks1 as1]| |] eqn:E1; try discriminate. cbn [bind] in Hemit.
      destruct (emit_members (emit U k) (L_flds r) vs) as [[ks2 as2]| |] eqn:E2; try discriminate. cbn [bind fst snd] in Hemit.
      injection Hemit as <- <-. inversion Hnd as [|? ? Hnotin Hnd']; subst.
      assert (Hkn' : forall p, In p r -> item_known (snd p)) by (intros p Hp; apply Hkn; right; exact Hp).
      destruct (IH vs ks2 as2 Hkn' Hnd' Cr E2) as (K2 & G2 & M2).
      pose proof (Hkn (ns, IOne f) (or_introl eq_refl)) as Hknown. cbn [snd] in Hknown.
      pose proof (item_known_wf _ Hknown) as Hok. cbn beta iota in Hok.
      destruct (item_known_flds (IOne f) f Hknown (or_introl eq_refl)) as (cl & Hcl & Hfin).
      assert (Kr : Forall (fun e => exists p, In p (L_flds ((ns, IOne f) :: r)) /\ elt_is (fst p) (fl_name (snd p)) e = true) (map wire ks2)).
      { eapply Forall_impl; [|exact K2]. intros e (p & Hp & Hpe). exists p. split; [|exact Hpe].
        cbn [L_flds flat_map fst snd item_flds tagged map app]. right. exact Hp. }
      destruct (is_elem f) eqn:He.
      + destruct (emit_field_elem k cl ns f x ks1 as1 IHk Hcl Hfin Hok He Cf E1) as (_ & R1 & R2 & R3).
        assert (Hhd : hd_is ns (fl_name f) (map wire ks2) = false).
        { rewrite <- (app_nil_r (map wire ks2)). apply hd_is_app_false; [|reflexivity].
          eapply Forall_impl; [|exact K2]. intros e (p & Hp & Hpe). cbn beta.
          eapply elt_is_other; [exact Hpe|]. intros Heq. apply Hnotin. apply in_map_iff. exists p. split; [symmetry; exact Heq|exact Hp]. }
        rewrite map_app. split; [|split].
        * apply Forall_app. split; [|exact Kr]. apply Forall_forall. intros e He'. exists (ns, f). split; [left; reflexivity|].
          rewrite forallb_forall in R1. apply R1. exact He'.
        * cbn [groups_single]. rewrite He, (span_name_app ns (fl_name f) _ _ R1 Hhd). cbn [snd]. exact G2.
        * intros m Hm. cbn [items_match]. rewrite He, (span_name_app ns (fl_name f) _ _ R1 Hhd).
          rewrite (M2 m Hm), andb_true_r. unfold run_valid. rewrite (R3 m Hm), andb_true_r, occ_ok_fld, R2.
          unfold field_conf6 in Cf. apply andb_prop in Cf. exact (proj1 Cf).
      + pose proof (emit_field_atts _ ns f x ks1 as1 E1) as Ha. pose proof He as He2. unfold is_elem in He2.
        destruct (fl_kind f); [discriminate|].
        destruct Ha as [-> _]. cbn [app]. split; [exact Kr|]. split.
        * cbn [groups_single]. rewrite He. exact G2.
        * intros m Hm. cbn [items_match]. rewrite He. apply M2. exact Hm.
    - (* a choice group *)
      cbn [map snd items_conf] in Hconf. set (n := length ms) in *. split_all.
      cbn [L_flds flat_map fst snd item_flds] in Hemit, Hnd. fold (L_flds r) in Hemit, Hnd.
      destruct (emit_members_app _ _ _ _ _ _ Hemit) as (k1 & a1 & k2 & a2 & E1 & E2 & -> & ->).
      assert (Hlt : length (tagged ns ms) = n) by (unfold tagged; rewrite map_length; reflexivity).
      rewrite Hlt in E1, E2.
      rewrite map_app in Hnd. pose proof (NoDup_app_r _ _ Hnd) as Hnd2.
      assert (Hkn' : forall p, In p r -> item_known (snd p)) by (intros p Hp; apply Hkn; right; exact Hp).
      assert (Cr : items_conf U (vconf U extra k) (map snd r) (skipn n vals) = true) by assumption.
      destruct (IH (skipn n vals) k2 a2 Hkn' Hnd2 Cr E2) as (K2 & G2 & M2).
      pose proof (Hkn (ns, IGroup g ms) (or_introl eq_refl)) as Hknown. cbn [snd] in Hknown.
      destruct (item_known_wf _ Hknown) as (Hne & Hms).
      destruct Hknown as (cl & Hcl & Hitem).
      assert (Hdisj : forall f, In f ms -> forall p, In p (L_flds r) -> fl_name f <> fl_name (snd p)).
      { intros f Hf p Hp Heq. clear -Hnd Hf Hp Heq.
        induction ms as [|f0 ms' IHm]; [destruct Hf|]. cbn [tagged map app] in Hnd. inversion Hnd as [|? ? Hn1 Hn2]; subst.
        destruct Hf as [->|Hf]; [|apply IHm; assumption].
        apply Hn1. apply in_app_iff. right. apply in_map_iff. exists p. split; [symmetry; exact Heq|exact Hp]. }
      assert (Hnd1 : NoDup (map (fun p => fl_name (snd p)) (tagged ns ms))).
      { clear -Hnd. induction ms as [|f0 ms' IHm]; [constructor|]. cbn [tagged map app] in *. inversion Hnd as [|? ? Hn1 Hn2]; subst.
        constructor; [|apply IHm; exact Hn2]. intros Hin. apply Hn1. apply in_app_iff. left. exact Hin. }
      assert (P1 : forall p, In p (tagged ns ms) -> In (snd p) (k_own cl) /\ fld_ok (length U) (snd p) = true /\ is_elem (snd p) = true).
      { intros p Hp. unfold tagged in Hp. apply in_map_iff in Hp. destruct Hp as (f & <- & Hf). cbn [snd].
        destruct (Hms f Hf) as (_ & Q2 & Q3 & _). repeat split; try assumption.
        unfold k_own. apply in_flat_map. exists (IGroup g ms). split; [exact Hitem|exact Hf]. }
      assert (P2 : forall p, In p (tagged ns ms) -> hd_is (fst p) (fl_name (snd p)) (map wire k2) = false).
      { intros p Hp. unfold tagged in Hp. apply in_map_iff in Hp. destruct Hp as (f & <- & Hf). cbn [fst snd].
        rewrite <- (app_nil_r (map wire k2)). apply hd_is_app_false; [|reflexivity].
        eapply Forall_impl; [|exact K2]. intros e (q & Hq & Hqe). cbn beta.
        eapply elt_is_other; [exact Hqe|]. apply Hdisj; assumption. }
      assert (P3 : length (firstn n vals) = length (tagged ns ms)).
      { rewrite Hlt. match goal with H : (length (firstn n vals) =? n)%nat = true |- _ => apply Nat.eqb_eq in H; exact H end. }
      assert (P4 : forall p x, In (p, x) (combine (tagged ns ms) (firstn n vals)) -> field_conf6 U (vconf U extra k) (snd p) x = true).
      { intros p x Hpx. unfold tagged in Hpx.
        match goal with H : forallb _ (combine ms (firstn n vals)) = true |- _ => rewrite forallb_forall in H; rename H into Hall end.
        destruct p as [ns' f]. cbn [snd].
        assert (Hfx : In (f, x) (combine ms (firstn n vals))).
        { clear -Hpx. revert Hpx. generalize (firstn n vals). induction ms as [|f0 ms' IHm]; intros l Hpx; [destruct Hpx|].
          destruct l as [|y l]; [destruct Hpx|]. cbn [map combine] in *. destruct Hpx as [H|H]; [injection H as _ <- <-; left; reflexivity|right; apply IHm; exact H]. }
        exact (Hall (f, x) Hfx). }
      destruct (fields_runs k cl IHk Hcl (tagged ns ms) (firstn n vals) k1 a1 (map wire k2) P1 Hnd1 P2 P3 P4 E1) as (_ & K1 & runs & S1 & L1 & V1).
      rewrite map_app. split; [|split].
      + apply Forall_app. split.
        * eapply Forall_impl; [|exact K1]. intros e (p & Hp & Hpe). exists p. split; [apply in_app_iff; left; exact Hp|exact Hpe].
        * eapply Forall_impl; [|exact K2]. intros e (p & Hp & Hpe). exists p. split; [apply in_app_iff; right; exact Hp|exact Hpe].
      + cbn [groups_single]. rewrite S1. cbn [fst snd]. rewrite G2, andb_true_r. apply Nat.leb_le.
        rewrite count_nonempty_lens, L1.
        match goal with H : (Z.of_nat (length (filter _ (combine ms (firstn n vals)))) <=? 1) = true |- _ => rename H into Hcnt end.
        assert (Hfl : forall (l : list value),
                  length (filter (fun n0 => 0 <? n0) (map (fun px => occ6 (snd (fst px)) (snd px)) (combine (tagged ns ms) l)))
                  = length (filter (fun fx => 0 <? occ6 (fst fx) (snd fx)) (combine ms l))).
        { clear. induction ms as [|f0 ms' IHm]; intros l; [reflexivity|]. destruct l as [|y l]; [reflexivity|].
          cbn [tagged map combine filter fst snd]. fold (tagged ns ms'). destruct (0 <? occ6 f0 y); cbn [length]; rewrite IHm; reflexivity. }
        rewrite Hfl. lia.
      + intros m Hm. cbn [items_match]. rewrite S1. rewrite (V1 m Hm), (M2 m Hm). reflexivity.
  Qed.


  (* ---------------------------------------------------------------- the attribute uses *)
  Lemma in_combine_ex2 {A B} (l1 : list A) : forall (l2 : list B) a,
    length l2 = length l1 -> In a l1 -> exists b, In (a, b) (combine l1 l2).
  Proof.
    induction l1 as [|x r IH]; intros l2 a Hl Ha; [destruct Ha|]. destruct l2 as [|y l2]; [discriminate|].
    destruct Ha as [->|Ha]; [exists y; left; reflexivity|]. destruct (IH l2 a ltac:(cbn in Hl; lia) Ha) as [b Hb].
    exists b. right. exact Hb.
  Qed.

  Lemma fld_attr_facts f : fld_ok (length U) f = true -> is_elem f = false ->
    (exists st, fl_ty f = DLeaf st /\ wf_stype st = true)
    /\ (fl_min f <= 0 -> eff_required (adecl_of f) = false) /\ 0 <= fl_min f.
  Proof.
    intros Hok He. unfold fld_ok in Hok. unfold is_elem in He. destruct (fl_kind f) eqn:Ek; [discriminate|]. split_all.
    destruct (fl_ty f) as [st| |] eqn:Et; try discriminate. split; [exists st; split; [reflexivity|assumption]|]. split; [|lia].
    intros Hmin. unfold eff_required, adecl_of, attr_use. cbn [a_required].
    destruct (fl_use f) as [b|].
    - match goal with H : Bool.eqb b (0 <? fl_min f) = true |- _ => apply eqb_prop in H; rewrite H end.
      destruct (0 <? fl_min f) eqn:E; [lia|reflexivity].
    - destruct (fl_min f >? 0) eqn:E; [lia|reflexivity].
  Qed.

  Lemma attrs_emitted_ok k : forall (F : list (text * fld)) vals kids atts,
    (forall p, In p F -> exists cl, In cl U /\ In (snd p) (k_own cl) /\ fld_ok (length U) (snd p) = true) ->
    NoDup (map (fun p => fl_name (snd p)) F) -> length vals = length F ->
    (forall p x, In (p, x) (combine F vals) -> field_conf6 U (vconf U extra k) (snd p) x = true) ->
    emit_members (emit U k) F vals = Ok (kids, atts) ->
    attrs_ok pat olex S (attrs_of (map snd F)) atts = true
    /\ forallb (fun a => negb (is_xsi a)) atts = true.
  Proof.
    intros F vals kids atts Hkn Hnd Hlen Hconf Hemit.
    destruct (members_atts _ F vals kids atts Hnd Hlen Hemit) as [A1 A2].
    assert (Hplain : forall a, In a atts -> is_xsi a = false).
    { intros [[ns n] v] Ha. destruct (A1 _ Ha) as (p & _ & _ & Hns & _). cbn in Hns. subst ns. reflexivity. }
    split; [|apply forallb_forall; intros a Ha; rewrite (Hplain a Ha); reflexivity].
    unfold attrs_ok. apply andb_true_iff. split.
    - apply forallb_forall. intros [[ns n] v] Ha. destruct (A1 _ Ha) as (p & Hp & Hel & Hns & Hnm). cbn in Hns, Hnm. subst ns n.
      apply orb_true_iff. right. cbn [andb]. apply existsb_exists. exists (adecl_of (snd p)). split.
      + unfold attrs_of. apply in_map. apply filter_In. split; [apply in_map; exact Hp|rewrite Hel; reflexivity].
      + cbn [a_name adecl_of]. apply text_eqb_same.
    - apply forallb_forall. intros d Hd. unfold attrs_of in Hd. apply in_map_iff in Hd. destruct Hd as (f & <- & Hf).
      apply filter_In in Hf. destruct Hf as [Hf Hel]. apply negb_true_iff in Hel.
      apply in_map_iff in Hf. destruct Hf as (p & <- & Hp).
      destruct (in_combine_ex2 F vals p Hlen Hp) as [x Hpx].
      cbn [a_name adecl_of]. rewrite (A2 p x Hpx Hel).
      destruct (Hkn p Hp) as (cl & Hcl & Hin & Hok).
      destruct (fld_attr_facts (snd p) Hok Hel) as ((st & Et & Hwst) & Hreq & Hmin0).
      specialize (Hconf p x Hpx). unfold field_conf6 in Hconf. unfold is_elem in Hel.
      destruct (fl_kind (snd p)) eqn:Ek; [discriminate|]. apply andb_prop in Hconf. destruct Hconf as [Hocc Hrec].
      rewrite Et. destruct x as [|v|? ?|?]; try discriminate Hrec.
      + apply negb_true_iff. apply Hreq. unfold occ6 in Hocc. rewrite Ek in Hocc. lia.
      + rewrite Et in Hrec. destruct k as [|k']; [discriminate|]. cbn [vconf] in Hrec.
        apply andb_prop in Hrec. destruct Hrec as [Hlc Hex].
        assert (Hin_ty : In (DLeaf st) (tys_of U)).
        { unfold tys_of. apply in_flat_map. exists cl. split; [exact Hcl|]. apply in_flat_map. exists (snd p). split; [exact Hin|].
          rewrite Et. left. reflexivity. }
        unfold adecl_of. cbn [a_type]. rewrite Et. rewrite (simple_ok_leaf pat olex U S Hres st _ Hin_ty Hwst).
        destruct (H_leaf st v Hin_ty Hwst Hlc Hex) as (s & Hs & Hok'). unfold pr_text. rewrite Hs. exact Hok'.
  Qed.


  (* ---------------------------------------------------------------- bookkeeping *)
  Lemma sub_tys_self t : In t (sub_tys t).
  Proof. destruct t; left; reflexivity. Qed.
  Lemma sub_tys_trans t u w : In u (sub_tys t) -> In w (sub_tys u) -> In w (sub_tys t).
  Proof.
    revert u w. induction t as [st|c|aq iname e IH]; intros u w Hu Hw.
    - destruct Hu as [<-|[]]. exact Hw.
    - destruct Hu as [<-|[]]. exact Hw.
    - cbn [sub_tys] in Hu. destruct Hu as [<-|Hu]; [exact Hw|]. right. eapply IH; eassumption.
  Qed.
  Lemma tys_of_arr aq iname el : In (DArr aq iname el) (tys_of U) -> In el (tys_of U).
  Proof.
    unfold tys_of. intros H. apply in_flat_map in H. destruct H as (cl & Hcl & H). apply in_flat_map in H. destruct H as (f & Hf & H).
    apply in_flat_map. exists cl. split; [exact Hcl|]. apply in_flat_map. exists f. split; [exact Hf|].
    eapply sub_tys_trans; [exact H|]. cbn [sub_tys]. right. apply sub_tys_self.
  Qed.

  Lemma chain_known : forall fuel c L, chain_fuel fuel U c = Some L -> forall p, In p L -> item_known (snd p).
  Proof.
    induction fuel as [|k IH]; intros c L H p Hp; [discriminate|]. cbn [chain_fuel] in H.
    destruct (get_klass U c) as [cl|] eqn:Ec; [|discriminate].
    assert (Hown : forall q, In q (map (pair (k_ns cl)) (k_items cl)) -> item_known (snd q)).
    { intros q Hq. apply in_map_iff in Hq. destruct Hq as (i & <- & Hi). exists cl. split; [|exact Hi].
      unfold get_klass in Ec. eapply nth_error_In. exact Ec. }
    destruct (k_parent cl) as [pc|].
    - destruct (chain_fuel k U pc) as [pl|] eqn:Epl; [|discriminate]. injection H as <-.
      apply in_app_iff in Hp. destruct Hp as [Hp|Hp]; [eapply IH; eassumption|apply Hown; exact Hp].
    - injection H as <-. apply Hown. exact Hp.
  Qed.

  Lemma items_conf_fields rec : forall (L : list (text * item)) vals,
    items_conf U rec (map snd L) vals = true ->
    length vals = length (L_flds L)
    /\ forall p x, In (p, x) (combine (L_flds L) vals) -> field_conf6 U rec (snd p) x = true.
  Proof.
    induction L as [|[ns [f|g ms]] r IH]; intros vals H.
    - cbn in H. destruct vals; [|discriminate]. split; [reflexivity|intros p x []].
    - cbn [map snd items_conf] in H. destruct vals as [|x vs]; [discriminate|]. apply andb_prop in H. destruct H as [H1 H2].
      destruct (IH vs H2) as [I1 I2]. cbn [L_flds flat_map fst snd item_flds tagged map app]. fold (L_flds r). split; [cbn; lia|].
      intros p y Hpy. cbn [combine] in Hpy. destruct Hpy as [Hpy|Hpy]; [injection Hpy as <- <-; exact H1|apply I2; exact Hpy].
    - cbn [map snd items_conf] in H. set (n := length ms) in *. split_all.
      match goal with H : (length (firstn n vals) =? n)%nat = true |- _ => apply Nat.eqb_eq in H; rename H into Hn end.
      match goal with H : items_conf U rec (map snd r) (skipn n vals) = true |- _ => destruct (IH _ H) as [I1 I2] end.
      match goal with H : forallb _ (combine ms (firstn n vals)) = true |- _ => rewrite forallb_forall in H; rename H into Hall end.
      cbn [L_flds flat_map fst snd item_flds]. fold (L_flds r).
      assert (Hv : vals = firstn n vals ++ skipn n vals) by (symmetry; apply firstn_skipn).
      split.
      + rewrite app_length. unfold tagged. rewrite map_length. fold n. rewrite <- I1. rewrite Hv at 1. rewrite app_length, Hn. reflexivity.
      + intros p x Hpx. rewrite Hv in Hpx.
        assert (Hc : combine (tagged ns ms ++ L_flds r) (firstn n vals ++ skipn n vals)
                     = combine (tagged ns ms) (firstn n vals) ++ combine (L_flds r) (skipn n vals)).
        { assert (Hl : length (tagged ns ms) = length (firstn n vals)) by (unfold tagged; rewrite map_length; fold n; lia).
          clear -Hl. revert Hl. generalize (firstn n vals). generalize (tagged ns ms). intros a. induction a as [|q a IHa]; intros b Hl.
          - destruct b; [reflexivity|discriminate].
          - destruct b as [|y b]; [discriminate|]. cbn [app combine]. f_equal. apply IHa. cbn in Hl. lia. }
        rewrite Hc in Hpx. apply in_app_iff in Hpx. destruct Hpx as [Hpx|Hpx]; [|apply I2; exact Hpx].
        destruct p as [ns' f]. cbn [snd].
        assert (Hfx : In (f, x) (combine ms (firstn n vals))).
        { clear -Hpx. unfold tagged in Hpx. revert Hpx. generalize (firstn n vals). induction ms as [|f0 ms' IHm]; intros l Hpx; [destruct Hpx|].
          destruct l as [|y l]; [destruct Hpx|]. cbn [map combine] in *. destruct Hpx as [H|H]; [injection H as _ <- <-; left; reflexivity|right; apply IHm; exact H]. }
        exact (Hall (f, x) Hfx).
  Qed.

  Lemma L_flds_known L : (forall p, In p L -> item_known (snd p)) ->
    forall q, In q (L_flds L) -> exists cl, In cl U /\ In (snd q) (k_own cl) /\ fld_ok (length U) (snd q) = true.
  Proof.
    intros Hkn q Hq. unfold L_flds in Hq. apply in_flat_map in Hq. destruct Hq as (p & Hp & Hq).
    unfold tagged in Hq. apply in_map_iff in Hq. destruct Hq as (f & <- & Hf). cbn [snd].
    pose proof (Hkn p Hp) as Hk. destruct (item_known_flds _ f Hk Hf) as (cl & Hcl & Hin).
    exists cl. repeat split; try assumption.
    pose proof (item_known_wf _ Hk) as Hw. destruct (snd p) as [f0|g ms].
    - destruct Hf as [<-|[]]. exact Hw.
    - destruct Hw as [_ Hw]. apply Hw. exact Hf.
  Qed.


  (* ---------------------------------------------------------------- the three kinds of element *)
  Lemma valid_elem_nil m' q dflt ns name :
    valid_elem pat olex (Datatypes.S m') S q true dflt (XElt ns name [nil_attr] None [])
    = match resolve_simple S q with
      | Some _ => true
      | None => match eff_content m' S q with
                | Some (ps, ats) => attrs_ok pat olex S ats [nil_attr]
                | None => false
                end
      end.
  Proof.
    cbn -[resolve_simple eff_content attrs_ok match_seq]. destruct (resolve_simple S q); [reflexivity|].
    destruct (eff_content m' S q) as [[ps ats]|]; [|reflexivity]. rewrite andb_true_r. reflexivity.
  Qed.


  Lemma lookup_nil_plain atts : forallb (fun a => negb (is_xsi a)) atts = true -> lookup_att xsi_ns t_nil atts = None.
  Proof.
    induction atts as [|[[a b] c] r IH]; [reflexivity|]. cbn [forallb]. intros H. apply andb_prop in H. destruct H as [H1 H2].
    cbn [lookup_att]. unfold is_xsi in H1. apply negb_true_iff in H1. rewrite H1. cbn [andb]. apply IH. exact H2.
  Qed.

  Lemma valid_elem_leaf m' st nillable dtxt ns name txt :
    In (DLeaf st) (tys_of U) -> wf_stype st = true ->
    valid_elem pat olex (Datatypes.S m') S (leaf_qn st) nillable dtxt (XElt ns name [] txt [])
    = st_elem_ok pat olex st dtxt txt.
  Proof.
    intros Hin Hw. cbn -[resolve_simple eff_content attrs_ok match_seq simple_ok].
    rewrite (resolve_leaf U S Hres st Hin Hw). unfold st_elem_ok.
    destruct txt as [[|c r]|], dtxt as [d|]; rewrite ?(simple_ok_leaf pat olex U S Hres st _ Hin Hw); reflexivity.
  Qed.

  Lemma valid_elem_complex m' q nillable dflt ns name atts kids ps ats :
    forallb (fun a => negb (is_xsi a)) atts = true -> resolve_simple S q = None -> eff_content m' S q = Some (ps, ats) ->
    valid_elem pat olex (Datatypes.S m') S q nillable dflt (XElt ns name atts None kids)
    = attrs_ok pat olex S ats atts && match_seq (velem_m m') ps (filter is_elt kids).
  Proof.
    intros Hp Hr He. cbn -[resolve_simple eff_content attrs_ok match_seq].
    assert (H1 : forallb (fun a => negb (is_xsi a) || is_xsi_nil a) atts = true).
    { apply forallb_forall. intros a Ha. rewrite forallb_forall in Hp. rewrite (Hp a Ha). reflexivity. }
    rewrite H1, (lookup_nil_plain atts Hp), Hr, He. cbn [negb is_some andb]. reflexivity.
  Qed.


  Lemma leaf_elem_valid st sv dflt nillable ns name s m' :
    In (DLeaf st) (tys_of U) -> wf_stype st = true -> leaf_conf st sv = true -> extra sv = true ->
    (forall d, dflt = Some d -> leaf_conf st d = true /\ extra d = true) ->
    pr_leaf (st_base st) sv = Ok s ->
    valid_elem pat olex (Datatypes.S m') S (leaf_qn st) nillable (dtext (DLeaf st) dflt) (wire (XElt ns name [] (Some s) [])) = true.
  Proof.
    intros Hin Hw Hlc Hex Hd Hp. rewrite wire_shape. cbn [map].
    rewrite (valid_elem_leaf m' st nillable _ ns name _ Hin Hw).
    destruct (H_leaf st sv Hin Hw Hlc Hex) as (s' & Hs' & Hok). rewrite Hp in Hs'. injection Hs' as <-.
    unfold st_elem_ok, dtext. cbn [leaf_base_of].
    destruct s as [|c r].
    - destruct dflt as [d|]; [|exact Hok].
      destruct (Hd d eq_refl) as [Hlc' Hex']. exact (H_literal st d Hin Hw Hlc' Hex').
    - destruct dflt; exact Hok.
  Qed.

  Lemma no_required_attrs c L : has_required_attr U c = false -> flat U c = Some (L_flds L) ->
    (forall q, In q (L_flds L) -> fld_ok (length U) (snd q) = true) ->
    forall ats, ats = attrs_of (map snd (L_flds L)) -> attrs_ok pat olex S ats [nil_attr] = true.
  Proof.
    intros Hreq Hflat Hok ats ->. unfold has_required_attr in Hreq. rewrite Hflat in Hreq.
    unfold attrs_ok. cbn [forallb]. rewrite andb_true_r.
    assert (is_xsi nil_attr = true) as -> by reflexivity. cbn [orb andb].
    apply forallb_forall. intros d Hd. unfold attrs_of in Hd. apply in_map_iff in Hd. destruct Hd as (f & <- & Hf).
    apply filter_In in Hf. destruct Hf as [Hf Hel]. apply negb_true_iff in Hel. apply in_map_iff in Hf. destruct Hf as (q & <- & Hq).
    assert (lookup_att [] (a_name (adecl_of (snd q))) [nil_attr] = None) as -> by reflexivity.
    apply negb_true_iff. destruct (fld_attr_facts (snd q) (Hok q Hq) Hel) as (_ & Hr & Hm). apply Hr.
    destruct (0 <? fl_min (snd q)) eqn:E; [|lia]. exfalso.
    assert (existsb (fun p : text * fld => negb (is_elem (snd p)) && (0 <? fl_min (snd p))) (L_flds L) = true).
    { apply existsb_exists. exists q. split; [exact Hq|]. rewrite Hel, E. reflexivity. }
    congruence.
  Qed.

  Theorem emit_valid : forall k, emit_valid_at k.
  Proof.
    induction k as [|k IHk]; intros t dflt ns name x e nillable Hty Hconf Hnil Hd Hemit m Hm; [discriminate Hemit|].
    destruct m as [|m']; [lia|]. assert (Hm' : (k + length U < m')%nat) by lia.
    cbn [emit] in Hemit.
    remember (match x, dflt with NNone, Some d => NLeaf d | _, _ => x end) as x' eqn:Ex'.
    assert (Hx' : (x' = NNone /\ x = NNone /\ dflt = None)
                  \/ (exists d, x = NNone /\ dflt = Some d /\ x' = NLeaf d)
                  \/ (x' = x /\ x <> NNone)).
    { subst x'. destruct x; [destruct dflt; [right; left; eauto|left; auto]| | |]; right; right; split; (reflexivity || discriminate). }
    clear Ex'.
    destruct x' as [|sv|d fs|xs].
    - (* written as a nil element *)
      destruct Hx' as [(_ & -> & ->)|[(d & _ & _ & H)|(H & Hne)]]; [|discriminate H|subst x; contradiction].
      injection Hemit as <-. destruct (Hnil eq_refl eq_refl) as [-> Hnok].
      change (wire (XElt ns name [nil_attr] None [])) with (XElt ns name [nil_attr] None []).
      rewrite valid_elem_nil.
      destruct t as [st|c|aq iname el].
      + destruct Hty as [Hin Hw]. cbn [dty_ok] in Hw. cbn [type_qn]. rewrite (resolve_leaf U S Hres st Hin Hw). reflexivity.
      + cbn [ty_known] in Hty. destruct (nth_error U c) as [cl|] eqn:Ec; [|apply nth_error_None in Ec; lia].
        destruct (chain_exists U Hwf c cl Ec) as [L HL].
        destruct (HL m' ltac:(lia)) as (C1 & _ & _). destruct (HL (Datatypes.S c) ltac:(lia)) as (_ & C2 & _).
        cbn [type_qn]. destruct (rs_klass S U Hres c cl Ec) as (d & Hd1 & Hd2 & Hd3).
        pose proof (wf_klass U c cl Hwf Ec) as Hk. unfold klass_ok in Hk. split_all.
        rewrite (resolve_complex S (klass_qn U c) (cdef_of U cl)).
        * rewrite (eff_content_klass U S Hwf Hres m' c L C1).
          cbn [nil_ok] in Hnok. apply negb_true_iff in Hnok.
          eapply (no_required_attrs c L Hnok C2); [|reflexivity].
          intros q Hq. destruct (L_flds_known L (chain_known _ _ _ C1) q Hq) as (_ & _ & _ & Hok). exact Hok.
        * rewrite (klass_qn_get U c cl Ec). cbn [fst]. apply negb_true_iff. assumption.
        * rewrite (klass_qn_get U c cl Ec). exact Hd3.
      + destruct Hty as [Hin Hw]. cbn [dty_ok] in Hw. apply andb_prop in Hw. destruct Hw as [Hns _]. apply negb_true_iff in Hns.
        destruct (rs_arr S U Hres aq iname el Hin) as (d & D1 & D2 & D3). cbn [type_qn].
        rewrite (resolve_complex S aq _ Hns D3).
        destruct m' as [|m'']; [lia|]. cbn [eff_content]. rewrite D1, D3. cbn [c_base c_seq c_atts]. reflexivity.
    - (* a leaf value, or the default *)
      destruct t as [st| |]; try discriminate Hemit.
      destruct (pr_leaf (st_base st) sv) as [s| |] eqn:Ep; try discriminate Hemit. cbn in Hemit. injection Hemit as <-.
      destruct Hty as [Hin Hw]. cbn [dty_ok] in Hw. cbn [type_qn].
      assert (Hd' : forall d, dflt = Some d -> leaf_conf st d = true /\ extra d = true).
      { intros d Hdd. destruct (Hd d Hdd) as (st' & Hst & A & B). injection Hst as <-. auto. }
      destruct Hx' as [(H & _)|[(d & -> & -> & H)|(<- & Hne)]]; [discriminate H| |].
      + injection H as <-. destruct (Hd' sv eq_refl) as [A B]. eapply leaf_elem_valid; eassumption.
      + cbn [vconf] in Hconf. apply andb_prop in Hconf. destruct Hconf as [A B]. eapply leaf_elem_valid; eassumption.
    - (* an object *)
      destruct Hx' as [(H & _)|[(d0 & _ & _ & H)|(<- & Hne)]]; [discriminate H|discriminate H|].
      destruct t as [|c|]; try discriminate Hemit.
      destruct (negb (d =? c)%nat) eqn:Edc; [discriminate|]. apply negb_false_iff in Edc. apply Nat.eqb_eq in Edc. subst d.
      destruct (flat U c) as [ffs|] eqn:Eflat; [|discriminate].
      destruct (emit_members (emit U k) ffs fs) as [[kids atts]| |] eqn:Emem; try discriminate. cbn in Hemit. injection Hemit as <-.
      cbn [ty_known] in Hty. destruct (nth_error U c) as [cl|] eqn:Ec; [|apply nth_error_None in Ec; lia].
      destruct (chain_exists U Hwf c cl Ec) as [L HL].
      destruct (HL m' ltac:(lia)) as (C1 & _ & _). destruct (HL (Datatypes.S c) ltac:(lia)) as (_ & C2 & C3).
      unfold flat in Eflat. rewrite C2 in Eflat. injection Eflat as <-.
      cbn [vconf] in Hconf. rewrite Nat.eqb_refl in Hconf. cbn [andb] in Hconf. unfold flat_items in Hconf. rewrite C3 in Hconf.
      pose proof (chain_known _ _ _ C1) as Hkn.
      pose proof (wf_klass U c cl Hwf Ec) as Hk. unfold klass_ok in Hk. split_all.
      assert (Hnd : NoDup (map (fun p => fl_name (snd p)) (L_flds L))).
      { apply nodup_text_NoDup. match goal with H : match flat U c with _ => _ end = true |- _ => unfold flat in H; rewrite C2 in H; exact H end. }
      destruct (members_match k IHk L fs kids atts Hkn Hnd Hconf Emem) as (K & G & M).
      destruct (items_conf_fields _ L fs Hconf) as [Hlen Hcf].
      destruct (attrs_emitted_ok k (L_flds L) fs kids atts (L_flds_known L Hkn) Hnd Hlen Hcf Emem) as [Hat Hplain].
      destruct (rs_klass S U Hres c cl Ec) as (dd & Hd1 & Hd2 & Hd3).
      rewrite wire_shape. cbn [type_qn].
      rewrite (valid_elem_complex m' (klass_qn U c) nillable _ ns name atts (map wire kids) (L_parts U L) (attrs_of (map snd (L_flds L))) Hplain).
      + rewrite Hat. cbn [andb].
        assert (Hfil : filter is_elt (map wire kids) = map wire kids).
        { clear -K. induction (map wire kids) as [|e r IH]; [reflexivity|]. inversion K as [|? ? (p & _ & He) K']; subst.
          cbn [filter]. destruct e; [|discriminate He]. cbn [is_elt]. f_equal. apply IH. exact K'. }
        rewrite Hfil, (match_items U (velem_m m') L (map wire kids)); [apply M; exact Hm'| |exact G].
        intros p Hp. pose proof (item_known_wf _ (Hkn p Hp)) as Hw. destruct (snd p) as [f|g ms]; [exact I|].
        destruct Hw as [Hne' Hms]. split; [exact Hne'|]. intros f Hf. destruct (Hms f Hf) as (Q1 & Q2 & _). split; [exact Q1|].
        pose proof (fld_ok_max _ f Q2) as Hmx. destruct (fl_max f) as [|z|]; cbn in *; try discriminate; try reflexivity. lia.
      + apply (resolve_complex S (klass_qn U c) (cdef_of U cl)).
        * rewrite (klass_qn_get U c cl Ec). cbn [fst]. apply negb_true_iff. assumption.
        * rewrite (klass_qn_get U c cl Ec). exact Hd3.
      + apply (eff_content_klass U S Hwf Hres m' c L C1).
    - (* an array *)
      destruct Hx' as [(H & _)|[(d0 & _ & _ & H)|(<- & Hne)]]; [discriminate H|discriminate H|].
      destruct t as [| |aq iname el]; try discriminate Hemit.
      destruct (mapM (emit U k el None (fst aq) iname) xs) as [kids| |] eqn:Ekids; try discriminate. cbn in Hemit. injection Hemit as <-.
      destruct Hty as [Hin Hw]. cbn [dty_ok] in Hw. apply andb_prop in Hw. destruct Hw as [Hns Hwel]. apply negb_true_iff in Hns.
      destruct (rs_arr S U Hres aq iname el Hin) as (d & D1 & D2 & D3).
      rewrite wire_shape. cbn [type_qn].
      assert (Heff : eff_content m' S aq = Some ([(fst aq, PElem (edecl_of U iname el 0 PosInf true None))], [])).
      { destruct m' as [|m'']; [lia|]. cbn [eff_content]. rewrite D1, D3. cbn [c_base c_seq c_atts map].
        unfold local_ns. rewrite D2, (find_doc_tns S _ _ D1). reflexivity. }
      rewrite (valid_elem_complex m' aq nillable _ ns name [] (map wire kids) _ _ eq_refl (resolve_complex S aq _ Hns D3) Heff).
      cbn [attrs_ok forallb andb].
      apply mapM_ok in Ekids. cbn [vconf] in Hconf. rewrite forallb_forall in Hconf.
      assert (Hel : ty_known U el).
      { pose proof (tys_of_arr aq iname el Hin) as Hin'. destruct el as [st|c|? ? ?]; cbn [ty_known]; [split; assumption| |split; assumption].
        cbn in Hwel. apply Nat.ltb_lt. exact Hwel. }
      assert (Hall : Forall (fun e => elt_is (fst aq) iname (wire e) = true
                                      /\ velem_m m' (edecl_of U iname el 0 PosInf true None) (wire e) = true) kids).
      { clear Heff Hne Hnil. revert Hconf. induction Ekids as [|y e r es Hye _ IHr]; intros Hconf; [constructor|].
        constructor; [|apply IHr; intros z Hz; apply Hconf; right; exact Hz].
        specialize (Hconf y (or_introl eq_refl)). apply andb_prop in Hconf. destruct Hconf as [C1 C2].
        split; [eapply emit_elt_is; exact Hye|].
        unfold velem_m. rewrite e_type_edecl, eff_nillable_edecl, e_default_edecl.
        change None with (dtext el None) at 1.
        eapply (IHk el None (fst aq) iname y e true Hel); [destruct y; try exact C2; reflexivity| | |exact Hye|exact Hm'].
        - intros -> _. split; [reflexivity|exact C1].
        - intros d0 Hd0. discriminate Hd0. }
      assert (Hfil : filter is_elt (map wire kids) = map wire kids).
      { clear -Hall. induction Hall as [|e r [He _] _ IH]; [reflexivity|]. cbn [map filter].
        destruct (wire e); [|discriminate He]. cbn [is_elt]. f_equal. exact IH. }
      rewrite Hfil. cbn [match_seq]. change (e_name (edecl_of U iname el 0 PosInf true None)) with iname.
      rewrite <- (app_nil_r (map wire kids)).
      rewrite (span_name_app (fst aq) iname (map wire kids) []); [| |reflexivity].
      + unfold occ_ok. rewrite eff_min_edecl, eff_max_edecl. cbn [ext_leb andb].
        assert (0 <=? len_nodes (map wire kids) = true) as -> by (unfold len_nodes; lia). cbn [andb].
        rewrite andb_true_r. apply forallb_forall. intros c Hc. apply in_map_iff in Hc. destruct Hc as (e & <- & He).
        rewrite Forall_forall in Hall. apply (Hall e He).
      + apply forallb_forall. intros c Hc. apply in_map_iff in Hc. destruct Hc as (e & <- & He).
        rewrite Forall_forall in Hall. apply (Hall e He).
  Qed.

End Emitted.
