(** C06 — structure level: the effective content model of a published class, what Spyne
    writes for a conformant value is valid against it, and for documents in declared order
    schema validity and soft validation agree. *)
From Coq Require Import ZArith List Bool Lia ZifyBool Btauto.
From SpyneV Require Import C06.Spec C06.LeafProofs C06.SeqProofs.
Import ListNotations.
Open Scope Z_scope.

(* ------------------------------------------------------------------ a class with its ancestors *)
Fixpoint chain_fuel (fuel : nat) (U : univ) (c : cid) : option (list (text * item)) :=
  match fuel with
  | O => None
  | S k =>
      match get_klass U c with
      | None => None
      | Some cl =>
          let own := map (pair (k_ns cl)) (k_items cl) in
          match k_parent cl with
          | None => Some own
          | Some p => match chain_fuel k U p with Some pl => Some (pl ++ own) | None => None end
          end
      end
  end.

Definition L_flds (L : list (text * item)) : list (text * fld) :=
  flat_map (fun p => tagged (fst p) (item_flds (snd p))) L.

Lemma L_flds_app a b : L_flds (a ++ b) = L_flds a ++ L_flds b.
Proof. unfold L_flds. apply flat_map_app. Qed.
Lemma L_parts_app U a b : L_parts U (a ++ b) = L_parts U a ++ L_parts U b.
Proof. unfold L_parts. apply flat_map_app. Qed.

Lemma L_flds_own ns its : L_flds (map (pair ns) its) = map (pair ns) (flat_map item_flds its).
Proof.
  induction its as [|i r IH]; [reflexivity|]. cbn [map L_flds flat_map fst snd]. fold (L_flds (map (pair ns) r)).
  rewrite IH. unfold tagged. rewrite map_app. reflexivity.
Qed.

Lemma wf_from6_nth U : forall l i, wf_from6 U i l = true ->
  forall j cl, nth_error l j = Some cl -> klass_ok U (i + j) cl = true.
Proof.
  induction l as [|x r IH]; intros i H j cl Hn; [destruct j; discriminate|].
  cbn in H. apply andb_prop in H. destruct H as [H1 H2]. destruct j as [|j].
  - cbn in Hn. injection Hn as <-. rewrite Nat.add_0_r. exact H1.
  - cbn in Hn. replace (i + S j)%nat with (S i + j)%nat by lia. eapply IH; eassumption.
Qed.
Lemma wf_klass U c cl : wf_univ U = true -> get_klass U c = Some cl -> klass_ok U c cl = true.
Proof. intros H Hn. apply (wf_from6_nth U U 0 H c cl Hn). Qed.

(** in a well-formed universe the ancestors of a class are found with any sufficient fuel *)
Lemma chain_exists U : wf_univ U = true -> forall c cl, get_klass U c = Some cl ->
  exists L, forall fuel, (c < fuel)%nat ->
    chain_fuel fuel U c = Some L /\ flat_fuel fuel U c = Some (L_flds L) /\ flat_items_fuel U fuel c = Some (map snd L).
Proof.
  intros Hwf c. induction c as [c IH] using lt_wf_ind. intros cl Hc.
  pose proof (wf_klass U c cl Hwf Hc) as Hk. unfold klass_ok in Hk. split_all.
  destruct (k_parent cl) as [p|] eqn:Ep.
  - match goal with H : (p <? c)%nat = true |- _ => apply Nat.ltb_lt in H; rename H into Hp end.
    destruct (get_klass U p) as [pcl|] eqn:Epc.
    + destruct (IH p Hp pcl Epc) as [L HL].
      exists (L ++ map (pair (k_ns cl)) (k_items cl)). intros fuel Hf. destruct fuel as [|k]; [lia|].
      destruct (HL k ltac:(lia)) as (G1 & G2 & G3).
      cbn [chain_fuel flat_fuel flat_items_fuel]. rewrite Hc, Ep, G1, G2, G3.
      repeat split.
      * rewrite L_flds_app, L_flds_own. reflexivity.
      * rewrite map_app, map_map. cbn [snd]. rewrite map_id. reflexivity.
    + exfalso. match goal with H : match flat U c with _ => _ end = true |- _ => rename H into Hfl end.
      unfold flat in Hfl. cbn [flat_fuel] in Hfl. rewrite Hc, Ep in Hfl.
      assert (E : flat_fuel c U p = None).
      { destruct c; [lia|]. cbn. rewrite Epc. reflexivity. }
      rewrite E in Hfl. discriminate Hfl.
  - exists (map (pair (k_ns cl)) (k_items cl)). intros fuel Hf. destruct fuel as [|k]; [lia|].
    cbn [chain_fuel flat_fuel flat_items_fuel]. rewrite Hc, Ep. repeat split.
    + rewrite L_flds_own. reflexivity.
    + rewrite map_map. cbn [snd]. rewrite map_id. reflexivity.
Qed.

(* ------------------------------------------------------------------ effective content of a published class *)
Lemma klass_qn_get U c cl : get_klass U c = Some cl -> klass_qn U c = (k_ns cl, k_name cl).
Proof. unfold klass_qn. intros ->. reflexivity. Qed.

Lemma find_doc_tns S ns d : find_doc S ns = Some d -> d_tns d = ns.
Proof. unfold find_doc. intros H. apply find_some in H. destruct H as [_ H]. apply text_eqb_true_eq. exact H. Qed.

Lemma attrs_of_app a b : attrs_of (a ++ b) = attrs_of a ++ attrs_of b.
Proof. unfold attrs_of. rewrite filter_app, map_app. reflexivity. Qed.

Lemma L_parts_own U ns its : L_parts U (map (pair ns) its) = map (pair ns) (flat_map (ipart U) its).
Proof.
  induction its as [|i r IH]; [reflexivity|]. cbn [map L_parts flat_map fst snd]. fold (L_parts U (map (pair ns) r)).
  rewrite IH, map_app. reflexivity.
Qed.

Lemma klass_items_wf U c cl : wf_univ U = true -> get_klass U c = Some cl ->
  nodupZ (group_ids (k_items cl)) = true
  /\ (forall g ms, In (IGroup g ms) (k_items cl) ->
        ms <> [] /\ forallb is_elem ms = true
        /\ forall f, In f ms -> fl_min f = 0 /\ fld_ok (length U) f = true /\ fl_default f = None)
  /\ (forall f, In (IOne f) (k_items cl) -> fld_ok (length U) f = true).
Proof.
  intros Hwf Hc. pose proof (wf_klass U c cl Hwf Hc) as Hk. unfold klass_ok in Hk.
  assert (Hit : forall x, In x (k_items cl) -> item_ok (length U) x = true).
  { split_all. match goal with H : forallb (item_ok _) _ = true |- _ => rewrite forallb_forall in H; exact H end. }
  assert (Hn : nodupZ (group_ids (k_items cl)) = true) by (split_all; assumption).
  clear Hk. split; [exact Hn|]. split.
  - intros g ms Hin. specialize (Hit _ Hin). cbn [item_ok] in Hit. apply andb_prop in Hit. destruct Hit as [Hall Hne].
    rewrite forallb_forall in Hall. split; [destruct ms; [discriminate Hne|discriminate]|]. split.
    + apply forallb_forall. intros f Hf. specialize (Hall f Hf). split_all. assumption.
    + intros f Hf. specialize (Hall f Hf). split_all. repeat split; [lia|assumption|apply is_none_true; assumption].
  - intros f Hf. exact (Hit _ Hf).
Qed.

Section Content.
  Variable U : univ.
  Variable S : schema.
  Hypothesis Hwf : wf_univ U = true.
  Hypothesis Hres : resolves S U.

  Lemma eff_content_klass : forall fuel c L,
    chain_fuel fuel U c = Some L ->
    eff_content fuel S (klass_qn U c) = Some (L_parts U L, attrs_of (map snd (L_flds L))).
  Proof.
    induction fuel as [|k IH]; intros c L Hch; [discriminate|].
    cbn [chain_fuel] in Hch. destruct (get_klass U c) as [cl|] eqn:Ec; [|discriminate].
    rewrite (klass_qn_get U c cl Ec). destruct (rs_klass S U Hres c cl Ec) as (d & Hd & Hq & Ht).
    cbn [eff_content fst]. rewrite Hd, Ht.
    destruct (klass_items_wf U c cl Hwf Ec) as (Hn & Hg & _).
    assert (Hp : particles_of U (k_items cl) = flat_map (ipart U) (k_items cl)).
    { apply particles_of_items; [exact Hn|]. intros g ms Hin. apply (Hg g ms Hin). }
    assert (Hloc : local_ns d = k_ns cl) by (unfold local_ns; rewrite Hq; apply (find_doc_tns S); exact Hd).
    unfold cdef_of. cbn [c_seq c_atts c_base]. rewrite Hloc, Hp.
    destruct (k_parent cl) as [p|] eqn:Ep; cbn [option_map].
    - destruct (chain_fuel k U p) as [pl|] eqn:Epl; [|discriminate]. injection Hch as <-.
      rewrite (IH p pl Epl). cbn [fst snd].
      rewrite L_parts_app, L_parts_own, L_flds_app, L_flds_own, map_app, attrs_of_app.
      rewrite (map_map (pair (k_ns cl)) snd). cbn [snd]. rewrite map_id. reflexivity.
    - injection Hch as <-. rewrite L_parts_own, L_flds_own, (map_map (pair (k_ns cl)) snd). cbn [snd]. rewrite map_id. reflexivity.
  Qed.
End Content.

(* ------------------------------------------------------------------ resolution of type references *)
Lemma builtin_base b : (match b with BInt k => wf_ikind k | _ => true end) = true ->
  builtin (base_name b) = Some (xbase_of b).
Proof.
  destruct b as [k|u| | |k]; intros H; [apply builtin_int; exact H|destruct u; reflexivity|reflexivity|reflexivity|].
  destruct k; reflexivity.
Qed.

Lemma wf_stype_base st : wf_stype st = true -> (match st_base st with BInt k => wf_ikind k | _ => true end) = true.
Proof.
  intros H. destruct (st_base st) as [k| | | |] eqn:Eb; try reflexivity. exact (proj1 (wf_int st k Eb H)).
Qed.

Lemma wf_stype_qn st : wf_stype st = true ->
  (published st = true -> exists q, st_qn st = Some q /\ text_eqb (fst q) xs_ns = false).
Proof.
  intros H Hp. unfold wf_stype in H. split_all.
  rewrite Hp in *. cbn [negb orb] in *.
  destruct (st_qn st) as [q|]; [|discriminate]. exists q. split; [reflexivity|].
  cbn [is_none orb] in *. apply negb_true_iff. assumption.
Qed.

Section Resolve.
  Variable pat : text -> option re.
  Variable olex : okind -> text -> option Z.
  Variable U : univ.
  Variable S : schema.
  Hypothesis Hres : resolves S U.

  Lemma resolve_leaf st :
    In (DLeaf st) (tys_of U) -> wf_stype st = true ->
    resolve_simple S (leaf_qn st) = Some (xbase_of (st_base st), st_facets st).
  Proof.
    intros Hin Hwf. pose proof (builtin_base _ (wf_stype_base st Hwf)) as Hb.
    unfold leaf_qn, st_facets. destruct (published st) eqn:Ep.
    - destruct (wf_stype_qn st Hwf Ep) as (q & Hq & Hns).
      destruct (rs_leaf S U Hres st Hin Ep) as (q' & Hq' & Ht). rewrite Hq in Hq'. injection Hq' as <-.
      rewrite Hq. unfold resolve_simple. rewrite Hns, Ht. cbn [s_base s_facets fst snd].
      rewrite text_eqb_same, Hb. reflexivity.
    - unfold resolve_simple. cbn [fst snd]. rewrite text_eqb_same, Hb. reflexivity.
  Qed.

  Lemma simple_ok_leaf st s :
    In (DLeaf st) (tys_of U) -> wf_stype st = true ->
    simple_ok pat olex S (leaf_qn st) s = st_simple_ok pat olex st s.
  Proof.
    intros Hin Hwf. unfold simple_ok, st_simple_ok. rewrite (resolve_leaf st Hin Hwf). reflexivity.
  Qed.

  Lemma resolve_complex q c : text_eqb (fst q) xs_ns = false -> find_type S q = Some (TComplex c) -> resolve_simple S q = None.
  Proof. intros H1 H2. unfold resolve_simple. rewrite H1, H2. reflexivity. Qed.
End Resolve.

(* ------------------------------------------------------------------ shape of what to_parent writes *)
Definition node_name (e : xnode) : text := match e with XElt _ n _ _ _ => n | XOther => [] end.

Lemma mapM_ok {A B} (f : A -> out B) l ys : mapM f l = Ok ys -> Forall2 (fun x y => f x = Ok y) l ys.
Proof.
  revert ys. induction l as [|x r IH]; intros ys H; cbn in H.
  - injection H as <-. constructor.
  - destruct (f x) as [y| |] eqn:E; try discriminate. cbn in H.
    destruct (mapM f r) as [ys'| |] eqn:E2; try discriminate. cbn in H. injection H as <-.
    constructor; [exact E|apply IH; reflexivity].
Qed.

Lemma Forall2_len2 {A B} (P : A -> B -> Prop) l1 l2 : Forall2 P l1 l2 -> length l1 = length l2.
Proof. induction 1; cbn; congruence. Qed.

Lemma emit_shape U n t dflt ns name v e :
  emit U n t dflt ns name v = Ok e -> exists atts txt kids, e = XElt ns name atts txt kids.
Proof.
  destruct n as [|k]; [discriminate|]. cbn [emit].
  destruct (match v, dflt with NNone, Some d => NLeaf d | _, _ => v end) as [|sv|d fs|xs].
  - intros H. injection H as <-. eauto.
  - destruct t; try discriminate. destruct (pr_leaf (st_base st) sv); try discriminate. cbn. intros H. injection H as <-. eauto.
  - destruct t; try discriminate. destruct (negb (d =? c)%nat); [discriminate|].
    destruct (flat U c); [|discriminate]. destruct (emit_members _ _ _); try discriminate. cbn. intros H. injection H as <-. eauto.
  - destruct t; try discriminate. destruct (mapM _ xs); try discriminate. cbn. intros H. injection H as <-. eauto.
Qed.

Lemma wire_shape ns name atts txt kids :
  wire (XElt ns name atts txt kids) = XElt ns name atts (match txt with Some [] => None | _ => txt end) (map wire kids).
Proof. reflexivity. Qed.

Lemma emit_elt_is U n t dflt ns name v e : emit U n t dflt ns name v = Ok e -> elt_is ns name (wire e) = true.
Proof.
  intros H. destruct (emit_shape _ _ _ _ _ _ _ _ H) as (a & tx & k & ->). rewrite wire_shape. cbn. rewrite !text_eqb_same. reflexivity.
Qed.
Lemma emit_is_elt U n t dflt ns name v e : emit U n t dflt ns name v = Ok e -> is_elt (wire e) = true.
Proof. intros H. destruct (emit_shape _ _ _ _ _ _ _ _ H) as (a & tx & k & ->). reflexivity. Qed.

(* ------------------------------------------------------------------ emitted documents are valid *)
Definition dtext (t : dty) (dflt : option sval) : option text :=
  match dflt, leaf_base_of t with Some v, Some b => Some (pr_text b v) | _, _ => None end.
Lemma default_text_dtext f : default_text f = dtext (fl_ty f) (fl_default f).
Proof. reflexivity. Qed.

Definition ty_known (U : univ) (t : dty) : Prop :=
  match t with
  | DRef c => (c < length U)%nat
  | _ => In t (tys_of U) /\ dty_ok (length U) t = true
  end.

Section Emitted.
  Variable pat : text -> option re.
  Variable olex : okind -> text -> option Z.
  Variable U : univ.
  Variable S : schema.
  Variable extra : sval -> bool.
  Hypothesis Hwf : wf_univ U = true.
  Hypothesis Hres : resolves S U.
  Hypothesis H_leaf : forall st v,
    In (DLeaf st) (tys_of U) -> wf_stype st = true -> leaf_conf st v = true -> extra v = true ->
    exists s, pr_leaf (st_base st) v = Ok s /\ st_simple_ok pat olex st s = true.
  Hypothesis H_defaults : forall cl f d, In cl U -> In f (k_own cl) -> fl_default f = Some d -> extra d = true.

  Definition velem_m (m : nat) (d : edecl) (c : xnode) : bool :=
    valid_elem pat olex m S (e_type d) (eff_nillable d) (e_default d) c.

  (** what the induction hypothesis says at nesting depth k *)
  Definition emit_valid_at (k : nat) : Prop :=
    forall t dflt ns name x e nillable,
      ty_known U t ->
      match x with NNone => true | _ => vconf U extra k t x end = true ->
      (x = NNone -> dflt = None -> nillable = true /\ nil_ok U t = true) ->
      (forall d, dflt = Some d -> exists st, t = DLeaf st /\ leaf_conf st d = true /\ extra d = true) ->
      emit U k t dflt ns name x = Ok e ->
      forall m, (k + length U < m)%nat ->
        valid_elem pat olex m S (type_qn U t) nillable (dtext t dflt) (wire e) = true.

  Lemma velem_fld m f c :
    velem_m m (fld_edecl U f) c
    = valid_elem pat olex m S (type_qn U (fl_ty f)) (fl_nillable f) (dtext (fl_ty f) (fl_default f)) c.
  Proof.
    unfold velem_m, fld_edecl. rewrite e_type_edecl, eff_nillable_edecl, e_default_edecl, default_text_dtext. reflexivity.
  Qed.

  Lemma fld_default_ok n f d : fld_ok n f = true -> is_elem f = true -> fl_default f = Some d ->
    exists st, fl_ty f = DLeaf st /\ leaf_conf st d = true.
  Proof.
    intros Hf He Hd. unfold fld_ok in Hf. unfold is_elem in He. destruct (fl_kind f); [|discriminate]. split_all.
    rewrite Hd in *. destruct (fl_ty f) as [st| |]; try discriminate. eauto.
  Qed.

  Lemma occ6_elem_none f : is_elem f = true -> occ6 f NNone = if 0 <? fl_min f then 1 else 0.
  Proof. unfold is_elem, occ6. destruct (fl_kind f); [reflexivity|discriminate]. Qed.

  (** one element member: the run it writes has the declared name, the declared number of
      occurrences, and every element of it is valid *)
  Lemma emit_field_elem k cl dns f x ks ats :
    emit_valid_at k -> In cl U -> In f (k_own cl) -> fld_ok (length U) f = true -> is_elem f = true ->
    field_conf6 U (vconf U extra k) f x = true ->
    emit_field (emit U k) dns f x = Ok (ks, ats) ->
    ats = [] /\ forallb (elt_is dns (fl_name f)) (map wire ks) = true
    /\ len_nodes (map wire ks) = occ6 f x
    /\ forall m, (k + length U < m)%nat -> forallb (velem_m m (fld_edecl U f)) (map wire ks) = true.
  Proof.
    intros IH Hcl Hf Hok He Hconf Hemit.
    assert (Hk : fl_kind f = FElem) by (unfold is_elem in He; destruct (fl_kind f); [reflexivity|discriminate]).
    assert (Hty : ty_known U (fl_ty f)).
    { unfold fld_ok in Hok. apply andb_prop in Hok. destruct Hok as [Hok _]. apply andb_prop in Hok. destruct Hok as [Hok _].
      unfold ty_known. destruct (fl_ty f) as [st|c|aq iname el] eqn:Et.
      - split; [|exact Hok]. unfold tys_of. apply in_flat_map. exists cl. split; [exact Hcl|].
        apply in_flat_map. exists f. split; [exact Hf|]. rewrite Et. left. reflexivity.
      - cbn in Hok. apply Nat.ltb_lt. exact Hok.
      - split; [|exact Hok]. unfold tys_of. apply in_flat_map. exists cl. split; [exact Hcl|].
        apply in_flat_map. exists f. split; [exact Hf|]. rewrite Et. left. reflexivity. }
    assert (Hd : forall d, fl_default f = Some d -> exists st, fl_ty f = DLeaf st /\ leaf_conf st d = true /\ extra d = true).
    { intros d Hdd. destruct (fld_default_ok _ f d Hok He Hdd) as (st & E1 & E2). exists st. repeat split; try assumption.
      eapply H_defaults; eassumption. }
    assert (one : forall y e, match y with NNone => true | _ => vconf U extra k (fl_ty f) y end = true ->
              (y = NNone -> fl_default f = None -> fl_nillable f = true /\ nil_ok U (fl_ty f) = true) ->
              emit U k (fl_ty f) (fl_default f) dns (fl_name f) y = Ok e ->
              elt_is dns (fl_name f) (wire e) = true
              /\ forall m, (k + length U < m)%nat -> velem_m m (fld_edecl U f) (wire e) = true).
    { intros y e Hy Hn Hem. split; [eapply emit_elt_is; exact Hem|]. intros m Hm. rewrite velem_fld.
      eapply IH; eassumption. }
    unfold field_conf6 in Hconf. rewrite Hk in Hconf. unfold emit_field in Hemit. rewrite Hk in Hemit.
    apply andb_prop in Hconf. destruct Hconf as [Hocc Hconf].
    destruct x as [|sv|d fs|xs].
    - (* None *)
      rewrite occ6_elem_none by exact He. destruct (0 <? fl_min f) eqn:Emin.
      + destruct (emit U k (fl_ty f) (fl_default f) dns (fl_name f) NNone) as [e| |] eqn:Ee; try discriminate.
        cbn in Hemit. injection Hemit as <- <-.
        assert (Hn : NNone = NNone -> fl_default f = None -> fl_nillable f = true /\ nil_ok U (fl_ty f) = true).
        { intros _ Hdn. rewrite Hdn in Hconf. cbn [is_some orb] in Hconf.
          assert (fl_min f <=? 0 = false) as E0 by lia. rewrite E0 in Hconf. cbn [orb] in Hconf.
          apply andb_prop in Hconf. exact Hconf. }
        destruct (one NNone e eq_refl Hn Ee) as [O1 O2].
        repeat split; [cbn; rewrite O1; reflexivity|]. intros m Hm. cbn. rewrite (O2 m Hm). reflexivity.
      + injection Hemit as <- <-. repeat split.
    - (* a leaf value *)
      apply andb_prop in Hconf. destruct Hconf as [Hm Hrec]. apply negb_true_iff in Hm. rewrite Hm in Hemit.
      destruct (emit U k (fl_ty f) (fl_default f) dns (fl_name f) (NLeaf sv)) as [e| |] eqn:Ee; try discriminate.
      cbn in Hemit. injection Hemit as <- <-.
      destruct (one (NLeaf sv) e Hrec ltac:(intros; discriminate) Ee) as [O1 O2].
      unfold occ6. rewrite Hk. repeat split; [cbn; rewrite O1; reflexivity|]. intros m Hmm. cbn. rewrite (O2 m Hmm). reflexivity.
    - (* an object *)
      apply andb_prop in Hconf. destruct Hconf as [Hm Hrec]. apply negb_true_iff in Hm. rewrite Hm in Hemit.
      destruct (emit U k (fl_ty f) (fl_default f) dns (fl_name f) (NObj d fs)) as [e| |] eqn:Ee; try discriminate.
      cbn in Hemit. injection Hemit as <- <-.
      destruct (one (NObj d fs) e Hrec ltac:(intros; discriminate) Ee) as [O1 O2].
      unfold occ6. rewrite Hk. repeat split; [cbn; rewrite O1; reflexivity|]. intros m Hmm. cbn. rewrite (O2 m Hmm). reflexivity.
    - (* a list *)
      destruct (multi f) eqn:Em.
      + destruct (mapM (emit U k (fl_ty f) (fl_default f) dns (fl_name f)) xs) as [es| |] eqn:Ees; try discriminate.
        cbn in Hemit. injection Hemit as <- <-. apply mapM_ok in Ees.
        unfold occ6. rewrite Hk, Em. split; [reflexivity|].
        rewrite forallb_forall in Hconf.
        assert (Hall : Forall (fun e => elt_is dns (fl_name f) (wire e) = true
                                        /\ forall m, (k + length U < m)%nat -> velem_m m (fld_edecl U f) (wire e) = true) es).
        { clear Hocc. induction Ees as [|y e r es' Hye _ IHr]; [constructor|].
          constructor; [|apply IHr; intros z Hz; apply Hconf; right; exact Hz].
          specialize (Hconf y (or_introl eq_refl)). apply andb_prop in Hconf. destruct Hconf as [C1 C2].
          apply (one y e); [destruct y; try exact C2; reflexivity| |exact Hye].
          intros -> Hdn. rewrite Hdn in C1. cbn [is_some orb] in C1. apply andb_prop in C1. exact C1. }
        split; [|split].
        * apply forallb_forall. intros c Hc. apply in_map_iff in Hc. destruct Hc as (e & <- & He').
          rewrite Forall_forall in Hall. apply (Hall e He').
        * unfold len_nodes. rewrite map_length. f_equal. symmetry. eapply Forall2_len2. exact Ees.
        * intros m Hm. apply forallb_forall. intros c Hc. apply in_map_iff in Hc. destruct Hc as (e & <- & He').
          rewrite Forall_forall in Hall. apply (Hall e He'). exact Hm.
      + destruct (emit U k (fl_ty f) (fl_default f) dns (fl_name f) (NList xs)) as [e| |] eqn:Ee; try discriminate.
        cbn in Hemit. injection Hemit as <- <-.
        destruct (one (NList xs) e Hconf ltac:(intros; discriminate) Ee) as [O1 O2].
        unfold occ6. rewrite Hk, Em. repeat split; [cbn; rewrite O1; reflexivity|]. intros m Hmm. cbn. rewrite (O2 m Hmm). reflexivity.
  Qed.

  Lemma hd_is_app_false ns nm (K tail : list xnode) :
    Forall (fun e => elt_is ns nm e = false) K -> hd_is ns nm tail = false -> hd_is ns nm (K ++ tail) = false.
  Proof. intros HK Ht. destruct K as [|e r]; [exact Ht|]. inversion HK; subst. cbn. assumption. Qed.

  Lemma elt_is_other ns nm ns' nm' e : elt_is ns' nm' e = true -> nm <> nm' -> elt_is ns nm e = false.
  Proof.
    destruct e as [a b ? ? ?|]; [|discriminate]. cbn. intros H Hne. apply andb_prop in H. destruct H as [_ H].
    apply text_eqb_true_eq in H. apply andb_false_iff. right.
    destruct (text_eqb b nm) eqn:E; [|reflexivity]. apply text_eqb_true_eq in E. congruence.
  Qed.

  (** the element members of a run of the field list, written in order: the children split
      back into one run per member, each valid *)
  Lemma fields_runs k cl : emit_valid_at k -> In cl U ->
    forall (F : list (text * fld)) vals kids atts tail,
      (forall p, In p F -> In (snd p) (k_own cl) /\ fld_ok (length U) (snd p) = true /\ is_elem (snd p) = true) ->
      NoDup (map (fun p => fl_name (snd p)) F) ->
      (forall p, In p F -> hd_is (fst p) (fl_name (snd p)) tail = false) ->
      length vals = length F ->
      (forall p x, In (p, x) (combine F vals) -> field_conf6 U (vconf U extra k) (snd p) x = true) ->
      emit_members (emit U k) F vals = Ok (kids, atts) ->
      atts = []
      /\ Forall (fun e => exists p, In p F /\ elt_is (fst p) (fl_name (snd p)) e = true) (map wire kids)
      /\ exists runs, split_runs F (map wire kids ++ tail) = (runs, tail)
                      /\ map len_nodes runs = map (fun px => occ6 (snd (fst px)) (snd px)) (combine F vals)
                      /\ forall m, (k + length U < m)%nat -> runs_valid U (velem_m m) F runs = true.
  Proof.
    intros IH Hcl. induction F as [|[ns f] r IHF]; intros vals kids atts tail HF Hnd Htail Hlen Hconf Hemit.
    - cbn in Hemit. injection Hemit as <- <-. repeat split; [constructor|]. exists []. repeat split.
    - destruct vals as [|x vs]; [discriminate|]. cbn [emit_members hd tl] in Hemit.
      destruct (emit_field (emit U k) ns f x) as [[ks1 as1]| |] eqn:E1; try discriminate. cbn [bind] in Hemit.
      destruct (emit_members (emit U k) r vs) as [[ks2 as2]| |] eqn:E2; try discriminate. cbn [bind fst snd] in Hemit.
      injection Hemit as <- <-.
      destruct (HF (ns, f) (or_introl eq_refl)) as (Hin & Hok & He). cbn [snd] in *.
      destruct (emit_field_elem k cl ns f x ks1 as1 IH Hcl Hin Hok He (Hconf (ns, f) x (or_introl eq_refl)) E1)
        as (-> & R1 & R2 & R3).
      inversion Hnd as [|? ? Hnotin Hnd']; subst.
      destruct (IHF vs ks2 as2 tail) as (-> & K2 & runs & S2 & L2 & V2); try assumption.
      { intros p Hp. apply HF. right. exact Hp. }
      { intros p Hp. apply Htail. right. exact Hp. }
      { cbn in Hlen. lia. }
      { intros p y Hp. apply Hconf. right. exact Hp. }
      split; [reflexivity|]. rewrite map_app. split.
      + apply Forall_app. split.
        * apply Forall_forall. intros e He'. exists (ns, f). split; [left; reflexivity|].
          rewrite forallb_forall in R1. apply R1. exact He'.
        * eapply Forall_impl; [|exact K2]. intros e (p & Hp & Hpe). exists p. split; [right; exact Hp|exact Hpe].
      + exists (map wire ks1 :: runs). cbn [split_runs]. rewrite <- app_assoc.
        rewrite (span_name_app ns (fl_name f) (map wire ks1) (map wire ks2 ++ tail) R1).
        * rewrite S2. repeat split.
          -- cbn [map combine fst snd]. rewrite R2, L2. reflexivity.
          -- intros m Hm. cbn [runs_valid]. rewrite (V2 m Hm), andb_true_r. unfold run_valid.
             rewrite (R3 m Hm), andb_true_r, occ_ok_fld, R2.
             specialize (Hconf (ns, f) x (or_introl eq_refl)). unfold field_conf6 in Hconf. cbn [snd] in Hconf.
             apply andb_prop in Hconf. exact (proj1 Hconf).
        * apply hd_is_app_false; [|apply (Htail (ns, f)); left; reflexivity].
          eapply Forall_impl; [|exact K2]. intros e (p & Hp & Hpe). cbn beta.
          eapply elt_is_other; [exact Hpe|]. intros Heq. apply Hnotin. apply in_map_iff. exists p. split; [symmetry; exact Heq|exact Hp].
  Qed.

  (* ---------------------------------------------------------------- attributes *)
  Lemma emit_field_atts e dns f x ks ats :
    emit_field e dns f x = Ok (ks, ats) ->
    match fl_kind f with
    | FElem => ats = []
    | FAttr => ks = [] /\ ((x = NNone /\ ats = [])
                          \/ exists v st s, x = NLeaf v /\ fl_ty f = DLeaf st /\ pr_leaf (st_base st) v = Ok s
                                           /\ ats = [([], fl_name f, s)])
    end.
  Proof.
    unfold emit_field. destruct (fl_kind f).
    - destruct x as [|sv|d fs|xs].
      + destruct (0 <? fl_min f); [|intros H; injection H as <- <-; reflexivity].
        destruct (e _ _ _ _ _); try discriminate. cbn. intros H. injection H as <- <-. reflexivity.
      + destruct (multi f); [discriminate|]. destruct (e _ _ _ _ _); try discriminate. cbn. intros H. injection H as <- <-. reflexivity.
      + destruct (multi f); [discriminate|]. destruct (e _ _ _ _ _); try discriminate. cbn. intros H. injection H as <- <-. reflexivity.
      + destruct (multi f).
        * destruct (mapM _ xs); try discriminate. cbn. intros H. injection H as <- <-. reflexivity.
        * destruct (e _ _ _ _ _); try discriminate. cbn. intros H. injection H as <- <-. reflexivity.
    - destruct x as [|sv|d fs|xs]; try discriminate.
      + intros H. injection H as <- <-. split; [reflexivity|]. left. split; reflexivity.
      + destruct (fl_ty f) as [st| |]; try discriminate. destruct (pr_leaf (st_base st) sv) as [s| |] eqn:Ep; try discriminate.
        cbn. intros H. injection H as <- <-. split; [reflexivity|]. right. exists sv, st, s. repeat split. exact Ep.
  Qed.

  Lemma lookup_att_app ns nm a b :
    lookup_att ns nm (a ++ b) = match lookup_att ns nm a with Some v => Some v | None => lookup_att ns nm b end.
  Proof.
    induction a as [|[[x y] z] r IH]; [reflexivity|]. cbn. destruct (text_eqb x ns && text_eqb y nm); [reflexivity|exact IH].
  Qed.

  Lemma lookup_att_some_in ns nm l v : lookup_att ns nm l = Some v -> exists a, In a l /\ snd (fst a) = nm.
  Proof.
    induction l as [|[[x y] z] r IHl]; [discriminate|]. cbn.
    destruct (text_eqb x ns && text_eqb y nm) eqn:E.
    - intros _. apply andb_prop in E. destruct E as [_ E]. apply text_eqb_true_eq in E. exists (x, y, z). split; [left; reflexivity|exact E].
    - intros H. destruct (IHl H) as (a & Ha & Hn). exists a. split; [right; exact Ha|exact Hn].
  Qed.

  (** the attributes written for the members: one per XmlAttribute member that holds a value *)
  Lemma members_atts e : forall (F : list (text * fld)) vals kids atts,
    NoDup (map (fun p => fl_name (snd p)) F) -> length vals = length F ->
    emit_members e F vals = Ok (kids, atts) ->
    (forall a, In a atts -> exists p, In p F /\ is_elem (snd p) = false /\ fst (fst a) = [] /\ snd (fst a) = fl_name (snd p))
    /\ (forall p x, In (p, x) (combine F vals) -> is_elem (snd p) = false ->
          lookup_att [] (fl_name (snd p)) atts
          = match x, fl_ty (snd p) with
            | NLeaf v, DLeaf st => Some (pr_text (st_base st) v)
            | _, _ => None
            end).
  Proof.
    induction F as [|[ns f] r IH]; intros vals kids atts Hnd Hlen Hemit.
    - cbn in Hemit. injection Hemit as <- <-. split; [intros a []|intros p x []].
    - destruct vals as [|x0 vs]; [discriminate|]. cbn [emit_members hd tl] in Hemit.
      destruct (emit_field e ns f x0) as [[ks1 as1]| |] eqn:E1; try discriminate. cbn [bind] in Hemit.
      destruct (emit_members e r vs) as [[ks2 as2]| |] eqn:E2; try discriminate. cbn [bind fst snd] in Hemit.
      injection Hemit as <- <-. inversion Hnd as [|? ? Hnotin Hnd']; subst.
      destruct (IH vs ks2 as2 Hnd' ltac:(cbn in Hlen; lia) E2) as [A1 A2].
      pose proof (emit_field_atts e ns f x0 ks1 as1 E1) as Hf.
      assert (Has1 : forall s, In s as1 -> fl_kind f = FAttr /\ fst (fst s) = [] /\ snd (fst s) = fl_name f).
      { intros s Hs. destruct (fl_kind f); [subst as1; destruct Hs|].
        destruct Hf as (_ & [[_ ->]|(v & st & t & _ & _ & _ & ->)]); [destruct Hs|].
        destruct Hs as [<-|[]]. repeat split. }
      split.
      + intros a Ha. apply in_app_iff in Ha. destruct Ha as [Ha|Ha].
        * exists (ns, f). split; [left; reflexivity|]. destruct (Has1 a Ha) as (Hk & H1 & H2).
          unfold is_elem. cbn [snd]. rewrite Hk. repeat split; assumption.
        * destruct (A1 a Ha) as (p & Hp & Hrest). exists p. split; [right; exact Hp|exact Hrest].
      + intros p x Hin Hattr. cbn [combine] in Hin. rewrite lookup_att_app. destruct Hin as [Hin|Hin].
        * injection Hin as <- <-. cbn [snd] in *.
          unfold is_elem in Hattr. destruct (fl_kind f); [discriminate|].
          destruct Hf as (_ & [[-> ->]|(v & st & t & -> & Et & Ep & ->)]).
          -- cbn [lookup_att]. destruct (lookup_att [] (fl_name f) as2) as [w|] eqn:El; [|reflexivity].
             exfalso.
             destruct (lookup_att_some_in _ _ _ _ El) as (a & Ha & Hn).
             destruct (A1 a Ha) as (p & Hp & _ & _ & Hnm). apply Hnotin. apply in_map_iff. exists p. split; [congruence|exact Hp].
          -- rewrite Et. cbn [lookup_att]. rewrite !text_eqb_same. cbn [andb]. unfold pr_text. rewrite Ep. reflexivity.
        * assert (Hl1 : lookup_att [] (fl_name (snd p)) as1 = None).
          { assert (Hp : In p r) by (eapply in_combine_l; exact Hin).
            destruct (lookup_att [] (fl_name (snd p)) as1) as [w|] eqn:El; [|reflexivity].
            exfalso. destruct (lookup_att_some_in _ _ _ _ El) as (a & Ha & Hn).
            destruct (Has1 a Ha) as (_ & _ & Hb). apply Hnotin. apply in_map_iff. exists p. split; [congruence|exact Hp]. }
          rewrite Hl1. apply A2; assumption.
  Qed.


  (* ---------------------------------------------------------------- all members of a class *)
  Lemma emit_members_app e : forall (A B : list (text * fld)) vals kids atts,
    emit_members e (A ++ B) vals = Ok (kids, atts) ->
    exists k1 a1 k2 a2,
      emit_members e A (firstn (length A) vals) = Ok (k1, a1)
      /\ emit_members e B (skipn (length A) vals) = Ok (k2, a2)
      /\ kids = k1 ++ k2 /\ atts = a1 ++ a2.
  Proof.
    induction A as [|[ns f] r IH]; intros B vals kids atts H.
    - cbn in *. exists [], [], kids, atts. repeat split. exact H.
    - cbn [app emit_members] in H.
      destruct (emit_field e ns f (hd NNone vals)) as [[ks1 as1]| |] eqn:E1; try discriminate. cbn [bind] in H.
      destruct (emit_members e (r ++ B) (tl vals)) as [[ks2 as2]| |] eqn:E2; try discriminate. cbn [bind fst snd] in H.
      injection H as <- <-. destruct (IH B (tl vals) ks2 as2 E2) as (k1 & a1 & k2 & a2 & H1 & H2 & -> & ->).
      exists (ks1 ++ k1), (as1 ++ a1), k2, a2.
      assert (Hhd : hd NNone (firstn (length ((ns, f) :: r)) vals) = hd NNone vals) by (destruct vals; reflexivity).
      assert (Htl : tl (firstn (length ((ns, f) :: r)) vals) = firstn (length r) (tl vals)).
      { destruct vals; cbn; [rewrite firstn_nil; reflexivity|reflexivity]. }
      assert (Hsk : skipn (length ((ns, f) :: r)) vals = skipn (length r) (tl vals)).
      { destruct vals; cbn; [rewrite skipn_nil; reflexivity|reflexivity]. }
      cbn [emit_members]. rewrite Hhd, Htl, Hsk, E1, H1. cbn [bind fst snd]. rewrite !app_assoc. repeat split. exact H2.
  Qed.

  Lemma NoDup_app_r {A} (a b : list A) : NoDup (a ++ b) -> NoDup b.
  Proof. induction a as [|x a IH]; [auto|]. cbn. intros H. inversion H; subst. auto. Qed.

  Lemma nodup_text_NoDup l : nodup_text l = true -> NoDup l.
  Proof.
    induction l as [|x r IH]; cbn; [constructor|]. intros H. apply andb_prop in H. destruct H as [H1 H2].
    constructor; [|apply IH; exact H2]. intros Hin. apply negb_true_iff in H1.
    assert (text_mem x r = true).
    { clear -Hin. induction r as [|y r IH]; [destruct Hin|]. cbn. destruct Hin as [->|Hin]; [rewrite text_eqb_same; reflexivity|].
      rewrite (IH Hin). apply orb_true_r. }
    congruence.
  Qed.

  Lemma count_nonempty_lens (runs : list (list xnode)) :
    count_nonempty runs = length (filter (fun n => 0 <? n) (map len_nodes runs)).
  Proof.
    unfold count_nonempty. induction runs as [|r rs IH]; [reflexivity|]. cbn [filter map].
    destruct r as [|x r]; cbn [nonempty].
    - change (len_nodes []) with 0. cbn. exact IH.
    - assert (0 <? len_nodes (x :: r) = true) as -> by (unfold len_nodes; cbn [length]; lia). cbn. f_equal. exact IH.
  Qed.

  Definition item_known (i : item) : Prop := exists cl, In cl U /\ In i (k_items cl).

  Lemma item_known_flds i f : item_known i -> In f (item_flds i) ->
    exists cl, In cl U /\ In f (k_own cl).
  Proof.
    intros (cl & Hcl & Hi) Hf. exists cl. split; [exact Hcl|]. unfold k_own. apply in_flat_map. exists i. split; assumption.
  Qed.

  Lemma item_known_wf i : item_known i ->
    match i with
    | IOne f => fld_ok (length U) f = true
    | IGroup _ ms => ms <> [] /\ forall f, In f ms -> fl_min f = 0 /\ fld_ok (length U) f = true /\ is_elem f = true
                                                  /\ fl_default f = None
    end.
  Proof.
    intros (cl & Hcl & Hi). apply In_nth_error in Hcl. destruct Hcl as [c Hc].
    destruct (klass_items_wf U c cl Hwf Hc) as (_ & Hg & Ho). destruct i as [f|g ms].
    - apply Ho. exact Hi.
    - destruct (Hg g ms Hi) as (Hne & Hel & Hm). split; [exact Hne|]. intros f Hf. destruct (Hm f Hf) as (M1 & M2 & M3).
      rewrite forallb_forall in Hel. repeat split; auto.
  Qed.

  Lemma fld_ok_max f : fld_ok (length U) f = true -> fl_min f = 0 -> True.
  Proof. trivial. Qed.

  Lemma members_match k : emit_valid_at k -> forall (L : list (text * item)) vals kids atts,
    (forall p, In p L -> item_known (snd p)) ->
    NoDup (map (fun p => fl_name (snd p)) (L_flds L)) ->
    items_conf U (vconf U extra k) (map snd L) vals = true ->
    emit_members (emit U k) (L_flds L) vals = Ok (kids, atts) ->
    Forall (fun e => exists p, In p (L_flds L) /\ elt_is (fst p) (fl_name (snd p)) e = true) (map wire kids)
    /\ groups_single L (map wire kids) = true
    /\ forall m, (k + length U < m)%nat -> items_match U (velem_m m) L (map wire kids) = true.
  Proof.
    intros IHk. induction L as [|[ns [f|g ms]] r IH]; intros vals kids atts Hkn Hnd Hconf Hemit.
    - cbn in Hemit. injection Hemit as <- <-. repeat split. constructor.
    - (* a single member *)
      cbn [map snd items_conf] in Hconf. destruct vals as [|x vs]; [discriminate|].
      apply andb_prop in Hconf. destruct Hconf as [Cf Cr].
      cbn [L_flds flat_map fst snd item_flds tagged map app] in Hemit, Hnd. fold (L_flds r) in Hemit, Hnd.
      cbn [emit_members hd tl] in Hemit.
      destruct (emit_field (emit U k) ns f x) as [[ks1 as1]| |] eqn:E1; try discriminate. cbn [bind] in Hemit.
      destruct (emit_members (emit U k) (L_flds r) vs) as [[ks2 as2]| |] eqn:E2; try discriminate. cbn [bind fst snd] in Hemit.
      injection Hemit as <- <-. inversion Hnd as [|? ? Hnotin Hnd']; subst.
      assert (Hkn' : forall p, In p r -> item_known (snd p)) by (intros p Hp; apply Hkn; right; exact Hp).
      destruct (IH vs ks2 as2 Hkn' Hnd' Cr E2) as (K2 & G2 & M2).
      pose proof (Hkn (ns, IOne f) (or_introl eq_refl)) as Hknown. cbn [snd] in Hknown.
      pose proof (item_known_wf _ Hknown) as Hok. cbn beta iota in Hok.
      destruct (item_known_flds (IOne f) f Hknown (or_introl eq_refl)) as (cl & Hcl & Hfin).
      assert (Kr : Forall (fun e => exists p, In p (L_flds ((ns, IOne f) :: r)) /\ elt_is (fst p) (fl_name (snd p)) e = true) (map wire ks2)).
      { eapply Forall_impl; [|exact K2]. intros e (p & Hp & Hpe). exists p. split; [|exact Hpe].
        cbn [L_flds flat_map fst snd item_flds tagged map app]. right. exact Hp. }
      destruct (is_elem f) eqn:He.
      + destruct (emit_field_elem k cl ns f x ks1 as1 IHk Hcl Hfin Hok He Cf E1) as (_ & R1 & R2 & R3).
        assert (Hhd : hd_is ns (fl_name f) (map wire ks2) = false).
        { rewrite <- (app_nil_r (map wire ks2)). apply hd_is_app_false; [|reflexivity].
          eapply Forall_impl; [|exact K2]. intros e (p & Hp & Hpe). cbn beta.
          eapply elt_is_other; [exact Hpe|]. intros Heq. apply Hnotin. apply in_map_iff. exists p. split; [symmetry; exact Heq|exact Hp]. }
        rewrite map_app. split; [|split].
        * apply Forall_app. split; [|exact Kr]. apply Forall_forall. intros e He'. exists (ns, f). split; [left; reflexivity|].
          rewrite forallb_forall in R1. apply R1. exact He'.
        * cbn [groups_single]. rewrite He, (span_name_app ns (fl_name f) _ _ R1 Hhd). cbn [snd]. exact G2.
        * intros m Hm. cbn [items_match]. rewrite He, (span_name_app ns (fl_name f) _ _ R1 Hhd).
          rewrite (M2 m Hm), andb_true_r. unfold run_valid. rewrite (R3 m Hm), andb_true_r, occ_ok_fld, R2.
          unfold field_conf6 in Cf. apply andb_prop in Cf. exact (proj1 Cf).
      + pose proof (emit_field_atts _ ns f x ks1 as1 E1) as Ha. pose proof He as He2. unfold is_elem in He2.
        destruct (fl_kind f); [discriminate|].
        destruct Ha as [-> _]. cbn [app]. split; [exact Kr|]. split.
        * cbn [groups_single]. rewrite He. exact G2.
        * intros m Hm. cbn [items_match]. rewrite He. apply M2. exact Hm.
    - (* a choice group *)
      cbn [map snd items_conf] in Hconf. set (n := length ms) in *. split_all.
      cbn [L_flds flat_map fst snd item_flds] in Hemit, Hnd. fold (L_flds r) in Hemit, Hnd.
      destruct (emit_members_app _ _ _ _ _ _ Hemit) as (k1 & a1 & k2 & a2 & E1 & E2 & -> & ->).
      assert (Hlt : length (tagged ns ms) = n) by (unfold tagged; rewrite map_length; reflexivity).
      rewrite Hlt in E1, E2.
      rewrite map_app in Hnd. pose proof (NoDup_app_r _ _ Hnd) as Hnd2.
      assert (Hkn' : forall p, In p r -> item_known (snd p)) by (intros p Hp; apply Hkn; right; exact Hp).
      assert (Cr : items_conf U (vconf U extra k) (map snd r) (skipn n vals) = true) by assumption.
      destruct (IH (skipn n vals) k2 a2 Hkn' Hnd2 Cr E2) as (K2 & G2 & M2).
      pose proof (Hkn (ns, IGroup g ms) (or_introl eq_refl)) as Hknown. cbn [snd] in Hknown.
      destruct (item_known_wf _ Hknown) as (Hne & Hms).
      destruct Hknown as (cl & Hcl & Hitem).
      assert (Hdisj : forall f, In f ms -> forall p, In p (L_flds r) -> fl_name f <> fl_name (snd p)).
      { intros f Hf p Hp Heq. clear -Hnd Hf Hp Heq.
        induction ms as [|f0 ms' IHm]; [destruct Hf|]. cbn [tagged map app] in Hnd. inversion Hnd as [|? ? Hn1 Hn2]; subst.
        destruct Hf as [->|Hf]; [|apply IHm; assumption].
        apply Hn1. apply in_app_iff. right. apply in_map_iff. exists p. split; [symmetry; exact Heq|exact Hp]. }
      assert (Hnd1 : NoDup (map (fun p => fl_name (snd p)) (tagged ns ms))).
      { clear -Hnd. induction ms as [|f0 ms' IHm]; [constructor|]. cbn [tagged map app] in *. inversion Hnd as [|? ? Hn1 Hn2]; subst.
        constructor; [|apply IHm; exact Hn2]. intros Hin. apply Hn1. apply in_app_iff. left. exact Hin. }
      assert (P1 : forall p, In p (tagged ns ms) -> In (snd p) (k_own cl) /\ fld_ok (length U) (snd p) = true /\ is_elem (snd p) = true).
      { intros p Hp. unfold tagged in Hp. apply in_map_iff in Hp. destruct Hp as (f & <- & Hf). cbn [snd].
        destruct (Hms f Hf) as (_ & Q2 & Q3 & _). repeat split; try assumption.
        unfold k_own. apply in_flat_map. exists (IGroup g ms). split; [exact Hitem|exact Hf]. }
      assert (P2 : forall p, In p (tagged ns ms) -> hd_is (fst p) (fl_name (snd p)) (map wire k2) = false).
      { intros p Hp. unfold tagged in Hp. apply in_map_iff in Hp. destruct Hp as (f & <- & Hf). cbn [fst snd].
        rewrite <- (app_nil_r (map wire k2)). apply hd_is_app_false; [|reflexivity].
        eapply Forall_impl; [|exact K2]. intros e (q & Hq & Hqe). cbn beta.
        eapply elt_is_other; [exact Hqe|]. apply Hdisj; assumption. }
      assert (P3 : length (firstn n vals) = length (tagged ns ms)).
      { rewrite Hlt. match goal with H : (length (firstn n vals) =? n)%nat = true |- _ => apply Nat.eqb_eq in H; exact H end. }
      assert (P4 : forall p x, In (p, x) (combine (tagged ns ms) (firstn n vals)) -> field_conf6 U (vconf U extra k) (snd p) x = true).
      { intros p x Hpx. unfold tagged in Hpx.
        match goal with H : forallb _ (combine ms (firstn n vals)) = true |- _ => rewrite forallb_forall in H; rename H into Hall end.
        destruct p as [ns' f]. cbn [snd].
        assert (Hfx : In (f, x) (combine ms (firstn n vals))).
        { clear -Hpx. revert Hpx. generalize (firstn n vals). induction ms as [|f0 ms' IHm]; intros l Hpx; [destruct Hpx|].
          destruct l as [|y l]; [destruct Hpx|]. cbn [map combine] in *. destruct Hpx as [H|H]; [injection H as _ <- <-; left; reflexivity|right; apply IHm; exact H]. }
        exact (Hall (f, x) Hfx). }
      destruct (fields_runs k cl IHk Hcl (tagged ns ms) (firstn n vals) k1 a1 (map wire k2) P1 Hnd1 P2 P3 P4 E1) as (_ & K1 & runs & S1 & L1 & V1).
      rewrite map_app. split; [|split].
      + apply Forall_app. split.
        * eapply Forall_impl; [|exact K1]. intros e (p & Hp & Hpe). exists p. split; [apply in_app_iff; left; exact Hp|exact Hpe].
        * eapply Forall_impl; [|exact K2]. intros e (p & Hp & Hpe). exists p. split; [apply in_app_iff; right; exact Hp|exact Hpe].
      + cbn [groups_single]. rewrite S1. cbn [fst snd]. rewrite G2, andb_true_r. apply Nat.leb_le.
        rewrite count_nonempty_lens, L1.
        match goal with H : (Z.of_nat (length (filter _ (combine ms (firstn n vals)))) <=? 1) = true |- _ => rename H into Hcnt end.
        assert (Hfl : forall (l : list value),
                  length (filter (fun n0 => 0 <? n0) (map (fun px => occ6 (snd (fst px)) (snd px)) (combine (tagged ns ms) l)))
                  = length (filter (fun fx => 0 <? occ6 (fst fx) (snd fx)) (combine ms l))).
        { clear. induction ms as [|f0 ms' IHm]; intros l; [reflexivity|]. destruct l as [|y l]; [reflexivity|].
          cbn [tagged map combine filter fst snd]. fold (tagged ns ms'). destruct (0 <? occ6 f0 y); cbn [length]; rewrite IHm; reflexivity. }
        rewrite Hfl. lia.
      + intros m Hm. cbn [items_match]. rewrite S1. rewrite (V1 m Hm), (M2 m Hm). reflexivity.
  Qed.

End Emitted.
