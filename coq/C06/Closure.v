(** C06 — a decidable check that a schema defines everything a universe refers to, exactly as
    the emitter model writes it ([resolves_b]).  Definitions only. *)
From SpyneV Require Export C06.Check C06.Spec.

Definition find_type_is (S : schema) (q : qname) (t : tdef) : bool :=
  match find_type S q with Some t' => tdef_eqb t' t | None => false end.

Definition klass_resolves (S : schema) (U : univ) (cl : klass) : bool :=
  match find_doc S (k_ns cl) with
  | Some d =>
      d_qualified d
      && find_type_is S (k_ns cl, k_name cl) (TComplex (cdef_of U cl))
      && match assoc_text (k_name cl) (d_elems d) with
         | Some q => qname_eqb q (k_ns cl, k_name cl)
         | None => false
         end
  | None => false
  end.

Definition ty_resolves (S : schema) (U : univ) (t : dty) : bool :=
  match t with
  | DLeaf st =>
      if published st then
        match st_qn st with
        | Some q => find_type_is S q (TSimple (mksdef (snd q) (xs_ns, base_name (st_base st)) (restriction_of st)))
        | None => false
        end
      else true
  | DRef _ => true
  | DArr aq iname e =>
      match find_doc S (fst aq) with
      | Some d => d_qualified d
                  && find_type_is S aq (TComplex (mkcdef (snd aq) None [PElem (edecl_of U iname e 0 PosInf true None)] []))
      | None => false
      end
  end.

Definition resolves_b (S : schema) (U : univ) : bool :=
  forallb (klass_resolves S U) U && forallb (ty_resolves S U) (tys_of U).
