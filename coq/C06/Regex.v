(** Language membership for the regular-expression fragment of C06/Syntax.v, by Brzozowski
    derivatives.  Definitions only. *)
From SpyneV Require Export C06.Syntax.

Fixpoint nullable (r : re) : bool :=
  match r with
  | RNul => false | REps => true | RAny => false | RChr _ => false | RRange _ _ => false
  | RSeq a b => nullable a && nullable b
  | RAlt a b => nullable a || nullable b
  | RStar _ => true
  end.

Fixpoint deriv (c : Z) (r : re) : re :=
  match r with
  | RNul => RNul | REps => RNul
  | RAny => if c =? 10 then RNul else REps          (* '.' does not match a newline in either dialect *)
  | RChr d => if c =? d then REps else RNul
  | RRange lo hi => if (lo <=? c) && (c <=? hi) then REps else RNul
  | RSeq a b => if nullable a then RAlt (RSeq (deriv c a) b) (deriv c b) else RSeq (deriv c a) b
  | RAlt a b => RAlt (deriv c a) (deriv c b)
  | RStar a => RSeq (deriv c a) (RStar a)
  end.

Fixpoint re_match (r : re) (s : text) : bool :=
  match s with
  | [] => nullable r
  | c :: rest => re_match (deriv c r) rest
  end.
