(** C06 — leaf level: the simple type Spyne publishes for a customised integer / string /
    boolean class accepts exactly the literals soft validation accepts, and accepts what Spyne
    writes for every value that satisfies the declared constraints. *)
From Coq Require Import ZArith List Bool Lia ZifyBool Btauto.
From SpyneV Require Import Base.DigitsProofs C08.IntProofs C05.Valid C05.Proofs C06.Spec.
Import ListNotations.
Open Scope Z_scope.

(* ------------------------------------------------------------------ XML whitespace *)
Lemma drop_xws_nonws c l : is_xws c = false -> drop_xws (c :: l) = c :: l.
Proof. intros H. cbn. rewrite H. reflexivity. Qed.

Lemma xs_trim_id l c d m :
  is_xws c = false -> is_xws d = false -> l = [c] \/ l = c :: m ++ [d] -> xs_trim l = l.
Proof.
  intros Hc Hd [->| ->]; unfold xs_trim.
  - rewrite drop_xws_nonws by assumption. cbn [rev app]. rewrite drop_xws_nonws by assumption. reflexivity.
  - rewrite drop_xws_nonws by assumption.
    cbn [rev]. rewrite rev_app_distr. cbn [rev app]. rewrite drop_xws_nonws by assumption.
    cbn [rev]. rewrite rev_app_distr, rev_involutive. reflexivity.
Qed.

Lemma digit_not_xws c : is_digit c = true -> is_xws c = false.
Proof. unfold is_digit, is_xws. lia. Qed.

Lemma xs_trim_str_nat n : 0 <= n -> xs_trim (str_nat n) = str_nat n.
Proof.
  intros Hn. destruct (str_nat_head n Hn) as (c & m & Hcm & Hc).
  destruct (str_nat_last n Hn) as (m' & d & Hmd & Hd).
  destruct m as [|x m].
  - apply (xs_trim_id _ c c []); auto using digit_not_xws.
  - assert (exists m2, str_nat n = c :: m2 ++ [d]) as [m2 H2].
    { rewrite Hcm in Hmd. destruct m' as [|y m'']; [discriminate|]. cbn in Hmd. injection Hmd as -> Hm.
      exists m''. rewrite Hcm, Hm. reflexivity. }
    apply (xs_trim_id _ c d m2); auto using digit_not_xws.
Qed.

Lemma xs_trim_str_int z : xs_trim (str_int z) = str_int z.
Proof.
  unfold str_int. destruct (z <? 0) eqn:E; [|apply xs_trim_str_nat; lia].
  destruct (str_nat_last (- z) ltac:(lia)) as (m' & d & Hmd & Hd).
  apply (xs_trim_id _ 45 d m'); auto using digit_not_xws. right. rewrite Hmd. reflexivity.
Qed.

Lemma den_str_int z : den_integer (str_int z) = z.
Proof.
  pose proof (int_of_text_xs _ (str_int_xs z)) as H. rewrite int_of_text_str_int in H. congruence.
Qed.

Section Leaf.
  Variable pat : text -> option re.
  Variable olex : okind -> text -> option Z.

  Lemma xs_value_int_canon lo hi z :
    xs_value olex (XInt lo hi) (str_int z)
    = if ext_leb lo (Fin z) && ext_leb (Fin z) hi then Some (SInt z) else None.
  Proof. cbn [xs_value]. rewrite xs_trim_str_int, str_int_xs, den_str_int. reflexivity. Qed.

  Lemma nonneg_of_text_str_int n : 0 <= n -> nonneg_of_text (str_int n) = Some n.
  Proof.
    intros Hn. unfold nonneg_of_text. rewrite xs_trim_str_int, str_int_xs, den_str_int.
    destruct (0 <=? n) eqn:E; [reflexivity|lia].
  Qed.
End Leaf.

(* ------------------------------------------------------------------ general facts on facet lists *)
Section Facets.
  Variable pat : text -> option re.
  Variable olex : okind -> text -> option Z.

  Lemma filter_app_enum (a b : list (ftag * text)) : filter is_enum (a ++ b) = filter is_enum a ++ filter is_enum b.
  Proof. apply filter_app. Qed.

  Definition enum_ok (b : xbase) (v : sval) (enums : list (ftag * text)) : bool :=
    match enums with
    | [] => true
    | _ => existsb (fun f => match xs_value olex b (snd f) with Some w => sval_eqb v w | None => false end) enums
    end.
  Lemma facets_ok_eq b s v fs :
    facets_ok pat olex b s v fs = enum_ok b v (filter is_enum fs) && forallb (facet_ok pat olex b s v) fs.
  Proof. reflexivity. Qed.

  Lemma filter_enum_map_enum (f : sval -> text) vals :
    filter is_enum (map (fun v => (enumeration_tag, f v)) vals) = map (fun v => (T_enumeration, f v)) vals.
  Proof. induction vals as [|x r IH]; cbn; [reflexivity|]. rewrite IH. reflexivity. Qed.
  Lemma forallb_enum_map b s v (f : sval -> text) vals :
    forallb (facet_ok pat olex b s v) (map (fun w => (enumeration_tag, f w)) vals) = true.
  Proof. induction vals as [|x r IH]; cbn; [reflexivity|exact IH]. Qed.
End Facets.

(** the range part of validate_native, attribute by attribute *)
Definition attr_sem (a : rattr) (g v : sval) : bool :=
  match a with
  | A_gt => sval_ltb g v | A_ge => sval_leb g v | A_lt => sval_ltb v g | A_le => sval_leb v g
  | _ => true
  end.
Lemma range_ok_attrs f v :
  range_ok f v = forallb (fun a => match attr_value f a with Some g => attr_sem a g v | None => true end) [A_gt; A_ge; A_lt; A_le].
Proof. unfold range_ok. cbn. rewrite andb_true_r, !andb_assoc. reflexivity. Qed.

(** two values the order and the equality of the value space cannot tell apart (a literal and
    the value it was written from) *)
Definition sval_equiv (a b : sval) : Prop :=
  (forall v, sval_cmp a v = sval_cmp b v) /\ (forall v, sval_cmp v a = sval_cmp v b)
  /\ (forall v, sval_eqb v a = sval_eqb v b) /\ (forall v, sval_eqb a v = sval_eqb b v).
Lemma sval_equiv_refl a : sval_equiv a a.
Proof. repeat split. Qed.

Section RangeWriter.
  Variable pat : text -> option re.
  Variable olex : okind -> text -> option Z.

  (** the literal Spyne writes for a facet value denotes that value in the published base type *)
  Definition lex_rt (b : lbase) (g : sval) : Prop :=
    exists g', xs_value olex (xbase_of b) (schema_text b g) = Some g' /\ sval_equiv g' g.

  Lemma facet_piece b f s v v' a t :
    In (a, t) [(A_gt, T_minExclusive); (A_ge, T_minInclusive); (A_lt, T_maxExclusive); (A_le, T_maxInclusive)] ->
    (forall g, attr_value f a = Some g -> lex_rt b g) -> sval_equiv v' v ->
    forallb (facet_ok pat olex (xbase_of b) s v') (table_facet b f (a, t))
    = match attr_value f a with Some g => attr_sem a g v | None => true end.
  Proof.
    intros Hin Hrt (E1 & E2 & _).
    assert (Ha : a = A_gt \/ a = A_ge \/ a = A_lt \/ a = A_le).
    { cbn in Hin. intuition congruence. }
    unfold table_facet.
    destruct (attr_value f a) as [g|] eqn:Eg.
    - destruct (Hrt g eq_refl) as (g' & Hx & G1 & G2 & _).
      cbn in Hin.
      destruct Hin as [H|[H|[H|[H|[]]]]]; injection H as <- <-; cbn [forallb facet_ok attr_sem]; rewrite Hx, andb_true_r;
        unfold sval_ltb, sval_leb; rewrite ?E1, ?E2, ?G1, ?G2; try reflexivity;
        rewrite G1 || rewrite G2; rewrite ?E1, ?E2; reflexivity.
    - destruct Ha as [->|[->|[->| ->]]]; reflexivity.
  Qed.
End RangeWriter.

Section RangeWriter2.
  Variable pat : text -> option re.
  Variable olex : okind -> text -> option Z.

  Lemma attr_value_in f a g : attr_value f a = Some g -> In g (facet_values f).
  Proof.
    unfold facet_values, attr_value, opt_list.
    destruct a; try discriminate; intros H; rewrite H; rewrite ?in_app_iff; cbn; auto 10.
  Qed.

  (** Gen/XsdEmit.range_facets pairs each Attributes member with the facet of the same meaning *)
  Lemma range_table_ok b f s v v' :
    fa_pattern f = None ->
    (forall g, In g (facet_values f) -> lex_rt olex b g) -> sval_equiv v' v ->
    forallb (facet_ok pat olex (xbase_of b) s v') (flat_map (table_facet b f) range_facets) = range_ok f v.
  Proof.
    intros Hp Hrt Heq. unfold range_facets. cbn [flat_map]. rewrite !forallb_app.
    rewrite !(facet_piece pat olex b f s v v') by (try (cbn; tauto); try assumption; intros g Hg; apply Hrt; eapply attr_value_in; eassumption).
    unfold table_facet at 1. rewrite Hp. cbn [forallb app]. rewrite range_ok_attrs. cbn [forallb]. rewrite !andb_true_r, !andb_assoc. reflexivity.
  Qed.

  Lemma enum_exists b v v' l :
    (forall g, In g l -> lex_rt olex b g) -> sval_equiv v' v ->
    existsb (fun f : ftag * text => match xs_value olex (xbase_of b) (snd f) with Some w => sval_eqb v' w | None => false end)
            (map (fun w => (T_enumeration, schema_text b w)) l)
    = existsb (sval_eqb v) l.
  Proof.
    intros Hrt (_ & _ & _ & E4). induction l as [|x r IH]; [reflexivity|].
    cbn [map existsb snd]. destruct (Hrt x (or_introl eq_refl)) as (x' & Hx & _ & _ & X3 & _).
    rewrite Hx, X3, E4. f_equal. apply IH. intros g Hg. apply Hrt. right. exact Hg.
  Qed.

  Lemma enum_values_ok b f v v' :
    (forall g, In g (fa_values f) -> lex_rt olex b g) -> sval_equiv v' v ->
    enum_ok olex (xbase_of b) v' (map (fun w => (T_enumeration, schema_text b w)) (fa_values f)) = values_ok f v.
  Proof.
    intros Hrt Heq. unfold values_ok, enum_ok.
    destruct (fa_values f) as [|w ws] eqn:Ev; [reflexivity|].
    rewrite <- (enum_exists b v v' (w :: ws) Hrt Heq). reflexivity.
  Qed.

  Lemma digit_table_ok b f s v' :
    nonneg_opt (fa_total_digits f) = true -> nonneg_opt (fa_fraction_digits f) = true ->
    forallb (facet_ok pat olex (xbase_of b) s v') (flat_map (table_facet b f) decimal_digit_facets)
    = match fa_total_digits f with
      | Some n => match value_digits v' with Some (td, _) => td <=? n | None => false end
      | None => true
      end
      && match fa_fraction_digits f with
         | Some n => match value_digits v' with Some (_, fd) => fd <=? n | None => false end
         | None => true
         end.
  Proof.
    intros H1 H2. unfold decimal_digit_facets. cbn [flat_map table_facet]. rewrite app_nil_r, forallb_app.
    f_equal.
    - destruct (fa_total_digits f) as [n|]; [|reflexivity]. cbn [forallb facet_ok].
      cbn in H1. rewrite nonneg_of_text_str_int by lia. rewrite andb_true_r. reflexivity.
    - destruct (fa_fraction_digits f) as [n|]; [|reflexivity]. cbn [forallb facet_ok].
      cbn in H2. rewrite nonneg_of_text_str_int by lia. rewrite andb_true_r. reflexivity.
  Qed.
End RangeWriter2.

Lemma is_some_false {A} (o : option A) : is_some o = false -> o = None.
Proof. destruct o; [discriminate|reflexivity]. Qed.
Lemma is_none_true {A} (o : option A) : is_none o = true -> o = None.
Proof. destruct o; [discriminate|reflexivity]. Qed.

Definition range_writer (b : lbase) : bool :=
  match writer_of b with WRangeDecimal | WRangeTime => true | _ => false end.

(** a range class that is 'default' has no range, enumeration or digit customisation *)
Lemma unpublished_range st :
  range_writer (st_base st) = true -> published st = false ->
  (writer_of (st_base st) = WRangeTime -> fa_total_digits (st_fa st) = None /\ fa_fraction_digits (st_fa st) = None) ->
  let f := st_fa st in
  fa_gt f = None /\ fa_ge f = None /\ fa_lt f = None /\ fa_le f = None /\ fa_values f = []
  /\ fa_total_digits f = None /\ fa_fraction_digits f = None.
Proof.
  destruct st as [b f q]. cbn [st_base st_fa]. unfold published, range_writer. cbn [st_base st_fa].
  intros Hw Hp Ht.
  assert (Hv : forall l, existsb (attr_set f) l = false -> forall a, In a l -> attr_set f a = false).
  { intros l Hl a Ha. rewrite <- not_true_iff_false. intros Hc.
    assert (existsb (attr_set f) l = true) by (apply existsb_exists; eauto). congruence. }
  specialize (Hv _ Hp).
  assert (values_nil : attr_set f A_values = false -> fa_values f = []).
  { cbn. destruct (fa_values f); [reflexivity|discriminate]. }
  destruct b as [k| | | |k]; try discriminate Hw; try destruct k; try discriminate Hw; cbn in Hv;
    repeat split;
    try (apply is_some_false; apply (Hv A_gt); cbn; tauto);
    try (apply is_some_false; apply (Hv A_ge); cbn; tauto);
    try (apply is_some_false; apply (Hv A_lt); cbn; tauto);
    try (apply is_some_false; apply (Hv A_le); cbn; tauto);
    try (apply values_nil; apply (Hv A_values); cbn; tauto);
    try (apply is_some_false; apply (Hv A_total_digits); cbn; tauto);
    try (apply is_some_false; apply (Hv A_fraction_digits); cbn; tauto);
    try (apply Ht; reflexivity).
Qed.

Section RangeWriter3.
  Variable pat : text -> option re.
  Variable olex : okind -> text -> option Z.

  Lemma table_facet_no_enum b f a t : t <> T_enumeration -> filter is_enum (table_facet b f (a, t)) = [].
  Proof.
    intros Ht. unfold table_facet.
    assert (E : is_enum (t, @nil Z) = false) by (unfold is_enum; cbn; destruct t; try reflexivity; congruence).
    assert (forall x, is_enum (t, x) = false) as E' by (intros x; unfold is_enum in *; exact E).
    destruct a; try reflexivity;
      repeat match goal with |- context [match ?o with _ => _ end] => destruct o end; cbn; rewrite ?E'; try reflexivity.
  Qed.

  Definition digits_ok (f : facets) (v' : sval) : bool :=
    match fa_total_digits f with
    | Some n => match value_digits v' with Some (td, _) => td <=? n | None => false end
    | None => true
    end
    && match fa_fraction_digits f with
       | Some n => match value_digits v' with Some (_, fd) => fd <=? n | None => false end
       | None => true
       end.

  (** what the published restriction of a range class says about a literal that denotes [v] *)
  Lemma range_facets_spec st s v v' :
    let b := st_base st in let f := st_fa st in
    range_writer b = true -> fa_pattern f = None ->
    (writer_of b = WRangeTime -> fa_total_digits f = None /\ fa_fraction_digits f = None) ->
    nonneg_opt (fa_total_digits f) = true -> nonneg_opt (fa_fraction_digits f) = true ->
    (forall g, In g (facet_values f) -> lex_rt olex b g) -> sval_equiv v' v ->
    facets_ok pat olex (xbase_of b) s v' (st_facets st) = range_ok f v && values_ok f v && digits_ok f v'.
  Proof.
    intros b f Hw Hp Ht Hn1 Hn2 Hrt Heq. unfold st_facets.
    destruct (published st) eqn:Epub.
    - unfold restriction_of. fold b f. rewrite facets_ok_eq.
      assert (Hvals : forall g, In g (fa_values f) -> lex_rt olex b g).
      { intros g Hg. apply Hrt. unfold facet_values. rewrite !in_app_iff. auto 10. }
      unfold range_writer in Hw.
      destruct (writer_of b) eqn:Ew; try discriminate Hw.
      + rewrite filter_app, filter_enum_map_enum, forallb_app, forallb_enum_map.
        rewrite filter_app. unfold range_facets at 1, decimal_digit_facets at 1. cbn [flat_map].
        rewrite !filter_app, !table_facet_no_enum by discriminate. cbn [app]. rewrite app_nil_r.
        rewrite (enum_values_ok olex b f v v' Hvals Heq).
        rewrite forallb_app, (range_table_ok pat olex b f s v v' Hp Hrt Heq), digit_table_ok by assumption.
        unfold digits_ok. cbn [andb]. rewrite !andb_assoc. rewrite (andb_comm (values_ok f v)). reflexivity.
      + destruct (Ht eq_refl) as [T1 T2].
        rewrite filter_app, filter_enum_map_enum, forallb_app, forallb_enum_map.
        unfold range_facets at 1. cbn [flat_map].
        rewrite !filter_app, !table_facet_no_enum by discriminate. cbn [app]. rewrite app_nil_r.
        rewrite (enum_values_ok olex b f v v' Hvals Heq).
        rewrite (range_table_ok pat olex b f s v v' Hp Hrt Heq).
        unfold digits_ok. rewrite T1, T2. cbn [andb]. rewrite andb_true_r, (andb_comm (values_ok f v)). reflexivity.
    - destruct (unpublished_range st Hw Epub Ht) as (G1 & G2 & G3 & G4 & G5 & G6 & G7). fold f in G1, G2, G3, G4, G5, G6, G7.
      unfold range_ok, values_ok, digits_ok. rewrite G1, G2, G3, G4, G5, G6, G7. reflexivity.
  Qed.
End RangeWriter3.

(* ------------------------------------------------------------------ integers *)
Lemma int_class_fixed s b :
  wf_ikind (KFixed s b) = true -> In (s, b, int_class (KFixed s b)) bounded_int_classes.
Proof.
  intros Hw. unfold int_class.
  destruct (find (fun '(s', b', _) => Bool.eqb s s' && (b =? b')) bounded_int_classes) as [[[s' b'] T]|] eqn:E.
  - apply find_some in E. destruct E as [Hin Hp]. apply andb_prop in Hp. destruct Hp as [H1 H2].
    apply eqb_prop in H1. apply Z.eqb_eq in H2. subst. exact Hin.
  - exfalso. cbn in Hw. rewrite !orb_true_iff in Hw.
    destruct Hw as [H|[H|[H|[H|H]]]]; try discriminate H; apply Z.eqb_eq in H; subst b; destruct s; cbn in E; discriminate E.
Qed.

Lemma int_class_vn k a z :
  wf_ikind k = true -> it_vn (int_class k) a z = conforms_int (fst (ibounds k)) (snd (ibounds k)) a z.
Proof.
  intros Hw. destruct k as [| |s b].
  - apply integer_native_is_spec.
  - apply unsigned_native_is_spec.
  - pose proof bounded_native_is_spec as H. rewrite Forall_forall in H.
    specialize (H _ (int_class_fixed s b Hw)). cbn beta iota in H. apply H.
Qed.

Lemma int_class_vs k a n :
  wf_ikind k = true -> it_vs (int_class k) a n = ext_leb (Fin n) (na_max_str_len a).
Proof.
  intros Hw. destruct k as [| |s b]; [reflexivity|reflexivity|].
  cbn in Hw. rewrite !orb_true_iff in Hw.
  destruct Hw as [H|[H|[H|[H|H]]]]; try discriminate H; apply Z.eqb_eq in H; subst b; destruct s; reflexivity.
Qed.

Lemma builtin_int k : wf_ikind k = true -> builtin (base_name (BInt k)) = Some (xbase_of (BInt k)).
Proof.
  intros Hw. destruct k as [| |s b]; [reflexivity|reflexivity|].
  cbn in Hw. rewrite !orb_true_iff in Hw.
  destruct Hw as [H|[H|[H|[H|H]]]]; try discriminate H; apply Z.eqb_eq in H; subst b; destruct s; reflexivity.
Qed.

Ltac split_all := repeat match goal with H : (_ && _) = true |- _ => apply andb_prop in H; destruct H end.

Lemma wf_int st k :
  st_base st = BInt k -> wf_stype st = true ->
  wf_ikind k = true /\ fa_pattern (st_fa st) = None /\ fa_fraction_digits (st_fa st) = None
  /\ nonneg_opt (fa_total_digits (st_fa st)) = true
  /\ (forall g, In g (facet_values (st_fa st)) -> in_space (BInt k) g = true).
Proof.
  intros Hb Hwf. unfold wf_stype in Hwf. rewrite Hb in Hwf. split_all.
  repeat split; try assumption; try (apply is_none_true; assumption).
  match goal with H : forallb _ _ = true |- _ => rewrite forallb_forall in H; exact H end.
Qed.

Section IntLeaf.
  Variable pat : text -> option re.
  Variable olex : okind -> text -> option Z.
  Variable ord : okind -> text -> out Z.

  Lemma int_lex_rt k g : in_space (BInt k) g = true -> lex_rt olex (BInt k) g.
  Proof.
    unfold in_space. destruct g as [z| | | |]; try discriminate. cbn [kind_ok andb].
    destruct (ibounds k) as [l h] eqn:Eb. intros Hin.
    exists (SInt z). split; [|apply sval_equiv_refl].
    cbn [xbase_of]. rewrite Eb. cbn [schema_text pr_text pr_leaf]. unfold integer_to_unicode.
    rewrite xs_value_int_canon, Hin. reflexivity.
  Qed.

  Definition zdigits (z : Z) : Z := if z =? 0 then 1 else len (str_nat (Z.abs z)).

  (** the published simple type of a customised integer class accepts the decimal text of [z]
      iff z lies in the value space of the class and satisfies gt/ge/lt/le, values and
      total_digits *)
  Lemma int_xsd_spec st k z :
    st_base st = BInt k -> wf_stype st = true ->
    st_simple_ok pat olex st (str_int z)
    = in_space (BInt k) (SInt z) && range_ok (st_fa st) (SInt z) && values_ok (st_fa st) (SInt z)
      && match fa_total_digits (st_fa st) with Some n => zdigits z <=? n | None => true end.
  Proof.
    intros Hb Hwf. destruct (wf_int st k Hb Hwf) as (Hk & Hp & Hfd & Htd & Hsp).
    unfold st_simple_ok. rewrite Hb. unfold in_space. cbn [kind_ok andb xbase_of].
    destruct (ibounds k) as [l h] eqn:Eb.
    rewrite xs_value_int_canon.
    destruct (ext_leb l (Fin z) && ext_leb (Fin z) h) eqn:Ein; [|reflexivity].
    cbn [andb].
    assert (Hx : XInt l h = xbase_of (st_base st)) by (rewrite Hb; cbn; rewrite Eb; reflexivity).
    rewrite Hx.
    rewrite (range_facets_spec pat olex st (str_int z) (SInt z) (SInt z)).
    - unfold digits_ok. rewrite Hfd. cbn [value_digits]. rewrite andb_true_r. reflexivity.
    - rewrite Hb. reflexivity.
    - assumption.
    - rewrite Hb. discriminate.
    - assumption.
    - rewrite Hfd. reflexivity.
    - intros g Hg. rewrite Hb. apply int_lex_rt. apply Hsp. exact Hg.
    - apply sval_equiv_refl.
  Qed.
End IntLeaf.

Lemma sval_ltb_int a b : sval_ltb (SInt a) (SInt b) = (a <? b).
Proof. reflexivity. Qed.
Lemma sval_leb_int a b : sval_leb (SInt a) (SInt b) = (a <=? b).
Proof. unfold sval_leb, Z.leb. cbn. destruct (a ?= b); reflexivity. Qed.
Lemma sval_eqb_int a b : sval_eqb (SInt a) (SInt b) = (a =? b).
Proof. unfold sval_eqb. cbn. rewrite Z.eqb_compare. reflexivity. Qed.

Section IntSoft.
  Variable ord : okind -> text -> out Z.

  Lemma zvalues_exists z l :
    Forall (fun g => exists x, g = SInt x) l ->
    existsb (Z.eqb z) (zvalues l) = existsb (sval_eqb (SInt z)) l.
  Proof.
    induction 1 as [|g r [x ->] _ IH]; [reflexivity|].
    cbn [zvalues flat_map app existsb]. fold (zvalues r). rewrite IH.
    unfold sval_eqb at 1. cbn [sval_cmp]. rewrite Z.eqb_compare. reflexivity.
  Qed.
  Lemma zvalues_nil l : Forall (fun g => exists x, g = SInt x) l -> zvalues l = [] -> l = [].
  Proof. destruct 1 as [|g r [x ->] _]; [reflexivity|discriminate]. Qed.

  Lemma in_space_int k g : in_space (BInt k) g = true -> exists x, g = SInt x.
  Proof. destruct g; try discriminate. eauto. Qed.

  (** validate_native of the customised integer class = the declared constraints *)
  Lemma conforms_int_facets st k nil z :
    st_base st = BInt k -> wf_stype st = true ->
    conforms_int (fst (ibounds k)) (snd (ibounds k)) (num_attrs_of (int_class k) (st_fa st) nil) z
    = in_space (BInt k) (SInt z) && range_ok (st_fa st) (SInt z) && values_ok (st_fa st) (SInt z).
  Proof.
    intros Hb Hwf. destruct (wf_int st k Hb Hwf) as (Hk & Hp & Hfd & Htd & Hsp).
    set (f := st_fa st) in *.
    assert (Hint : forall o, (forall g, o = Some g -> In g (facet_values f)) -> o = None \/ exists x, o = Some (SInt x)).
    { intros [g|] H; [right|left; reflexivity]. destruct (in_space_int k g (Hsp g (H g eq_refl))) as [x ->]. eauto. }
    assert (Hgt := Hint (fa_gt f) (fun g H => attr_value_in f A_gt g H)).
    assert (Hge := Hint (fa_ge f) (fun g H => attr_value_in f A_ge g H)).
    assert (Hlt := Hint (fa_lt f) (fun g H => attr_value_in f A_lt g H)).
    assert (Hle := Hint (fa_le f) (fun g H => attr_value_in f A_le g H)).
    assert (Hvals : Forall (fun g => exists x, g = SInt x) (fa_values f)).
    { apply Forall_forall. intros g Hg. apply (in_space_int k). apply Hsp. unfold facet_values. rewrite !in_app_iff. auto 10. }
    assert (Ev : in_values (zvalues (fa_values f)) z = values_ok f (SInt z)).
    { unfold in_values, values_ok. rewrite (zvalues_exists z _ Hvals).
      destruct (fa_values f) as [|g r] eqn:E; [reflexivity|]. destruct (zvalues (g :: r)) eqn:E2; [|reflexivity].
      apply zvalues_nil in E2; [discriminate|exact Hvals]. }
    unfold conforms_int, num_attrs_of, in_space, range_ok. cbn [na_gt na_ge na_lt na_le na_values kind_ok andb].
    rewrite Ev. generalize (values_ok f (SInt z)). intros V.
    destruct (ibounds k) as [l h]. cbn [fst snd].
    generalize (ext_leb l (Fin z)) (ext_leb (Fin z) h). intros B1 B2.
    destruct Hgt as [->|[x1 ->]], Hge as [->|[x2 ->]], Hlt as [->|[x3 ->]], Hle as [->|[x4 ->]];
      cbn [ext_of ext_ltb ext_leb]; rewrite ?sval_ltb_int, ?sval_leb_int; btauto.
  Qed.

  (** soft validation of the decimal text of [z] in a customised integer class: accepted iff
      z lies in the value space and satisfies gt/ge/lt/le and values (and the text is not longer
      than max_str_len) *)
  Lemma int_soft_spec st k nil z :
    st_base st = BInt k -> wf_stype st = true ->
    ext_leb (Fin (len (str_int z))) (fa_max_str_len (st_fa st)) = true ->
    soft_leaf ord st nil (Some (str_int z))
    = if in_space (BInt k) (SInt z) && range_ok (st_fa st) (SInt z) && values_ok (st_fa st) (SInt z)
      then Ok tt else VFault.
  Proof.
    intros Hb Hwf Hlen. destruct (wf_int st k Hb Hwf) as (Hk & _).
    unfold soft_leaf. rewrite Hb.
    rewrite (int_class_vs k _ _ Hk). cbn [na_max_str_len num_attrs_of]. rewrite Hlen. cbn [negb].
    change (str_int z) with (integer_to_unicode z).
    rewrite integer_roundtrip by (cbn [na_max_str_len num_attrs_of]; exact Hlen).
    rewrite (int_class_vn k _ _ Hk), (conforms_int_facets st k nil z Hb Hwf). reflexivity.
  Qed.
End IntSoft.

(* ------------------------------------------------------------------ strings *)
Lemma text_eqb_true_eq a b : text_eqb a b = true -> a = b.
Proof. revert b. induction a as [|x a IH]; destruct b as [|y b]; cbn; try discriminate; [reflexivity|].
  intros H. apply andb_prop in H. destruct H as [H1 H2]. apply Z.eqb_eq in H1. subst. f_equal. apply IH. exact H2. Qed.
Lemma text_eqb_same a : text_eqb a a = true.
Proof. induction a as [|x a IH]; cbn; [reflexivity|]. rewrite Z.eqb_refl. exact IH. Qed.

Lemma wf_str st uri :
  st_base st = BStr uri -> wf_stype st = true ->
  nonneg_opt (fa_min_len (st_fa st)) = true /\ nonneg_opt (fa_max_len (st_fa st)) = true
  /\ fa_gt (st_fa st) = None /\ fa_ge (st_fa st) = None /\ fa_lt (st_fa st) = None /\ fa_le (st_fa st) = None
  /\ (forall g, In g (fa_values (st_fa st)) -> in_space (BStr uri) g = true).
Proof.
  intros Hb Hwf. unfold wf_stype in Hwf. rewrite Hb in Hwf. split_all.
  assert (G1 : fa_gt (st_fa st) = None) by (apply is_none_true; assumption).
  assert (G2 : fa_ge (st_fa st) = None) by (apply is_none_true; assumption).
  assert (G3 : fa_lt (st_fa st) = None) by (apply is_none_true; assumption).
  assert (G4 : fa_le (st_fa st) = None) by (apply is_none_true; assumption).
  repeat split; try assumption.
  match goal with H : forallb _ (facet_values _) = true |- _ => rewrite forallb_forall in H; rename H into HF end.
  intros g Hg. apply HF. unfold facet_values. rewrite !in_app_iff. auto 10.
Qed.

Lemma unpublished_str st uri :
  st_base st = BStr uri -> published st = false ->
  fa_values (st_fa st) = [] /\ fa_min_len (st_fa st) = None /\ fa_max_len (st_fa st) = None /\ fa_pattern (st_fa st) = None.
Proof.
  destruct st as [b f q]. cbn [st_base st_fa]. intros -> Hp. unfold published in Hp. cbn [st_base st_fa] in Hp.
  assert (Hv : forall a, In a [A_values; A_min_len; A_max_len; A_pattern] -> attr_set f a = false).
  { intros a Ha. rewrite <- not_true_iff_false. intros Hc.
    assert (existsb (attr_set f) (is_default_attrs (BStr uri)) = true).
    { apply existsb_exists. exists a. split; [|exact Hc]. destruct uri; exact Ha. }
    congruence. }
  repeat split.
  - specialize (Hv A_values ltac:(cbn; tauto)). cbn in Hv. destruct (fa_values f); [reflexivity|discriminate].
  - apply is_some_false. apply (Hv A_min_len). cbn; tauto.
  - apply is_some_false. apply (Hv A_max_len). cbn; tauto.
  - apply is_some_false. apply (Hv A_pattern). cbn; tauto.
Qed.

Section StrLeaf.
  Variable pat : text -> option re.
  Variable olex : okind -> text -> option Z.
  Variable ord : okind -> text -> out Z.

  Definition str_xbase (uri : bool) : xbase := if uri then XUri else XStr.

  (** the declared constraints of a string class on a text *)
  Definition str_spec (f : facets) (t : text) : bool :=
    match fa_min_len f with Some a => a <=? len t | None => true end
    && match fa_max_len f with Some b => len t <=? b | None => true end
    && values_ok f (SText t)
    && match fa_pattern f with Some (_, r) => re_match r t | None => true end.

  Lemma len_nonneg (t : text) : 0 <= len t.
  Proof. unfold len. lia. Qed.

  Lemma unicode_facets_ok uri f t :
    nonneg_opt (fa_min_len f) = true -> nonneg_opt (fa_max_len f) = true ->
    (forall p r, fa_pattern f = Some (p, r) -> pat p = Some r) ->
    (uri = true -> xs_trim t = t) ->
    forallb (facet_ok pat olex (str_xbase uri) t (SText t)) (unicode_facets f)
    = match fa_min_len f with Some a => a <=? len t | None => true end
      && match fa_max_len f with Some b => len t <=? b | None => true end
      && match fa_pattern f with Some (_, r) => re_match r t | None => true end.
  Proof.
    intros H1 H2 Hp Hu. unfold unicode_facets. rewrite forallb_app.
    pose proof (len_nonneg t) as Hl.
    assert (Hlex : xs_lexical (str_xbase uri) t = t) by (destruct uri; cbn; [apply Hu; reflexivity|reflexivity]).
    f_equal.
    - unfold unicode_length_tag, unicode_min_tag, unicode_max_tag.
      destruct (fa_min_len f) as [a|], (fa_max_len f) as [b|]; cbn in H1, H2.
      + destruct (a =? b) eqn:E; cbn [forallb facet_ok value_length]; rewrite ?nonneg_of_text_str_int by lia; lia.
      + cbn [forallb facet_ok value_length]. rewrite nonneg_of_text_str_int by lia. lia.
      + destruct (b =? 0) eqn:E; cbn [forallb facet_ok value_length]; rewrite ?nonneg_of_text_str_int by lia; lia.
      + reflexivity.
    - unfold unicode_pattern_tag. destruct (fa_pattern f) as [[p r]|] eqn:E; [|reflexivity].
      cbn [forallb facet_ok]. rewrite (Hp p r eq_refl), Hlex, andb_true_r. reflexivity.
  Qed.

  Lemma str_lex_rt uri g : in_space (BStr uri) g = true -> lex_rt olex (BStr uri) g.
  Proof.
    destruct g as [|t| | |]; try discriminate. intros H. exists (SText t). split; [|apply sval_equiv_refl].
    destruct uri; [|reflexivity].
    unfold in_space in H. cbn [kind_ok andb] in H. apply text_eqb_true_eq in H.
    cbn [xbase_of schema_text pr_text pr_leaf xs_value]. rewrite H. reflexivity.
  Qed.

  (** the published simple type of a customised string class accepts a text iff it satisfies
      min_len / max_len / values / pattern (anyURI: for texts without blanks at the ends) *)
  Lemma str_xsd_spec st uri t :
    st_base st = BStr uri -> wf_stype st = true ->
    (forall p r, fa_pattern (st_fa st) = Some (p, r) -> pat p = Some r) ->
    (uri = true -> xs_trim t = t) ->
    st_simple_ok pat olex st t = str_spec (st_fa st) t.
  Proof.
    intros Hb Hwf Hp Hu. destruct (wf_str st uri Hb Hwf) as (N1 & N2 & _ & _ & _ & _ & Hsp).
    unfold st_simple_ok. rewrite Hb.
    assert (Hx : xbase_of (BStr uri) = str_xbase uri) by (destruct uri; reflexivity).
    rewrite Hx.
    assert (Hv : xs_value olex (str_xbase uri) t = Some (SText t)).
    { destruct uri; cbn; [rewrite (Hu eq_refl)|]; reflexivity. }
    rewrite Hv. unfold st_facets, str_spec.
    destruct (published st) eqn:Epub.
    - unfold restriction_of. rewrite Hb. rewrite facets_ok_eq.
      assert (Hw : writer_of (BStr uri) = WUnicode) by reflexivity. rewrite Hw.
      rewrite filter_app, filter_enum_map_enum, forallb_app, forallb_enum_map.
      assert (Hne : filter is_enum (unicode_facets (st_fa st)) = []).
      { unfold unicode_facets, unicode_length_tag, unicode_min_tag, unicode_max_tag, unicode_pattern_tag.
        destruct (fa_min_len (st_fa st)), (fa_max_len (st_fa st)), (fa_pattern (st_fa st)) as [[? ?]|];
          repeat match goal with |- context [if ?c then _ else _] => destruct c end; reflexivity. }
      rewrite Hne, app_nil_r. rewrite <- Hx.
      rewrite (enum_values_ok olex (BStr uri) (st_fa st) (SText t) (SText t)
                 (fun g Hg => str_lex_rt uri g (Hsp g Hg)) (sval_equiv_refl _)).
      rewrite Hx, (unicode_facets_ok uri (st_fa st) t N1 N2 Hp Hu). cbn [andb]. btauto.
    - destruct (unpublished_str st uri Hb Epub) as (G1 & G2 & G3 & G4).
      unfold values_ok. rewrite G1, G2, G3, G4. reflexivity.
  Qed.

  (** soft validation of a string element / attribute = the same declared constraints *)
  Lemma str_soft_spec st uri nil txt :
    st_base st = BStr uri ->
    soft_leaf ord st nil txt
    = if str_spec (st_fa st) (match txt with None => [] | Some s => s end) then Ok tt else VFault.
  Proof.
    intros Hb. unfold soft_leaf, str_spec. rewrite Hb.
    set (s := match txt with None => [] | Some s => s end).
    destruct (match fa_min_len (st_fa st) with Some a => a <=? len s | None => true end),
             (match fa_max_len (st_fa st) with Some b => len s <=? b | None => true end),
             (values_ok (st_fa st) (SText s)),
             (match fa_pattern (st_fa st) with Some (_, r) => re_match r s | None => true end); reflexivity.
  Qed.
End StrLeaf.

(* ------------------------------------------------------------------ booleans *)
Section BoolLeaf.
  Variable pat : text -> option re.
  Variable olex : okind -> text -> option Z.
  Variable ord : okind -> text -> out Z.

  Lemma wf_bool st : st_base st = BBool -> wf_stype st = true -> facet_values (st_fa st) = [] /\ st_facets st = [].
  Proof.
    intros Hb Hwf. unfold wf_stype in Hwf. rewrite Hb in Hwf. split_all.
    assert (Hv : facet_values (st_fa st) = []).
    { destruct (facet_values (st_fa st)); [reflexivity|]. exfalso.
      repeat match goal with H : false = true |- _ => discriminate H | H : _ = true |- _ => try discriminate H end. }
    split; [exact Hv|].
    unfold st_facets, published. rewrite Hb. cbn [is_default_attrs].
    unfold is_default_attrs_Boolean, is_default_attrs_SimpleModel. cbn [existsb attr_set].
    assert (fa_values (st_fa st) = []) as ->.
    { unfold facet_values in Hv. repeat (apply app_eq_nil in Hv; destruct Hv as [_ Hv]). exact Hv. }
    reflexivity.
  Qed.

  Definition xs_bool_lit (s : text) : bool := is_some (xs_value olex XBool s).

  Lemma bool_xsd_spec st s : st_base st = BBool -> wf_stype st = true -> st_simple_ok pat olex st s = xs_bool_lit s.
  Proof.
    intros Hb Hwf. destruct (wf_bool st Hb Hwf) as [_ Hf]. unfold st_simple_ok, xs_bool_lit. rewrite Hb, Hf.
    cbn [xbase_of]. destruct (xs_value olex XBool s); reflexivity.
  Qed.

  Lemma bool_soft_spec st nil s : st_base st = BBool -> wf_stype st = true -> soft_leaf ord st nil (Some s) = Ok tt.
  Proof.
    intros Hb Hwf. destruct (wf_bool st Hb Hwf) as [Hv _]. unfold soft_leaf. rewrite Hb. unfold values_ok.
    assert (fa_values (st_fa st) = []) as ->.
    { unfold facet_values in Hv. repeat (apply app_eq_nil in Hv; destruct Hv as [_ Hv]). exact Hv. }
    reflexivity.
  Qed.

  (** what boolean_to_unicode writes is an xs:boolean literal *)
  Lemma bool_written_lit x : xs_bool_lit (if x : bool then boolean_true_text else boolean_false_text) = true.
  Proof. destruct x; reflexivity. Qed.
End BoolLeaf.
