"""C14 — event hooks fire in documented order, exactly once, on success and failure.

Proof: coq/Props/C14.v over the request pipeline GENERATED from the source (Gen/Pipeline.v).
Tie:   (a) the translator harness/translate/pipeline.py (re-run on every check),
       (b) correspondence `pipeline`: generated services with listeners on every manager
           (application, service classes with inheritance, method, in/out protocol, transport),
           a failure injected at each stage, ServerBase and WSGI, every protocol family; the
           firing-level trace the real code produces is compared with the model's,
           also: ONE service class exposed by 2-3 applications (descriptors are shared), requests
           interleaved with registrations (a listener added after the method was first used), and
           every argument shape of the raised exceptions (no arguments, a class, non-string
           arguments, a failing __str__, a bare custom class, Fault() / a Fault subclass),
       (c) correspondence `registration`: the handler lists of the real managers after a
           registration program against the model's,
Oracle: the property's own predicate (written here, independently of the Coq text) on what the
        listeners of the real implementation saw.
"""
import os, sys, json, copy
from io import BytesIO
import lib
from lib import gz, glist, gbool, gopt

THEOREMS = ['C14_trace_ok', 'C14_trace_ok_any_fire', 'C14_serverbase_unserialisable_refuted',
            'C14_serverbase_unserialisable_escapes', 'C14_listeners_in_order', 'C14_created_first_closed_last',
            'C14_registration_order', 'C14_registered_twice_runs_once', 'C14_inherited', 'C14_inherited_member', 'C14_class_handlers',
            'C14_world_handlers_nodup']

IMPORTS = 'From SpyneV Require Import Base.Prelude C14.Model C14.Drivers C14.Corr.'

EVN = {
    'method_context_created': 'Ecreated', 'method_context_closed': 'Eclosed',
    'method_call': 'Ecall', 'method_return_object': 'Eret_obj', 'method_exception_object': 'Eexc_obj',
    'method_return_document': 'Eret_doc', 'method_exception_document': 'Eexc_doc',
    'method_return_string': 'Eret_str', 'method_exception_string': 'Eexc_str',
    'method_redirect': 'Eredirect', 'method_redirect_exception': 'Eredirect_exc',
    'method_return_push': 'Eret_push',
    'before_deserialize': 'Ebefore_deser', 'after_deserialize': 'Eafter_deser',
    'before_serialize': 'Ebefore_ser', 'after_serialize': 'Eafter_ser',
    'wsgi_call': 'Ewsgi_call', 'wsgi_return': 'Ewsgi_return', 'wsgi_exception': 'Ewsgi_exception',
    'wsgi_close': 'Ewsgi_close',
}
METHOD_EVS = ['method_context_created', 'method_context_closed', 'method_call', 'method_return_object',
              'method_exception_object', 'method_return_document', 'method_exception_document',
              'method_return_string', 'method_exception_string']
REDIR_EVS = ['method_redirect', 'method_redirect_exception']
PIN_EVS = ['before_deserialize', 'after_deserialize']
POUT_EVS = ['before_serialize', 'after_serialize']
TPT_EVS = ['wsgi_call', 'wsgi_return', 'wsgi_exception', 'wsgi_close']
ALL_EVS = METHOD_EVS + REDIR_EVS + PIN_EVS + POUT_EVS + TPT_EVS
TARGET = {'ctx': 'TCtx', 'app': 'TApp', 'tpt': 'TTpt', 'pin': 'TPin', 'pout': 'TPout'}
OUT_TAG = {'xml': 'PXml', 'soap11': 'PSoap11', 'json': 'PHier', 'yaml': 'PHier', 'msgpack': 'PHier',
           'msgpackrpc': 'PMsgpackRpc'}
TNS = 'tns'
STAGES = ('recon', 'create', 'decomp', 'dispatch', 'deser', 'fn', 'ser', 'redirect')

# in protocol / out protocol pairs exercised (every protocol family on both sides)
PAIRS = [('xml', 'xml'), ('soap11', 'soap11'), ('json', 'json'), ('yaml', 'yaml'), ('msgpack', 'msgpack'),
         ('http', 'json'), ('http', 'xml'), ('json', 'soap11'), ('xml', 'json'), ('msgpackrpc', 'msgpackrpc')]
REQUESTS = ['ok', 'malformed', 'undecodable', 'bad_envelope', 'unknown_method', 'invalid_arg', 'too_long']
FNS = ['ok', 'fault', 'other', 'nul', 'redirect_ok', 'redirect_fail']


# ------------------------------------------------------------------ observation of the real code
_TAP = [None]
_ORIG = {}


def kind_of(e):
    from spyne.model.fault import Fault
    from spyne.error import Redirect
    if isinstance(e, Redirect):
        return 'KRedirect'
    if isinstance(e, Fault):
        return 'KFault'
    return 'KOther'


class Tap(object):
    """what one call did: firing items [who, event, descriptor set, listeners called, raised],
    the flat listener-level trace, the outcome of the library steps, the last context seen"""

    def __init__(self):
        self.items = []
        self.cur = None
        self.roles = {}
        self.ltrace = []
        self.raised = []         # exception objects raised by listeners (kept alive: identity)
        self.steps = {}
        self.last_ctx = None
        self.fn_returned = False
        self.fn_called = 0

    def by_listener(self, e):
        return any(e is x for x in self.raised)


def install():
    """record every fire_event (harness-side instrumentation of two methods; the originals run)"""
    if _ORIG:
        return
    from spyne.evmgr import EventManager
    from spyne.context import MethodContext
    _ORIG['em'] = EventManager.fire_event
    _ORIG['ctx'] = MethodContext.fire_event

    def ctx_fire(self, event, *a, **kw):
        tap = _TAP[0]
        if tap is None:
            return _ORIG['ctx'](self, event, *a, **kw)
        item = ['ctx', event, self.descriptor is not None, [], None]
        tap.items.append(item)
        prev, tap.cur = tap.cur, item
        tap.last_ctx = self
        try:
            return _ORIG['ctx'](self, event, *a, **kw)
        except Exception as e:
            item[4] = kind_of(e)
            raise
        finally:
            tap.cur = prev

    def em_fire(self, event_name, ctx, *a, **kw):
        tap = _TAP[0]
        if tap is None or tap.cur is not None:
            return _ORIG['em'](self, event_name, ctx, *a, **kw)
        role = tap.roles.get(id(self), '?')
        item = [role, event_name, getattr(ctx, 'descriptor', None) is not None, [], None]
        tap.items.append(item)
        tap.cur = item
        tap.last_ctx = ctx
        try:
            return _ORIG['em'](self, event_name, ctx, *a, **kw)
        except Exception as e:
            item[4] = kind_of(e)
            raise
        finally:
            tap.cur = None

    EventManager.fire_event = em_fire
    MethodContext.fire_event = ctx_fire


def uninstall():
    if not _ORIG:
        return
    from spyne.evmgr import EventManager
    from spyne.context import MethodContext
    EventManager.fire_event = _ORIG['em']
    MethodContext.fire_event = _ORIG['ctx']
    _ORIG.clear()


# ------------------------------------------------------------------ building a world
def mref_key(m):
    return tuple(m)


SHAPES_OTHER = ('one', 'noargs', 'cls', 'many', 'nonstr', 'badstr', 'bare')
SHAPES_FAULT = ('std', 'default', 'sub')


class _BadStr(Exception):
    """an exception whose text cannot be produced"""
    def __str__(self):
        raise TypeError('no text')
    __repr__ = __str__


class _Bare(Exception):
    pass


def split_mode(mode):
    """'other/noargs' -> ('other', 'noargs')"""
    return tuple(mode.split('/', 1)) if '/' in mode else (mode, None)


class World(object):
    """the real objects a registration program builds: service classes (with inheritance),
    method-level managers, and one or MORE applications that expose the same target service
    class, each with its own protocols and transport.  Built incrementally (apply), so that
    requests and registrations can be interleaved (request)."""

    def __init__(self, desc, default_app=None):
        from spyne.error import Redirect
        self.desc = desc
        self.default_app = default_app       # (inp, outp, driver) of application 0 when created lazily
        self.classes, self.mgrs, self.apps = [], [], []
        self.listeners = {}
        self.tap = None
        self.beh = {}
        self.fn_mode = 'ok'
        world = self

        class MyRedirect(Redirect):
            def do_redirect(self):
                if world.fn_mode == 'redirect_fail' or getattr(self, 'fail', False):
                    world.tap.steps['redirect'] = 'KOther'
                    raise RuntimeError('redirect failed')
        self.MyRedirect = MyRedirect

    # ---- exceptions of every shape
    def make_exc(self, kind, ctx, what, shape=None):
        """returns what is to be raised (an instance, or a class for shape 'cls')"""
        from spyne.model.fault import Fault
        if kind == 'KFault':
            if shape == 'default':
                return Fault()
            if shape == 'sub':
                class SubFault(Fault):
                    def __init__(self):
                        Fault.__init__(self, 'Client.Sub')
                return SubFault()
            return Fault('Client.%s' % what, what)
        if kind == 'KRedirect':
            return self.MyRedirect(ctx, 'http://example.invalid/')
        if shape == 'noargs':
            return RuntimeError()
        if shape == 'cls':
            return ValueError                      # raise ValueError  (class, instantiated by raise)
        if shape == 'many':
            return KeyError(what, 2, None)
        if shape == 'nonstr':
            return ValueError(b'\xff', object())
        if shape == 'badstr':
            return _BadStr()
        if shape == 'bare':
            return _Bare
        return RuntimeError(what)

    def listener(self, lid, ev):
        key = (lid, ev)
        if key not in self.listeners:
            world = self

            def f(ctx):
                tap = world.tap
                if tap is None:
                    return
                if tap.cur is not None:
                    tap.cur[3].append(lid)
                tap.ltrace.append((ev, lid))
                k = world.beh.get(key)
                if k is not None:
                    e = world.make_exc(k[0], ctx, 'listener', k[1])
                    if isinstance(e, type):
                        e = e()
                    tap.raised.append(e)
                    raise e
            f.lid, f.ev = lid, ev
            self.listeners[key] = f
        return self.listeners[key]

    def userfn(self):
        world = self
        from spyne.model.fault import Fault

        def userfn(ctx, x):
            tap = world.tap
            tap.items.append(['func'])
            tap.ltrace.append(('func', 0))
            tap.fn_called += 1
            mode, shape = split_mode(world.fn_mode)
            if mode == 'fault':
                tap.steps['fn'] = 'KFault'
                raise world.make_exc('KFault', ctx, 'FnFault', shape)
            if mode == 'other':
                tap.steps['fn'] = 'KOther'
                if shape is None:
                    raise KeyError('fn')
                raise world.make_exc('KOther', ctx, 'fn', shape)
            if mode in ('redirect_ok', 'redirect_fail'):
                tap.steps['fn'] = 'KRedirect'
                raise world.MyRedirect(ctx, 'http://example.invalid/')
            tap.fn_returned = True
            if mode == 'nul':
                return u'a\x00b'
            return u'r%s' % (x,)
        return userfn

    # ---- registration
    def apply(self, op):
        from spyne import rpc, ServiceBase, Unicode, Integer
        from spyne.evmgr import EventManager
        if op[0] == 'mgr':
            self.mgrs.append(EventManager(None))
        elif op[0] == 'class':
            i = len(self.classes)
            bases = tuple(self.classes[b] for b in op[1]) or (ServiceBase,)
            d = {'__module__': 'c14gen'}
            if i == self.desc['cls']:
                d['f'] = rpc(Integer, _returns=Unicode,
                             _evmgrs=[self.mgrs[k] for k in self.desc['mgrs']])(self.userfn())
            self.classes.append(type(ServiceBase)('C%d' % i, bases, d))
        elif op[0] == 'newapp':
            self.new_app(op[1], op[2], op[3])
        elif op[0] == 'add':
            self.manager(op[1]).add_listener(op[2], self.listener(op[3], op[2]))
        else:
            raise ValueError(op)

    def new_app(self, inp, outp, driver):
        """one more Application exposing the SAME target service class"""
        from spyne import Application
        from spyne.server import ServerBase
        from spyne.server.wsgi import WsgiApplication
        pin, pout = make_protocol(inp, True), make_protocol(outp, False)
        target = self.classes[self.desc['cls']]
        app = Application([target], TNS, name='App%d' % len(self.apps), in_protocol=pin, out_protocol=pout)
        server = WsgiApplication(app, max_content_length=4096) if driver == 'wsgi' else ServerBase(app)
        rec = {'app': app, 'server': server, 'inp': inp, 'outp': outp, 'pin': pin, 'pout': pout, 'driver': driver}
        self.apps.append(rec)
        self.wrap_steps(rec)
        return rec

    def app_rec(self, j):
        while j == 0 and not self.apps:
            if self.default_app is None:
                raise ValueError('application 0 does not exist yet')
            self.new_app(*self.default_app)
        return self.apps[j]

    def manager(self, m):
        if m[0] == 'svc':
            return self.classes[m[1]].event_manager
        if m[0] == 'meth':
            return self.mgrs[m[1]]
        rec = self.app_rec(m[1] if len(m) > 1 else 0)
        if m[0] == 'app':
            return rec['app'].event_manager
        if m[0] == 'tpt':
            return rec['server'].event_manager
        if m[0] == 'pin':
            return rec['pin'].event_manager
        if m[0] == 'pout':
            return rec['pout'].event_manager
        raise ValueError(m)

    def wrap_steps(self, rec):
        """the outcome of each protocol step of a call is an INPUT of the model (observed here)"""
        world = self

        def wrap(obj, name, stage):
            orig = getattr(obj, name)

            def w(*a, **kw):
                try:
                    return orig(*a, **kw)
                except Exception as e:
                    tap = world.tap
                    if tap is not None and not tap.by_listener(e):
                        tap.steps[stage] = kind_of(e)
                    raise
            setattr(obj, name, w)
        if hasattr(rec['server'], '_WsgiApplication__reconstruct_wsgi_request'):
            wrap(rec['server'], '_WsgiApplication__reconstruct_wsgi_request', 'recon')
        wrap(rec['pin'], 'create_in_document', 'create')
        wrap(rec['pin'], 'decompose_incoming_envelope', 'decomp')
        wrap(rec['pin'], 'generate_method_contexts', 'dispatch')
        wrap(rec['pin'], 'deserialize', 'deser')
        wrap(rec['pout'], 'serialize', 'ser')

    def handlers(self, m, ev):
        return [f.lid for f in self.manager(m).handlers.get(ev, [])]

    # ---- one request against application j
    def request(self, j, kind, fn_mode, beh):
        """drive the real implementation; returns the observation dict"""
        from spyne.context import MethodContext
        rec = self.app_rec(j)
        tap = Tap()
        tap.roles = {id(rec['app'].event_manager): 'app', id(rec['server'].event_manager): 'tpt',
                     id(rec['pin'].event_manager): 'pin', id(rec['pout'].event_manager): 'pout'}
        self.tap, self.fn_mode = tap, fn_mode
        self.beh = {(b[0], b[1]): (b[2], b[3] if len(b) > 3 else None) for b in beh}
        body, path, qs = request_bytes(rec['inp'], kind)
        obs = {'harness_error': None}
        _TAP[0] = tap
        status = []
        try:
            if rec['driver'] == 'serverbase':
                srv = rec['server']
                # the call sequence of a ServerBase transport (spyne/server/zeromq.py serve_forever)
                ctx = MethodContext(srv, MethodContext.SERVER)
                ctx.in_string = [body]
                contexts = srv.generate_contexts(ctx)
                p_ctx = contexts[0]
                if p_ctx.in_error:
                    pass
                else:
                    srv.get_in_object(p_ctx)
                    if p_ctx.in_error:
                        pass
                    else:
                        srv.get_out_object(p_ctx)
                srv.get_out_string(p_ctx)
                out = b''.join(p_ctx.out_string)
                p_ctx.close()
                result = ('done', p_ctx.out_error is not None)
            else:
                env = {'REQUEST_METHOD': 'GET' if rec['inp'] == 'http' else 'POST', 'PATH_INFO': path,
                       'QUERY_STRING': qs, 'SERVER_NAME': 'x', 'SERVER_PORT': '80', 'wsgi.url_scheme': 'http',
                       'wsgi.input': BytesIO(body), 'CONTENT_LENGTH': str(len(body)), 'SCRIPT_NAME': '',
                       'CONTENT_TYPE': 'application/octet-stream'}
                it = rec['server'](env, lambda s, h, e=None: status.append(s))
                try:
                    out = b''.join(it)
                finally:
                    if hasattr(it, 'close'):
                        it.close()
                lc = tap.last_ctx
                result = ('done', lc is not None and lc.out_error is not None)
        except Exception as e:
            result = ('escaped', kind_of(e))
            try:
                txt = str(e)[:120]
            except Exception:
                txt = '<no text>'
            obs['escaped_repr'] = '%s: %s' % (type(e).__name__, txt)
            out = b''
        finally:
            _TAP[0] = None
            self.tap = None
        obs.update({'items': tap.items, 'result': result, 'steps': dict(tap.steps), 'ltrace': tap.ltrace,
                    'status': status[0] if status else None, 'fn_called': tap.fn_called,
                    'fn_returned': tap.fn_returned, 'out': out[:200]})
        return obs


def make_protocol(name, is_in):
    from spyne.protocol.xml import XmlDocument
    from spyne.protocol.soap import Soap11
    from spyne.protocol.json import JsonDocument
    from spyne.protocol.yaml import YamlDocument
    from spyne.protocol.msgpack import MessagePackDocument, MessagePackRpc
    from spyne.protocol.http import HttpRpc
    cls = {'xml': XmlDocument, 'soap11': Soap11, 'json': JsonDocument, 'yaml': YamlDocument,
           'msgpack': MessagePackDocument, 'msgpackrpc': MessagePackRpc, 'http': HttpRpc}[name]
    return cls(validator='soft') if is_in else cls()


# ------------------------------------------------------------------ requests
SOAP_ENV = 'http://schemas.xmlsoap.org/soap/envelope/'


def request_bytes(inp, kind):
    """(body, path, query) for the logical request; None when the protocol has no such form"""
    if kind == 'too_long':
        return None if inp == 'http' else (b' ' * 5000, '/', '')
    if inp == 'http':
        return {'ok': (b'', '/f', 'x=3'), 'unknown_method': (b'', '/g', 'x=3'),
                'invalid_arg': (b'', '/f', 'x=zz')}.get(kind)
    if inp == 'xml':
        return {'ok': (b'<f xmlns="tns"><x>3</x></f>', '/', ''),
                'malformed': (b'<f xmlns="tns"><x>3</x>', '/', ''),
                'undecodable': (b'<f xmlns="tns"><x>\xff\xfe</x></f>', '/', ''),     # not UTF-8
                'unknown_method': (b'<g xmlns="tns"/>', '/', ''),
                'invalid_arg': (b'<f xmlns="tns"><x>zz</x></f>', '/', '')}.get(kind)
    if inp == 'soap11':
        def env(inner):
            return ('<e:Envelope xmlns:e="%s"><e:Body>%s</e:Body></e:Envelope>' % (SOAP_ENV, inner)).encode()
        return {'ok': (env('<f xmlns="tns"><x>3</x></f>'), '/', ''),
                'malformed': (b'<e:Envelope', '/', ''),
                'undecodable': (env('<f xmlns="tns"><x>@@</x></f>').replace(b'@@', b'\xff\xfe'), '/', ''),
                'bad_envelope': (b'<f xmlns="tns"><x>3</x></f>', '/', ''),
                'unknown_method': (env('<g xmlns="tns"/>'), '/', ''),
                'invalid_arg': (env('<f xmlns="tns"><x>zz</x></f>'), '/', '')}.get(kind)
    docs = {'ok': {'f': {'x': 3}}, 'bad_envelope': {'f': {'x': 3}, 'g': {}}, 'unknown_method': {'g': {}},
            'invalid_arg': {'f': {'x': 'zz'}}}
    if inp == 'json':
        if kind == 'malformed':
            return (b'{"f": ', '/', '')
        if kind == 'undecodable':
            return (b'{"f": {"x": "caf\xe9"}}', '/', '')          # well-formed JSON text in latin-1, not UTF-8
        return (json.dumps(docs[kind]).encode(), '/', '') if kind in docs else None
    if inp == 'yaml':
        import yaml
        if kind == 'malformed':
            return (b'{f: [', '/', '')
        if kind == 'undecodable':
            return (b'f: {x: "caf\xe9"}', '/', '')
        return (yaml.safe_dump(docs[kind]).encode(), '/', '') if kind in docs else None
    if inp == 'msgpack':
        import msgpack
        if kind == 'malformed':
            return (b'\xc1', '/', '')
        # the method name travels as bytes (the documented convention of MessagePackDocument)
        return (msgpack.packb({k.encode(): v for k, v in docs[kind].items()}), '/', '') if kind in docs else None
    if inp == 'msgpackrpc':
        import msgpack
        return {'ok': (msgpack.packb([0, 1, 'f', [3]]), '/', ''),
                'malformed': (b'\xc1', '/', ''),
                'bad_envelope': (msgpack.packb([0, 1]), '/', ''),
                'unknown_method': (msgpack.packb([0, 1, 'g', []]), '/', ''),
                'invalid_arg': (msgpack.packb([0, 1, 'f', ['zz']]), '/', '')}.get(kind)
    return None


def applicable(case):
    if request_bytes(case['inp'], case['request']) is None:
        return False
    if case['inp'] == 'http' and case['driver'] != 'wsgi':
        return False
    if case['request'] == 'too_long' and case['driver'] != 'wsgi':
        return False
    return True


# ------------------------------------------------------------------ running cases and sessions
def run_case(case):
    """a flat case: one application, one request.  A case that carries a 'session' is the last
    request of that session (several applications on one service class, requests and
    registrations interleaved)."""
    install()
    if 'session' in case:
        res = run_session(case['session'])
        if isinstance(res, dict):
            return res, None
        return res[-1][1], None
    obs = {'harness_error': None}
    try:
        world = World(case['desc'], (case['inp'], case['outp'], case['driver']))
        for op in case['prog']:
            world.apply(op)
        world.app_rec(0)
    except Exception as e:
        import traceback
        obs['harness_error'] = 'building the world failed: ' + traceback.format_exc()[-800:]
        return obs, None
    return world.request(0, case['request'], case['fn'], case['beh']), world


def project(steps, j):
    """the registration program as seen by a call on application j: managers of the other
    applications are not part of that world (they must never be reached)"""
    prog = []
    for op in steps:
        if op[0] in ('mgr', 'class'):
            prog.append(op)
        elif op[0] == 'add':
            m = op[1]
            if m[0] in ('svc', 'meth'):
                prog.append(op)
            elif (m[1] if len(m) > 1 else 0) == j:
                prog.append(['add', [m[0]], op[2], op[3]])
    return prog


def run_session(session):
    """-> [(flat case, observation)] for every request step, or an observation with harness_error"""
    install()
    out = []
    try:
        world = World(session['desc'])
        for i, st in enumerate(session['steps']):
            if st[0] == 'request':
                r = st[1]
                rec = world.app_rec(r['app'])
                case = {'driver': rec['driver'], 'inp': rec['inp'], 'outp': rec['outp'],
                        'prog': project(session['steps'][:i], r['app']), 'desc': session['desc'], 'beh': r['beh'],
                        'request': r['request'], 'fn': r['fn'],
                        'session': {'desc': session['desc'], 'steps': session['steps'][:i + 1]}}
                out.append((case, world.request(r['app'], r['request'], r['fn'], r['beh'])))
            else:
                world.apply(st)
    except Exception:
        import traceback
        return {'harness_error': 'running the session failed: ' + traceback.format_exc()[-800:]}
    return out


# ------------------------------------------------------------------ Gallina printers
def g_nat(n):
    return '%d%%nat' % n


def g_mref(m):
    if m[0] == 'svc':
        return '(MSvc %s)' % g_nat(m[1])
    if m[0] == 'meth':
        return '(MMeth %s)' % g_nat(m[1])
    return {'app': 'MApp', 'tpt': 'MTpt', 'pin': 'MPin', 'pout': 'MPout'}[m[0]]


def g_prog(prog):
    out = []
    for op in prog:
        if op[0] == 'class':
            out.append('RNewClass %s' % glist([g_nat(b) for b in op[1]]))
        elif op[0] == 'mgr':
            out.append('RNewMgr')
        else:
            out.append('RAdd %s %s %s' % (g_mref(op[1]), EVN[op[2]], gz(op[3])))
    return glist(out)


def g_desc(d):
    return '{| d_mgrs := %s; d_cls := %s |}' % (glist([g_nat(k) for k in d['mgrs']]), g_nat(d['cls']))


def g_item(it):
    if it[0] == 'func':
        return 'FFunc'
    return 'FFire %s %s %s %s %s' % (TARGET[it[0]], EVN[it[1]], gbool(it[2]), glist([gz(x) for x in it[3]]),
                                       gopt(it[4]))


def g_case(case, obs):
    steps = obs['steps']
    inj = '(%s)' % ', '.join(gopt(steps.get(s)) for s in STAGES)
    res = obs['result']
    gres = '(RDone %s)' % gbool(res[1]) if res[0] == 'done' else '(REscaped %s)' % res[1]
    return '(%s, %s, %s, %s, %s, %s, %s, %s)' % (
        'DWsgi' if case['driver'] == 'wsgi' else 'DServerBase', g_prog(case['prog']), g_desc(case['desc']),
        glist(['(%s, %s, %s)' % (gz(b[0]), EVN[b[1]], b[2]) for b in case['beh']]), inj,
        OUT_TAG[case['outp']], glist([g_item(i) for i in obs['items']]), gres)


# ------------------------------------------------------------------ reference semantics of registration
def ref_handlers(prog):
    """independent statement of 'registration order, registered twice runs once, inherited':
    manager key -> event -> list of listener ids"""
    mgrs = {('app',): {}, ('tpt',): {}, ('pin',): {}, ('pout',): {}}
    ncls = nmgr = 0
    for op in prog:
        if op[0] == 'mgr':
            mgrs[('meth', nmgr)] = {}
            nmgr += 1
        elif op[0] == 'class':
            h = {}
            for b in op[1]:
                for ev, ls in mgrs[('svc', b)].items():
                    for l in ls:
                        if l not in h.setdefault(ev, []):
                            h[ev].append(l)
            mgrs[('svc', ncls)] = h
            ncls += 1
        else:
            h = mgrs[mref_key(op[1])]
            if op[3] not in h.setdefault(op[2], []):
                h[op[2]].append(op[3])
    return mgrs


def expected_calls(case, mgrs, who, ev, has_desc):
    """the listeners a firing reaches, in order"""
    if who != 'ctx':
        return list(mgrs[(who,)].get(ev, []))
    out = list(mgrs[('app',)].get(ev, []))
    if has_desc:
        for k in case['desc']['mgrs']:
            out += mgrs[('meth', k)].get(ev, [])
        out += mgrs[('svc', case['desc']['cls'])].get(ev, [])
    return out


# ------------------------------------------------------------------ the direct oracle
def label(case, obs=None):
    """shape of the injection: driver, request kind, function behaviour, the listeners that raised"""
    called = None if obs is None else {(e, l) for e, l in obs.get('ltrace', [])}
    raising = sorted('%s:%s%s' % (b[1].replace('method_', ''), b[2], '/' + b[3] if len(b) > 3 and b[3] else '')
                     for b in case['beh'] if called is None or (b[1], b[0]) in called)
    lab = '%s|request=%s|fn=%s|listener=%s' % (case['driver'], case['request'], case['fn'],
                                                '+'.join(sorted(set(raising))) or 'none')
    if 'session' in case:
        steps = case['session']['steps']
        lab += '|shared-service(apps=%d,request#%d)' % (sum(1 for x in steps if x[0] == 'newapp'),
                                                       sum(1 for x in steps if x[0] == 'request'))
    return lab


def in_alphabet(case):
    """the injections the property quantifies over"""
    for b in case['beh']:
        if b[1] not in ('method_call', 'method_return_object') or b[2] not in ('KFault', 'KOther'):
            return False
    return split_mode(case['fn'])[0] in ('ok', 'fault', 'other', 'nul')


def oracle(case, obs):
    """the property, clause by clause, on what the listeners saw.  Returns [(clause, message)].
    Uses only: the registration program (what was registered where), the calls the listeners
    received (event, listener id, in order), whether the user function ran / returned, whether
    the call ended in a fault."""
    bad = []
    res = obs['result']
    if res[0] == 'escaped':
        return [('exception-escapes', 'an exception escaped the pipeline: %s' % obs.get('escaped_repr'))]
    fault = res[1]
    mgrs = ref_handlers(case['prog'])
    raising = {(b[0], b[1]) for b in case['beh']}
    lt = obs['ltrace']
    dispatched = all(obs['steps'].get(k) is None for k in ('recon', 'create', 'decomp', 'dispatch'))

    def expected(ev):
        """the listeners one firing of ev reaches, in order"""
        if ev in ('method_context_created', 'method_context_closed'):
            return expected_calls(case, mgrs, 'app', ev, False)
        if ev in METHOD_EVS + REDIR_EVS:
            return expected_calls(case, mgrs, 'ctx', ev, dispatched)
        if ev in PIN_EVS:
            return expected_calls(case, mgrs, 'pin', ev, False)
        if ev in POUT_EVS:
            return expected_calls(case, mgrs, 'pout', ev, False)
        return expected_calls(case, mgrs, 'tpt', ev, False)
    # group the flat trace into firings: a run of calls for the same event, closed by a raising
    # listener or when as many listeners were called as one firing reaches
    groups = []          # [event, [lids], raised]
    for ev, lid in lt:
        if ev == 'func':
            groups.append(['func', [], False])
        elif groups and groups[-1][0] == ev and not groups[-1][2] and len(groups[-1][1]) < len(expected(ev)):
            groups[-1][1].append(lid)
            if (lid, ev) in raising:
                groups[-1][2] = True
        else:
            groups.append([ev, [lid], (lid, ev) in raising])
    method_level = [g for g in groups if g[0] == 'func' or g[0] in METHOD_EVS + REDIR_EVS]
    evseq = [g[0] for g in method_level]

    def registered(ev):
        """some listener that a context-level firing reaches is registered for ev"""
        return bool(mgrs[('app',)].get(ev))
    vis = lambda ev: registered(ev)
    # 1. created first, closed last, each exactly once
    if vis('method_context_created'):
        if not evseq or evseq[0] != 'method_context_created':
            bad.append(('created-not-first', 'first thing listeners saw: %s' % (evseq[:1],)))
        if evseq.count('method_context_created') != 1:
            bad.append(('created-count', 'method_context_created seen %d times' % evseq.count('method_context_created')))
    if vis('method_context_closed'):
        if not evseq or evseq[-1] != 'method_context_closed':
            bad.append(('closed-not-last', 'last thing listeners saw: %s' % (evseq[-1:],)))
        if evseq.count('method_context_closed') != 1:
            bad.append(('closed-count', 'method_context_closed seen %d times' % evseq.count('method_context_closed')))
    # 2. the user function runs at most once and only after method_call
    if obs['fn_called'] > 1:
        bad.append(('function-twice', 'the user function ran %d times' % obs['fn_called']))
    if obs['fn_called'] and vis('method_call'):
        i = evseq.index('func')
        if 'method_call' not in evseq[:i]:
            bad.append(('function-before-call', 'the user function ran before method_call'))
        elif any(g[0] == 'method_call' and g[2] for g in method_level):
            bad.append(('function-after-failed-call', 'the user function ran although a method_call listener raised'))
    # 3. method_return_object exactly when the function returned normally
    if vis('method_return_object'):
        if ('method_return_object' in evseq) != bool(obs['fn_returned']):
            bad.append(('return_object-mismatch', 'method_return_object %s but the function %s' % (
                'fired' if 'method_return_object' in evseq else 'did not fire',
                'returned normally' if obs['fn_returned'] else 'did not return normally')))
    # 4. method_exception_object exactly when the call ends in a fault
    if vis('method_exception_object'):
        if ('method_exception_object' in evseq) != bool(fault):
            bad.append(('exception_object-' + ('missing' if fault else 'spurious'),
                        'the call %s but method_exception_object %s' % (
                            'ended in a fault' if fault else 'succeeded',
                            'fired' if 'method_exception_object' in evseq else 'did not fire')))
    # 5. followed by the matching document and string events, in that order
    fam = 'exception' if fault else 'return'
    other = 'return' if fault else 'exception'
    want_tail = ['method_%s_object' % fam, 'method_%s_document' % fam, 'method_%s_string' % fam,
                 'method_context_closed']
    if all(vis(e) for e in want_tail):
        if evseq[-4:] != want_tail:
            bad.append(('tail-order', 'the call ended with %s, expected %s' % (evseq[-4:], want_tail)))
    for e in ('method_%s_document' % other, 'method_%s_string' % other):
        if e in evseq:
            bad.append(('wrong-family', '%s fired although the call %s' % (e, 'ended in a fault' if fault else 'succeeded')))
    # 6. no event twice
    for e in set(evseq):
        if e != 'func' and evseq.count(e) > 1:
            bad.append(('event-twice', '%s fired %d times' % (e, evseq.count(e))))
    # 7. listeners run in registration order, each once, inherited ones included
    for g in groups:
        if g[0] == 'func':
            continue
        ev, lids, raised = g
        exp = expected(ev)
        ok = (exp[:len(lids)] == lids) if raised else (exp == lids)
        if not ok:
            bad.append(('listener-order', '%s: listeners called %s, registered (in order, once each) %s' % (ev, lids, exp)))
    # 8. transport level (WSGI)
    if case['driver'] == 'wsgi' and mgrs[('tpt',)]:
        tp = [g[0] for g in groups if g[0] in TPT_EVS or g[0] in ('method_context_created', 'method_context_closed')]
        t = mgrs[('tpt',)]
        want = ['method_context_created'] if vis('method_context_created') else []
        if t.get('wsgi_call'):
            want.append('wsgi_call')
        mid = 'wsgi_exception' if fault else 'wsgi_return'
        if t.get(mid):
            want.append(mid)
        if vis('method_context_closed'):
            want.append('method_context_closed')
        if t.get('wsgi_close'):
            want.append('wsgi_close')
        if tp != want:
            bad.append(('transport-events', 'transport-level view %s, expected %s' % (tp, want)))
    return bad


# ------------------------------------------------------------------ generators
def dense_prog():
    """a base service, a subclass (the target), one method-level manager, a listener for every
    event on every manager; duplicates and a second listener where order can show"""
    prog = [['mgr'], ['class', []]]
    for ev in METHOD_EVS + REDIR_EVS:
        prog.append(['add', ['svc', 0], ev, 10])
    prog.append(['add', ['svc', 0], 'method_call', 13])
    prog.append(['class', [0]])
    for ev in METHOD_EVS + REDIR_EVS:
        prog.append(['add', ['svc', 1], ev, 11])
    prog.append(['add', ['svc', 1], 'method_call', 10])            # inherited already: runs once
    prog.append(['add', ['svc', 0], 'method_return_object', 14])   # added to the base after subclassing
    for ev in METHOD_EVS + REDIR_EVS:
        prog.append(['add', ['meth', 0], ev, 20])
    for ev in ALL_EVS:
        prog.append(['add', ['app'], ev, 1])
    prog.append(['add', ['app'], 'method_call', 2])
    prog.append(['add', ['app'], 'method_call', 1])                # registered twice
    prog.append(['add', ['app'], 'method_return_object', 2])
    for ev in ALL_EVS:
        prog.append(['add', ['tpt'], ev, 30])
        prog.append(['add', ['pin'], ev, 31])
        prog.append(['add', ['pout'], ev, 32])
    return prog, {'mgrs': [0], 'cls': 1}


def random_prog(rng):
    nm = rng.randint(0, 2)
    nc = rng.randint(1, 3)
    prog = [['mgr'] for _ in range(nm)]
    target = rng.randrange(nc)
    lids = list(range(1, rng.randint(2, 6) + 1))

    def ev_for(m):
        r = rng.random()
        if m[0] in ('svc', 'meth', 'app'):
            if r < .45:
                return rng.choice(['method_call', 'method_return_object', 'method_exception_object'])
            if r < .9:
                return rng.choice(METHOD_EVS + REDIR_EVS)
        elif m[0] == 'pin' and r < .85:
            return rng.choice(PIN_EVS)
        elif m[0] == 'pout' and r < .85:
            return rng.choice(POUT_EVS)
        elif m[0] == 'tpt' and r < .85:
            return rng.choice(TPT_EVS)
        return rng.choice(ALL_EVS)

    def adds(ms, n):
        for _ in range(n):
            m = rng.choice(ms)
            prog.append(['add', m, ev_for(m), rng.choice(lids)])
    for i in range(nc):
        avail = list(range(i))
        bases = sorted(rng.sample(avail, rng.randint(0, min(2, len(avail)))), reverse=True) if avail else []
        prog.append(['class', bases])
        ms = [['svc', j] for j in range(i + 1)] + [['meth', k] for k in range(nm)]
        adds(ms, rng.randint(0, 6))
    ms = [['svc', j] for j in range(nc)] + [['meth', k] for k in range(nm)] + [['app'], ['app'], ['tpt'], ['pin'], ['pout']]
    adds(ms, rng.randint(2, 14))
    dm = list(range(nm))
    rng.shuffle(dm)
    return prog, {'mgrs': dm[:rng.randint(0, nm)], 'cls': target}


def registered_pairs(prog):
    return sorted({(op[3], op[2]) for op in prog if op[0] == 'add'})


def shaped(rng, kind):
    """[kind, shape]: the argument shape of the raised exception is a dimension of its own"""
    if kind == 'KOther':
        return [kind, rng.choice(SHAPES_OTHER)]
    if kind == 'KFault':
        return [kind, rng.choice(SHAPES_FAULT)]
    return [kind, None]


def random_fn(rng, modes):
    m = rng.choice(modes)
    if m == 'other' and rng.random() < .8:
        return 'other/' + rng.choice(SHAPES_OTHER)
    if m == 'fault' and rng.random() < .5:
        return 'fault/' + rng.choice(SHAPES_FAULT)
    return m


def alphabet_beh(rng, prog, n=None):
    pairs = [p for p in registered_pairs(prog) if p[1] in ('method_call', 'method_return_object')]
    if not pairs:
        return []
    n = rng.choice([0, 1, 1, 2]) if n is None else n
    return [[l, e] + shaped(rng, rng.choice(['KFault', 'KOther'])) for l, e in rng.sample(pairs, min(n, len(pairs)))]


def wild_beh(rng, prog):
    pairs = registered_pairs(prog)
    if not pairs:
        return []
    return [[l, e] + shaped(rng, rng.choice(['KFault', 'KOther', 'KRedirect']))
            for l, e in rng.sample(pairs, min(rng.randint(1, 3), len(pairs)))]


SHAPE_PAIRS = [('xml', 'xml'), ('soap11', 'soap11'), ('json', 'json'), ('http', 'json')]


def dense_cases():
    """every failure position of the property, both drivers, every protocol pair"""
    prog, desc = dense_prog()
    out = []
    for driver in ('serverbase', 'wsgi'):
        for inp, outp in PAIRS:
            base = {'driver': driver, 'inp': inp, 'outp': outp, 'prog': prog, 'desc': desc, 'beh': [],
                    'request': 'ok', 'fn': 'ok'}
            variants = [{}]
            variants += [{'request': r} for r in REQUESTS[1:]]
            variants += [{'fn': f} for f in FNS[1:]]
            for ev in ('method_call', 'method_return_object'):
                for lid in (1, 2, 20, 10, 11):
                    for k in ('KFault', 'KOther'):
                        variants.append({'beh': [[lid, ev, k]]})
            variants.append({'beh': [[1, 'method_return_object', 'KOther']], 'fn': 'other'})
            variants.append({'beh': [[11, 'method_call', 'KFault']], 'fn': 'nul'})
            variants.append({'beh': [[14, 'method_return_object', 'KFault']]})
            if (inp, outp) in SHAPE_PAIRS:
                # the argument shape of the raised exception: no arguments, a class, several / non-string
                # arguments, a text that cannot be produced, a bare custom class; Fault() and a Fault subclass
                variants += [{'fn': 'other/' + sh} for sh in SHAPES_OTHER]
                variants += [{'fn': 'fault/' + sh} for sh in SHAPES_FAULT[1:]]
                for ev in ('method_call', 'method_return_object'):
                    for lid in (1, 11):
                        variants += [{'beh': [[lid, ev, 'KOther', sh]]} for sh in SHAPES_OTHER[1:]]
                        variants += [{'beh': [[lid, ev, 'KFault', sh]]} for sh in SHAPES_FAULT[1:]]
            for v in variants:
                c = dict(base)
                c.update(v)
                if applicable(c):
                    out.append(c)
    return out


def random_cases(rng, n, wild=False):
    out = []
    while len(out) < n:
        prog, desc = random_prog(rng)
        inp, outp = rng.choice(PAIRS)
        c = {'driver': rng.choice(['serverbase', 'wsgi']), 'inp': inp, 'outp': outp, 'prog': prog, 'desc': desc,
             'request': rng.choice(['ok'] * 6 + REQUESTS[1:]),
             'fn': random_fn(rng, ['ok'] * 4 + FNS[1:]) if not wild else random_fn(rng, FNS),
             'beh': wild_beh(rng, prog) if wild else alphabet_beh(rng, prog)}
        if applicable(c):
            out.append(c)
    return out


def dense_session():
    """ONE service class exposed by three applications (SOAP, JSON, XML; WSGI and ServerBase), the
    first built before any listener is registered, the second in the middle, the third at the end;
    a request on each; then listeners registered AFTER the method has been used (service-, method-,
    application-level), and a request on each application again"""
    prog, desc = dense_prog()
    steps = [op for op in prog if op[0] in ('mgr', 'class')]
    steps.append(['newapp', 'soap11', 'soap11', 'wsgi'])
    steps += [op for op in prog if op[0] == 'add' and op[1][0] in ('svc', 'meth')]
    steps.append(['newapp', 'json', 'json', 'serverbase'])
    for j in (0, 1):
        steps += [['add', [op[1][0], j], op[2], op[3] + 100 * j] for op in prog if op[0] == 'add' and op[1][0] in ('app', 'tpt', 'pin', 'pout')]
    steps.append(['newapp', 'xml', 'xml', 'wsgi'])
    steps += [['add', [op[1][0], 2], op[2], op[3] + 200] for op in prog if op[0] == 'add' and op[1][0] in ('app', 'tpt', 'pin', 'pout')]

    def reqs(extra):
        out = []
        for j in (0, 1, 2):
            out.append(['request', {'app': j, 'request': 'ok', 'fn': 'ok', 'beh': []}])
            out.append(['request', {'app': j, 'request': 'ok', 'fn': 'other/noargs', 'beh': []}])
            out.append(['request', {'app': j, 'request': 'invalid_arg', 'fn': 'ok', 'beh': []}])
            out.append(['request', {'app': j, 'request': 'ok', 'fn': 'ok', 'beh': [[11, 'method_call', 'KFault', 'std']]}])
            out += extra(j)
        return out
    steps += reqs(lambda j: [])
    # registration after first use
    late = []
    for ev in ('method_call', 'method_return_object', 'method_exception_object', 'method_return_document',
               'method_exception_string'):
        late += [['add', ['svc', 1], ev, 41], ['add', ['meth', 0], ev, 42], ['add', ['svc', 0], ev, 43]]
        late += [['add', ['app', j], ev, 44 + 100 * j] for j in (0, 1, 2)]
    steps += late
    steps += reqs(lambda j: [['request', {'app': j, 'request': 'ok', 'fn': 'ok',
                                          'beh': [[41, 'method_return_object', 'KOther', 'bare']]}]])
    return {'desc': desc, 'steps': steps}


def random_session(rng):
    """a random registration program with 2-3 applications on the target service class created
    at random moments, and requests interleaved with further registrations"""
    prog, desc = random_prog(rng)
    # everything up to the class statement of the target first
    upto = [i for i, op in enumerate(prog) if op[0] == 'class'][desc['cls']]
    head, tail = prog[:upto + 1], prog[upto + 1:]
    napps = rng.randint(2, 3)
    nc = sum(1 for op in prog if op[0] == 'class')
    nm = sum(1 for op in prog if op[0] == 'mgr')
    lids = list(range(1, 7))
    steps = list(head)
    made = 0

    def newapp():
        inp, outp = rng.choice([p for p in PAIRS])
        driver = 'wsgi' if inp == 'http' else rng.choice(['serverbase', 'wsgi'])
        return ['newapp', inp, outp, driver]

    def retarget(op):
        m = op[1]
        if m[0] in ('svc', 'meth'):
            return op
        if not made:
            return None
        return ['add', [m[0], rng.randrange(made)], op[2], op[3]]

    def request():
        j = rng.randrange(made)
        visible = project(steps, j)
        return ['request', {'app': j, 'request': rng.choice(['ok'] * 5 + ['invalid_arg', 'unknown_method', 'malformed']),
                            'fn': random_fn(rng, ['ok'] * 4 + ['fault', 'other', 'other']),
                            'beh': alphabet_beh(rng, visible)}]
    # the remaining ops, applications and requests shuffled together (order of ops preserved)
    slots = sorted(rng.sample(range(len(tail) + napps + 4), napps))
    k = 0
    for pos in range(len(tail) + napps + 4):
        if pos in slots:
            steps.append(newapp())
            made += 1
            if rng.random() < .6:
                steps.append(request())
        elif k < len(tail):
            op = retarget(tail[k]) if tail[k][0] == 'add' else tail[k]
            k += 1
            if op is not None:
                steps.append(op)
        elif made:
            # late registrations on the levels that matter, then a request
            m = rng.choice([['svc', desc['cls']], ['svc', rng.randrange(nc)], ['app', rng.randrange(made)]]
                           + [['meth', x] for x in desc['mgrs']])
            steps.append(['add', m, rng.choice(['method_call', 'method_return_object', 'method_exception_object',
                                                'method_return_string']), rng.choice(lids)])
            steps.append(request())
    for _ in range(rng.randint(1, 2)):
        steps.append(request())
    ok = []
    for st in steps:       # drop requests the protocol has no wire form for
        if st[0] == 'request':
            apps = [x for x in ok if x[0] == 'newapp']
            a = apps[st[1]['app']]
            if request_bytes(a[1], st[1]['request']) is None:
                continue
        ok.append(st)
    return {'desc': desc, 'steps': ok}


# ------------------------------------------------------------------ the check
def short(case):
    return '%s %s->%s request=%s fn=%s beh=%s prog=%d ops%s' % (
        case['driver'], case['inp'], case['outp'], case['request'], case['fn'], case['beh'], len(case['prog']),
        ' (session: %s)' % label(case).rsplit('|', 1)[1] if 'session' in case else '')


def evaluate(check, case, cases_out, use_oracle=True):
    obs, world = run_case(case)
    return judge(check, case, obs, cases_out, use_oracle)


def evaluate_session(check, session, cases_out, use_oracle=True):
    res = run_session(session)
    if isinstance(res, dict):
        check.mismatch('pipeline', 'harness could not run a session: %s' % res['harness_error'])
        return 0
    for case, obs in res:
        judge(check, case, obs, cases_out, use_oracle)
    return len(res)


def judge(check, case, obs, cases_out, use_oracle=True):
    if obs.get('harness_error'):
        check.mismatch('pipeline', 'harness could not build %s: %s' % (short(case), obs['harness_error']))
        return obs
    items = obs['items']
    unknown = [i for i in items if i[0] != 'func' and (i[0] not in TARGET or i[1] not in EVN)]
    if unknown:
        check.mismatch('pipeline', 'the real code fired something outside the model: %r in %s' % (unknown[:2], short(case)))
        return obs
    cases_out.append((g_case(case, obs), short(case)))
    key = (case['driver'], case['inp'], case['outp'], case['request'], case['fn'], tuple(map(tuple, case['beh'])),
           tuple(sorted(obs['steps'].items())), obs['result'], label(case) if 'session' in case else '')
    check.count(key)
    st = check.extra.setdefault('coverage_table', {})
    for k in (['driver=' + case['driver'], 'protocols=%s->%s' % (case['inp'], case['outp']), 'request=' + case['request'],
               'fn=' + case['fn'], 'result=%s' % (obs['result'],), 'alphabet=%s' % in_alphabet(case),
               'shared service, several applications=%s' % ('session' in case)]
              + ['raising listener shape=%s/%s' % (b[2], b[3]) for b in case['beh'] if len(b) > 3]
              + ['step %s raised %s' % kv for kv in sorted(obs['steps'].items())]
              + ['listener raised at %s (%s)' % (i[1], i[4]) for i in obs['items'] if i[0] != 'func' and i[4]
                 and any((l, i[1]) in {(b[0], b[1]) for b in case['beh']} for l in i[3][-1:])]):
        st[k] = st.get(k, 0) + 1
    if use_oracle and in_alphabet(case):
        for clause, msg in oracle(case, obs):
            check.fail('C14|%s|%s' % (label(case, obs), clause),
                       '%s [%s over %s->%s, %s]' % (msg, case['driver'], case['inp'], case['outp'],
                                                    'request=%s fn=%s raising listeners=%s' % (case['request'], case['fn'], case['beh'])),
                       {'case': case, 'observed': {'listener_calls': obs['ltrace'], 'result': obs['result'],
                                                   'status': obs['status'], 'steps': obs['steps']}})
    return obs


def registration_cases(check, rng, n):
    """the handler lists of the real managers against the model's and against the reference"""
    out = []
    for _ in range(n):
        prog, desc = random_prog(rng)
        case = {'driver': 'serverbase', 'inp': 'json', 'outp': 'json', 'prog': prog, 'desc': desc, 'beh': [],
                'request': 'ok', 'fn': 'ok'}
        world = World(desc, ('json', 'json', 'serverbase'))
        for op in prog:
            world.apply(op)
        world.app_rec(0)
        ref = ref_handlers(prog)
        ms = [['app'], ['tpt'], ['pin'], ['pout']] + [['svc', i] for i in range(len(world.classes))] + \
             [['meth', k] for k in range(len(world.mgrs))]
        for m in ms:
            evs = sorted({op[2] for op in prog if op[0] == 'add'}) or ['method_call']
            for ev in evs:
                got = world.handlers(m, ev)
                check.count(('reg', json.dumps(prog), tuple(m), ev))
                out.append(('(%s, %s, %s, Some %s)' % (g_prog(prog), g_mref(m), EVN[ev], glist([gz(x) for x in got])),
                            'handlers of %s for %s' % (m, ev)))
                want = ref[mref_key(m)].get(ev, [])
                if got != want:
                    check.fail('C14|registration|%s' % ('duplicate' if len(got) != len(set(got)) else 'order'),
                               'manager %s, event %s: handlers %s, registered (in order, once each, inherited first) %s'
                               % (m, ev, got, want), {'prog': prog, 'manager': m, 'event': ev})
    return out


def run(check):
    rng = check.rng
    quick = check.tier == 'quick'
    check.regen(['pipeline'])
    check.check_sources()
    check.prove('Props.C14', THEOREMS, targets=['Props/C14.vo', 'C14/Corr.vo'])
    cases = []
    try:
        dc = dense_cases()
        for c in dc:
            evaluate(check, c, cases)
        rc = random_cases(rng, 220 if quick else 4000)
        for c in rc:
            evaluate(check, c, cases)
        wc = random_cases(rng, 80 if quick else 1500, wild=True)
        for c in wc:
            evaluate(check, c, cases, use_oracle=False)
        nsess = evaluate_session(check, dense_session(), cases)
        for _ in range(30 if quick else 600):
            nsess += evaluate_session(check, random_session(rng), cases)
        regs = registration_cases(check, rng, 25 if quick else 400)
    finally:
        uninstall()
    lib.correspond(check, 'pipeline', IMPORTS, 'ccase', 'case_ok', cases, shard=150,
                   show='(fun c => model_run c)')
    lib.correspond(check, 'registration', IMPORTS, 'list regop * mref * ev * option (list lid)', 'reg_ok', regs,
                   shard=300, show="(fun c => match c with (p, m, e, _) => handlers_of p m e end)")
    res = lib.flush_correspondences(check)
    stages_hit = {}
    check.sample({'dense': short(dc[0]), 'cases': {'dense': len(dc), 'random': len(rc), 'out-of-alphabet': len(wc),
                                                   'requests in shared-service sessions': nsess,
                                                   'registration': len(regs)}})
    check.sample({'example_case': dc[1], 'note': 'a replay file carries exactly such a case'} if len(dc) > 1 else {})
    check.rule = ('a case is one call against one generated application (alone, or one of 2-3 applications that expose '
                  'the SAME service class, with requests and registrations interleaved): registration program (class statements with '
                  'inheritance, add_listener calls on application / service / method / protocol / transport managers), '
                  'protocol pair, driver (ServerBase call sequence or WsgiApplication.__call__), request kind, user function '
                  'behaviour, raising listeners, and the argument shape of every raised exception (no arguments, a class, '
                  'several / non-string arguments, a text that cannot be produced, a bare custom class, Fault() and a '
                  'Fault subclass); distinct = distinct (driver, protocols, request, function, raising listeners, '
                  'observed step outcomes, result) tuples; every case is compared firing by firing with the model')
    check.trusted = lib.COMMON_TRUSTED + [
        'harness/c14.py instruments EventManager.fire_event and MethodContext.fire_event (wrappers that call the originals) '
        'to see firings that reach no listener; the oracle itself uses only what listeners received',
        'the protocol-side steps (create_in_document, decompose_incoming_envelope, generate_method_contexts, the body of '
        'deserialize/serialize, create_out_string) are library steps whose outcome (returns / raises Fault / raises other) is '
        'observed per call and is an input of the model; their event skeleton (before_/after_ events, out_document '
        'assignment) is hand-transcribed in coq/C14/Model.v and its two protocol-dependent facts are read from the source',
    ]
    check.assumptions = [
        'one primary method context per call (no auxiliary methods): process_contexts is a no-op',
        'the generator / push / MTOM branches of get_out_string_pull and handle_rpc are not taken (flagged Unmodelled; '
        'the theorems assume the flag is off and the harness never engages them); WsgiApplication.chunked has its default',
        'start_response, logging calls, header bookkeeping and the asserts of the pipeline do not raise',
        'a WSGI server iterates the response and calls close() on it',
        'Python: an exception raised in an except-handler is not caught by sibling handlers; isinstance-based clause '
        'selection in source order (transcribed in Model.exec)',
    ]
    return check.finish()


def replay(check, path):
    r = json.load(open(path))['replay']
    try:
        if 'case' in r:
            case = r['case']
            obs, world = run_case(case)
            print(json.dumps({'result': obs.get('result'), 'listener_calls': obs.get('ltrace'), 'status': obs.get('status'),
                              'steps': obs.get('steps')}, default=repr)[:3000])
            for clause, msg in oracle(case, obs):
                check.fail('C14|%s|%s' % (label(case, obs), clause), msg, {'case': case})
        elif 'prog' in r:
            case = {'driver': 'serverbase', 'inp': 'json', 'outp': 'json', 'prog': r['prog'], 'desc': {'mgrs': [], 'cls': 0},
                    'beh': [], 'request': 'ok', 'fn': 'ok'}
            world = World(case['desc'], ('json', 'json', 'serverbase'))
            for op in case['prog']:
                world.apply(op)
            world.app_rec(0)
            got = world.handlers(r['manager'], r['event'])
            want = ref_handlers(r['prog'])[mref_key(r['manager'])].get(r['event'], [])
            print('handlers', got, 'expected', want)
            if got != want:
                check.fail('C14|registration|%s' % ('duplicate' if len(got) != len(set(got)) else 'order'),
                           'handlers %s, expected %s' % (got, want), r)
        else:
            print(json.dumps(r, indent=1)[:3000])
    finally:
        uninstall()
    return check.finish()
