#!/venv/bin/python
"""Regenerates coq/Gen/*.v from /repo's working tree (fail-closed translators)."""
import os, sys
sys.path.insert(0, os.path.dirname(os.path.abspath(__file__)))
import translate
if __name__ == '__main__':
    sys.exit(translate.main())
