"""C11 — a request runs exactly the method it names.

Generated applications (many services, adversarially similar method names, custom
operation / in-message / out-message names, auxiliary services, HttpPatterns) are
built with the real Spyne code, in every permutation of the service list, and driven
through WsgiApplication with every protocol's way of naming the method.  What the real
code did (construction outcome + routing table; per request: the user functions that
ran, in order, and the fault) is compared with the Coq model coq/C11/Model.v
(correspondence) and with a direct oracle that only knows the documented public name
of a method (direct oracle)."""
import io, json, itertools, re, traceback, os
import lib
from lib import gz, gtext, glist, gbool, gopt, gpair

THEOREMS = ['C11_hit', 'C11_exactly_named', 'C11_miss', 'C11_other_namespace_miss',
            'C11_near_miss', 'C11_construct_iff', 'C11_permutation', 'C11_duplicate_rejected',
            'C11_dispatch_channels', 'C11_http_unambiguous', 'C11_http_fallback',
            'C11_pattern_order', 'C11_identical_pattern_rejected', 'C11_permutation_served', 'C11_nameless']

SRC_THEOREMS = ['C11_src_shape', 'C11_src_formats', 'C11_src_get_call_handles', 'C11_src_process_method',
                'C11_src_last_segment']

IMPORTS = 'From SpyneV Require Import Base.Prelude C11.Model.'

# ------------------------------------------------------------------ building real applications from a spec
LOG = []
_IMPORTED = {}

def _spyne():
    if not _IMPORTED:
        from spyne import Application, Service, srpc, Unicode, ComplexModel
        from spyne.service import ServiceMeta
        from spyne.auxproc.sync import SyncAuxProc
        from spyne.protocol.http import HttpRpc, HttpPattern
        from spyne.protocol.xml import XmlDocument
        from spyne.protocol.soap import Soap11
        from spyne.protocol.json import JsonDocument
        from spyne.protocol.msgpack import MessagePackRpc, MessagePackDocument
        from spyne.server.wsgi import WsgiApplication
        _IMPORTED.update(locals())
    return _IMPORTED

def mkfun(uid, fn, nargs):
    if nargs == 0:
        def f():
            LOG.append(uid)
            return 'r%d' % uid
    else:
        def f(a):
            LOG.append(uid)
            return 'r%d' % uid
    f.__name__ = fn
    f._uid = uid
    return f

def split_key(k):
    assert k.startswith('{')
    ns, _, name = k[1:].partition('}')
    return ns, name

def mkservice(s, params):
    S = _spyne()
    d = {'__module__': s['module']}
    if s.get('service_name') is not None:
        d['__service_name__'] = s['service_name']
    if s.get('aux'):
        d['__aux__'] = S['SyncAuxProc']()
    seen = set()
    for m in s['methods']:
        assert m['fn'] not in seen, 'spec: duplicate function name in one class dict'
        seen.add(m['fn'])
        kw = {'_returns': S['Unicode']}
        if m.get('op') is not None: kw['_operation_name'] = m['op']
        if m.get('inm') is not None: kw['_in_message_name'] = m['inm']
        if m.get('outm') is not None: kw['_out_message_name'] = m['outm']
        if m.get('aux'): kw['_aux'] = S['SyncAuxProc']()
        if m.get('suffix'): kw['_internal_key_suffix'] = m['suffix']
        pats = [S['HttpPattern'](p.get('address'), verb=p.get('verb')) for p in m.get('patterns', [])]
        if pats: kw['_patterns'] = pats
        if m.get('bare') is not None:
            pk = m['bare']
            if pk not in params:
                ns, name = split_key(pk)
                params[pk] = S['ComplexModel'].produce(namespace=ns, type_name=name, members={'a': S['Unicode']})
            kw['_body_style'] = 'bare'
            d[m['fn']] = S['srpc'](params[pk], **kw)(mkfun(m['uid'], m['fn'], 1))
        else:
            d[m['fn']] = S['srpc'](**kw)(mkfun(m['uid'], m['fn'], 0))
    return S['ServiceMeta'](s['cls'], (S['Service'],), d)

PROTOCOLS = ('http', 'xml', 'soap', 'json', 'msgpackdoc', 'msgpackrpc')

def mkprot(name):
    S = _spyne()
    return {'http': S['HttpRpc'], 'xml': S['XmlDocument'], 'soap': S['Soap11'], 'json': S['JsonDocument'],
            'msgpackdoc': S['MessagePackDocument'], 'msgpackrpc': S['MessagePackRpc']}[name]()

def site_of(e):
    """innermost spyne frame of an exception: 'file.py:function'"""
    tb = traceback.extract_tb(e.__traceback__)
    for fr in reversed(tb):
        if '/spyne/' in fr.filename:
            return '%s:%s' % (fr.filename.split('/spyne/')[-1], fr.name)
    return '?'

def classify(phase, e):
    t, msg = type(e).__name__, str(e)
    if phase == 'svc':
        if t == 'ValueError' and "only one of '_operation_name'" in msg: return 1
        if t == 'Exception' and "You can't mix primary" in msg: return 2
    else:
        if t == 'MethodAlreadyExistsError': return 3
        if t == 'ValueError' and 'have conflicting names' in msg: return 4
        if t == 'ValueError' and 'is already taken by another method' in msg: return 5
        if t == 'ValueError' and 'defined in both' in msg: return 6
        if t == 'ValueError' and 'answer to the same requests' in msg: return 7
    return 99

def construct_real(spec, prot='http', out_prot=None):
    """-> (app | None, code, info).  The response protocol is JsonDocument (Soap11 for Soap11 requests):
    XmlDocument and MessagePackRpc cannot serialise the primitive result of a bare-style method (a
    response-side defect outside C11), and a failed response stops the auxiliary contexts from running."""
    S = _spyne()
    params = {}
    try:
        svcs = [mkservice(s, params) for s in spec['services']]
    except Exception as e:
        return None, classify('svc', e), '%s@%s' % (type(e).__name__, site_of(e))
    try:
        app = S['Application'](svcs, tns=spec['tns'], in_protocol=mkprot(prot),
                               out_protocol=mkprot(out_prot or ('soap' if prot == 'soap' else 'json')))
    except Exception as e:
        return None, classify('app', e), '%s@%s' % (type(e).__name__, site_of(e))
    return app, 0, ''

def serve_real(app):
    """WsgiApplication(app) -> (wsgi | None, code, info, [(address, verb, endpoint name)])"""
    S = _spyne()
    try:
        w = S['WsgiApplication'](app)
    except Exception as e:
        return None, classify('srv', e), '%s@%s' % (type(e).__name__, site_of(e)), []
    return w, 0, '', [(p.address, p.verb, p.endpoint.name) for p in w._http_patterns]

def table_of(app):
    return [(k, [d.function._uid for d in v]) for k, v in app.interface.service_method_map.items()]

class Driver(object):
    """one real application behind WsgiApplication, for one input protocol"""
    def __init__(self, app, prot, tns):
        S = _spyne()
        self.app, self.prot, self.tns = app, prot, tns
        self.wsgi, code, info, self.patterns = serve_real(app)
        if self.wsgi is None:
            raise RuntimeError('server rejected: %s' % info)

    def call(self, req):
        """req: dict(kind=..., ...) -> (status, body, invoked uids) ; exceptions -> ('crash', name, uids)"""
        env = {'REQUEST_METHOD': 'POST', 'PATH_INFO': '/', 'QUERY_STRING': '', 'SERVER_NAME': 'localhost',
               'SERVER_PORT': '80', 'wsgi.url_scheme': 'http', 'SCRIPT_NAME': '', 'CONTENT_TYPE': 'text/xml; charset=utf-8'}
        body = b''
        k = req['kind']
        if k == 'http':
            env['REQUEST_METHOD'] = req['verb']
            env['PATH_INFO'] = req['path']
        elif k in ('xml', 'soap'):
            ns = req.get('ns')
            el = '<%s%s/>' % (req['local'], '' if ns is None else ' xmlns="%s"' % ns)
            if k == 'soap':
                el = ('<e:Envelope xmlns:e="http://schemas.xmlsoap.org/soap/envelope/"><e:Body>%s</e:Body></e:Envelope>' % el)
            body = el.encode('utf8')
        elif k == 'soap-fault':
            # a SOAP Fault element as the request body: it names no method
            body = ('<e:Envelope xmlns:e="http://schemas.xmlsoap.org/soap/envelope/"><e:Body><e:Fault>'
                    '<faultcode>%s</faultcode><faultstring>%s</faultstring></e:Fault></e:Body></e:Envelope>'
                    % (req['code'], req['string'])).encode('utf8')
        elif k == 'json':
            body = json.dumps({req['key']: {}}).encode('utf8')
            env['CONTENT_TYPE'] = 'application/json'
        elif k == 'msgpackdoc':
            import msgpack
            body = msgpack.packb({req['key']: {}})
            env['CONTENT_TYPE'] = 'application/x-msgpack'
        elif k == 'msgpackrpc':
            import msgpack
            body = msgpack.packb([0, 1, req['key'], req.get('args', [])])
            env['CONTENT_TYPE'] = 'application/x-msgpack'
        env['wsgi.input'] = io.BytesIO(body)
        env['CONTENT_LENGTH'] = str(len(body))
        out = {}
        def start_response(status, headers, exc_info=None):
            out['status'] = status
        del LOG[:]
        try:
            r = b''.join(self.wsgi(env, start_response))
        except Exception as e:
            return ('crash', '%s@%s' % (type(e).__name__, site_of(e)), list(LOG))
        return (out.get('status', ''), r, list(LOG))

def is_not_found(status, body):
    if status == 'crash':
        return False
    return b'Client.ResourceNotFound' in body and not status.startswith('2')

# ------------------------------------------------------------------ the oracle's own reading of the property
def public_name(m):
    """documented public name of a method: the local part of _in_message_name, else
    _operation_name, else the function name (spyne/decorator.py docstring)"""
    n = m.get('inm')
    if n is None or n == m['fn']:
        n = m['op'] if m.get('op') is not None else m['fn']
    if n.startswith('{'):
        n = n[1:].partition('}')[2]
    return n

def is_aux(s, m):
    return bool(m.get('aux') or s.get('aux'))

def spec_methods(spec):
    return [(s, m) for s in spec['services'] for m in s['methods']]

def spec_valid(spec):
    """the decorator's and ServiceMeta's documented argument errors (not C11's subject)"""
    for s in spec['services']:
        kinds = set()
        for m in s['methods']:
            if m.get('op') is not None and m['op'] != m['fn'] and m.get('inm') is not None and m['inm'] != m['fn']:
                return False
            kinds.add(is_aux(s, m))
        if len(kinds) > 1:
            return False
    return True

def expected_for(spec, name):
    prim = [m['uid'] for s, m in spec_methods(spec) if public_name(m) == name and not is_aux(s, m)]
    aux = [m['uid'] for s, m in spec_methods(spec) if public_name(m) == name and is_aux(s, m)]
    return prim, aux

def message_keys(spec, s, m):
    """names of the message classes a primary method publishes"""
    if is_aux(s, m):
        return []
    if m.get('bare') is not None:
        return [('P', m['bare'])]
    tns = spec['tns']
    i = m.get('inm')
    if i is None or i == m['fn']:
        i = m['op'] if m.get('op') is not None else m['fn']
    o = m['outm'] if m.get('outm') is not None else m['fn'] + 'Response'
    res = []
    for tag, n in (('i', i), ('o', o)):
        if n.startswith('{'):
            ns, _, ln = n[1:].partition('}')
        else:
            ns, ln = tns, n
        res.append((tag + str(m['uid']), '{%s}%s' % (ns, ln)))
    return res

def spec_clean(spec):
    """no two things of the application share a name: distinct primary public names, distinct
    message class names, distinct (module, service name) identities, distinct internal keys.
    Such an application must construct, in every order of its services."""
    if not spec_valid(spec):
        return False
    prim = [public_name(m) for s, m in spec_methods(spec) if not is_aux(s, m)]
    if len(set(prim)) != len(prim):
        return False
    ident = [(s['module'] + '.' + (s.get('service_name') or s['cls'])) for s in spec['services']]
    if len(set(ident)) != len(ident):
        return False
    # within one service identity the internal keys (function name + _internal_key_suffix) are distinct
    ikeys = [s['module'] + '.' + (s.get('service_name') or s['cls']) + '}' + m['fn'] + (m.get('suffix') or '')
             for s, m in spec_methods(spec)]
    if len(set(ikeys)) != len(ikeys):
        return False
    # one service (identity) cannot hold two methods of one public name, primary or auxiliary
    mids = [s['module'] + '.' + (s.get('service_name') or s['cls']) + '.' + public_name(m) for s, m in spec_methods(spec)]
    if len(set(mids)) != len(mids):
        return False
    owners = {}
    for s, m in spec_methods(spec):
        for owner, key in message_keys(spec, s, m):
            if owners.setdefault(key, owner) != owner:
                return False
    return True

def has_duplicate_primary(spec):
    prim = [public_name(m) for s, m in spec_methods(spec) if not is_aux(s, m)]
    return len(set(prim)) != len(prim)

def permuted(spec, perm):
    return {'tns': spec['tns'], 'services': [spec['services'][i] for i in perm]}

def addr_regex(a):
    if not a.startswith('/'):
        a = '/' + a
    out = []
    i = 0
    while i < len(a):
        mm = re.match(r'<([A-Za-z0-9_]+)>', a[i:])
        if mm:
            out.append('[^/]*')
            i += mm.end()
        else:
            out.append(re.escape(a[i]))
            i += 1
    return re.compile(''.join(out))

def resolved_patterns(spec, primary_only=True):
    """[(address as the server sees it, verb, public name, uid)] of the methods' HttpPatterns"""
    out = []
    for s, m in spec_methods(spec):
        if primary_only and is_aux(s, m):
            continue
        for pt in m.get('patterns', []):
            a = pt.get('address')
            if a is None:
                a = public_name(m)
            if not a.startswith('/'):
                a = '/' + a
            out.append((a, pt.get('verb'), public_name(m), m['uid']))
    return out

def identical_patterns(spec):
    """two primary methods of different names that carry an HttpPattern with the same address and verb"""
    seen = {}
    for a, v, n, uid in resolved_patterns(spec):
        if seen.setdefault((a, v), n) != n:
            return (a, v, seen[(a, v)], n)
    return None

def aux_patterns(spec):
    return [x for x in resolved_patterns(spec, primary_only=False) if x not in resolved_patterns(spec)]

def http_expected(spec, verb, path):
    """which public name does an HTTP request name?  ('pattern', names matching) or ('segment', name);
    ('unspecified', ...) when the path matches an HttpPattern given to an auxiliary method (the property
    does not say what that means)"""
    p = path if path.startswith('/') else '/' + path
    hits = []
    for a, v, n, uid in resolved_patterns(spec):
        if v is not None and v != verb:
            continue
        if addr_regex(a).fullmatch(p):
            hits.append(n)
    for a, v, n, uid in aux_patterns(spec):
        if (v is None or v == verb) and addr_regex(a).fullmatch(p):
            return 'unspecified', [n]
    if hits:
        return 'pattern', sorted(set(hits))
    return 'segment', path.split('/')[-1]

# ------------------------------------------------------------------ Gallina printers
def g_pat(p):
    return '(Build_pat %s %s)' % (gopt(p.get('address'), gtext), gopt(p.get('verb'), gtext))

def g_meth(m):
    style = 'Wrapped' if m.get('bare') is None else '(Bare %s)' % gtext(m['bare'])
    return '(Build_meth %s %s %s %s %s %s %s %s %s)' % (
        gz(m['uid']), gtext(m['fn']), gopt(m.get('op'), gtext), gopt(m.get('inm'), gtext),
        gopt(m.get('outm'), gtext), gbool(m.get('aux')), style, gtext(m.get('suffix') or ''),
        glist([g_pat(p) for p in m.get('patterns', [])]))

def g_svc(s):
    return '(Build_svc %s %s %s %s %s)' % (gtext(s['module']), gtext(s['cls']), gopt(s.get('service_name'), gtext),
                                           gbool(s.get('aux')), glist([g_meth(m) for m in s['methods']]))

def g_app(spec):
    return '(Build_app %s %s)' % (gtext(spec['tns']), glist([g_svc(s) for s in spec['services']]))

def g_view(view):
    return glist([gpair(gtext(k), glist([gz(u) for u in us])) for k, us in view])

def g_hpats(ps):
    return glist(['(%s, %s, %s)' % (gtext(a), gopt(v, gtext), gtext(n)) for a, v, n in ps])

def g_wire(r):
    if r['kind'] == 'soap-fault':
        return 'Nameless'
    return '(Named %s)' % g_req(r)

def g_req(r):
    k = r['kind']
    if k in ('xml', 'soap'):
        return '(RXml %s %s)' % (gopt(r.get('ns'), gtext), gtext(r['local']))
    if k in ('json', 'msgpackdoc'):
        return '(RDictKey %s)' % gtext(r['key'])
    if k == 'msgpackrpc':
        return '(RMsgpackRpc %s)' % gtext(r['key'])
    return '(RHttp %s %s)' % (gtext(r['verb']), gtext(r['path']))

CONSTRUCT_TYPE = 'app * Z * list (text * list Z) * Z * list hpat'
CONSTRUCT_OKB = ('(fun c : %s => let \'(a, code, view, scode, ps) := c in construct_obs_eqb a code view scode ps)'
                 % CONSTRUCT_TYPE)
CONSTRUCT_SHOW = ('(fun c : %s => let \'(a, code, view, scode, ps) := c in match construct a with '
                  '| Built t => (0, table_view t, match server_patterns t with Built ps\' => (0, ps\') '
                  '| Rejected r => (reject_code r, []) end) '
                  '| Rejected r => (reject_code r, [], (0, [])) end)' % CONSTRUCT_TYPE)
DISPATCH_TYPE = 'app * list (wire * bool * list Z)'
DISPATCH_OKB = '(fun c : %s => dispatch_obs_eqb (fst c) (snd c))' % DISPATCH_TYPE
DISPATCH_SHOW = ('(fun c : %s => match serve (fst c) with '
                 '| Built (t, ps) => (true, map (fun q : wire * bool * list Z => '
                 'dispatch_wire (a_tns (fst c)) t ps (fst (fst q))) (snd c)) | Rejected _ => (false, []) end)' % DISPATCH_TYPE)

# ------------------------------------------------------------------ generators
BASES = ['foo', 'get', 'a', 'Echo', 'x_1', 'ab', 'put', 'Item']
NAMESPACES = ['urn:t', 'urn:T', 'urn:o', 'http://ex.org/a', 'T', 'urn:t2']
MODULES = ['gen', 'gen.sub', 'm2']
CLASSES = ['S', 'Svc', 'A', 'B', 'svc', 'S1']
VERBS = ['GET', 'DELETE', 'HEAD', 'get']

def variants(rng, b):
    """adversarially similar names: case, prefix, suffix, separators"""
    v = {b, b.upper(), b.lower(), b.capitalize(), b.swapcase(), b[:-1] or b + b, b + b[-1], b + '_', '_' + b,
         b + '1', b + 'Response', b + '.x', 'x.' + b, b + '-', b + 'bar', 'pre' + b}
    v = sorted(x for x in v if x)
    rng.shuffle(v)
    return v

def ident(name):
    s = re.sub(r'[^A-Za-z0-9_]', '_', name)
    if not s or s[0].isdigit():
        s = 'f' + s
    return s

def gen_spec(rng, mode, patty=False):
    """mode 'clean': no name shared by two things (must construct in every order);
       mode 'dirty': collisions of every kind are likely;
       patty: most primary methods carry HttpPatterns, drawn from few addresses (overlaps, ties in the server's
       sort and, now and then, the same pattern on two methods)"""
    tns = rng.choice(NAMESPACES)
    others = [n for n in NAMESPACES if n != tns]
    bases = rng.sample(BASES, rng.randint(1, 3))
    pool = []
    for b in bases:
        pool.extend(variants(rng, b)[:rng.randint(3, 9)])
    pool = sorted(set(pool))
    rng.shuffle(pool)
    nsvc = rng.choice([1, 2, 2, 3, 3, 4, 4, 5])
    services = []
    uid = [0]
    used_names, used_fns, used_idents, used_out = set(), set(), set(), set()
    used_pats = {}
    prim_names = []
    for si in range(nsvc):
        aux = rng.random() < 0.3 and si > 0 or (rng.random() < 0.08)
        module = rng.choice(MODULES)
        cls = rng.choice(CLASSES)
        sname = rng.choice([None, None, None, 'Svc', 'sub.S', cls])
        if mode == 'clean':
            k = 0
            while module + '.' + (sname or cls) in used_idents:
                k += 1
                cls = rng.choice(CLASSES) + str(k)
                sname = None
            used_idents.add(module + '.' + (sname or cls))
        methods = []
        fns = set()
        for mi in range(rng.randint(1, 4)):
            uid[0] += 1
            m = {'uid': uid[0]}
            if aux and prim_names and rng.random() < 0.75:
                name = rng.choice(prim_names)          # fan out on an existing primary name
            else:
                name = rng.choice(pool)
            if mode == 'clean' and not aux:
                tries = 0
                while name in used_names or (name + 'Response') in used_names:
                    tries += 1
                    name = rng.choice(pool) + ('' if tries < 6 else str(uid[0]))
            how = rng.random()
            fn = ident(name)
            if how < 0.5 and fn == name:
                pass                                    # plain function name
            elif how < 0.75:
                fn = ident(rng.choice(pool)) if rng.random() < 0.5 else 'f%d' % uid[0]
                m['op'] = name
            else:
                fn = ident(rng.choice(pool)) if rng.random() < 0.5 else 'g%d' % uid[0]
                m['inm'] = name if rng.random() < 0.7 else '{%s}%s' % (rng.choice(others + [tns]), name)
            k = 0
            f0 = fn
            while fn in fns or (mode == 'clean' and (fn in used_fns or fn + 'Response' in used_names or fn in used_out)):
                k += 1
                fn = '%s_%d' % (f0, k)
            if 'op' not in m and 'inm' not in m and fn != name:
                m['op'] = name
            if mode == 'dirty' and rng.random() < 0.04:
                m['op'] = rng.choice(pool)
                m['inm'] = rng.choice(pool)             # both: the decorator's ValueError
            fns.add(fn)
            m['fn'] = fn
            if rng.random() < 0.1:
                o = rng.choice(pool) + 'Out'
                if mode == 'clean':
                    o = o + str(uid[0])
                m['outm'] = o if rng.random() < 0.6 else '{%s}%s' % (rng.choice(others), o)
            if rng.random() < 0.2:
                m['bare'] = rng.choice(['{urn:p}ParamA', '{%s}ParamB' % tns])
            if rng.random() < 0.06:
                m['suffix'] = rng.choice(['x', '_v2'])
            if mode == 'dirty' and rng.random() < 0.05:
                m['aux'] = True
            if not aux and not m.get('aux') and rng.random() < (0.85 if patty else 0.35):
                pats = []
                for _ in range(rng.choice([1, 1, 2])):
                    a = rng.choice([None, '/' + name, name, '/api/' + name, '/api/<x>', '/api/<x>', '/<a>/<b>', '/api/<x>/' + name,
                                    '/' + rng.choice(pool), '/v1/' + rng.choice(pool)])
                    if a is not None and not re.fullmatch(r'[A-Za-z0-9_/<>-]*', a):
                        a = '/p%d' % uid[0]
                    v = rng.choice([None, None, 'GET', 'DELETE', 'get'])
                    ra = a if a is not None else name
                    ra = ra if ra.startswith('/') else '/' + ra
                    if mode == 'clean' and used_pats.get((ra, v), name) != name and not (patty and rng.random() < 0.1):
                        continue                         # the same HttpPattern on two methods: dirty mode only
                    used_pats[(ra, v)] = name
                    pats.append({'address': a, 'verb': v})
                if pats:
                    m['patterns'] = pats
            methods.append(m)
            pn = public_name(m)
            if not aux:
                prim_names.append(pn)
                used_names.add(pn)
                used_names.add(m.get('outm', fn + 'Response').rpartition('}')[2])
                used_out.add(m.get('outm', fn + 'Response').rpartition('}')[2])
            used_fns.add(fn)
        svc = {'module': module, 'cls': cls, 'service_name': sname, 'aux': bool(aux), 'methods': methods}
        services.append(svc)
    return {'tns': tns, 'services': services}

def fixed_specs():
    """boundary applications that always run first (theorem witnesses, the defects found on the pinned tree)"""
    def M(uid, fn, **kw):
        d = {'uid': uid, 'fn': fn}; d.update(kw); return d
    def S(cls, methods, **kw):
        d = {'module': 'gen', 'cls': cls, 'service_name': None, 'aux': False, 'methods': methods}; d.update(kw); return d
    def A(*svcs, **kw):
        return {'tns': kw.get('tns', 'urn:t'), 'services': list(svcs)}
    P = lambda a=None, v=None: {'address': a, 'verb': v}
    return [
        ('similar-names', A(S('S1', [M(1, 'foo'), M(2, 'Foo'), M(3, 'foobar'), M(4, 'fo'), M(5, 'FOO', op='foo_')]))),
        ('aux-after-primary', A(S('S1', [M(1, 'foo')]), S('S2', [M(2, 'foo')], aux=True))),
        ('aux-before-primary', A(S('S2', [M(2, 'foo')], aux=True), S('S1', [M(1, 'foo')]))),
        ('two-aux-primary-middle', A(S('S2', [M(2, 'foo')], aux=True), S('S1', [M(1, 'foo'), M(4, 'bar')]), S('S3', [M(3, 'foo')], aux=True))),
        ('aux-only', A(S('S2', [M(2, 'foo')], aux=True))),
        ('dup-wrapped', A(S('S1', [M(1, 'foo')]), S('S2', [M(2, 'foo')]))),
        ('dup-via-inm', A(S('S1', [M(1, 'foo')]), S('S2', [M(2, 'bar', inm='foo')]))),
        ('dup-via-other-ns', A(S('S1', [M(1, 'foo')]), S('S2', [M(2, 'bar', inm='{urn:o}foo')]))),
        ('dup-bare', A(S('S1', [M(1, 'foo', bare='{urn:p}ParamA')]), S('S2', [M(2, 'foo', bare='{urn:p}ParamA')]))),
        ('dup-bare-same-service-identity', A(S('S1', [M(1, 'f1', inm='foo', bare='{urn:p}ParamA')]),
                                             S('S1', [M(2, 'f2', inm='foo', bare='{urn:p}ParamA')]))),
        ('dup-bare-same-identity-suffix', A(S('S1', [M(1, 'foo', bare='{urn:p}ParamA', suffix='a')]),
                                            S('S1', [M(2, 'foo', bare='{urn:p}ParamA', suffix='b')]))),
        ('aux-same-service-identity', A(S('S1', [M(1, 'foo')]), S('S1', [M(2, 'foo', suffix='x')], aux=True))),
        ('same-fn-different-name', A(S('S1', [M(1, 'foo')]), S('S2', [M(2, 'foo', inm='bar')]))),
        ('other-ns-in-message', A(S('S1', [M(1, 'bar', inm='{urn:o}baz'), M(2, 'baz2')]))),
        ('op-names', A(S('S1', [M(1, 'foo', op='opfoo'), M(2, 'bar', inm='inbar'), M(3, 'opfoo_')]))),
        ('patterns', A(S('S1', [M(1, 'foo', patterns=[P('/a/<x>')]), M(2, 'bar', patterns=[P('/a/b')]),
                               M(3, 'baz', patterns=[P(None, 'DELETE')]), M(4, 'qux', patterns=[P('zz', 'GET'), P('/zz/<y>')])]))),
        ('default-pattern-dotted-name', A(S('S1', [M(1, 'f1', op='put.x', patterns=[P(None, None)]), M(2, 'foo', patterns=[P(None, 'GET')])]))),
        ('pattern-shadows-name', A(S('S1', [M(1, 'foo', patterns=[P('/bar')]), M(2, 'bar')]))),
        ('identical-patterns', A(S('S1', [M(1, 'foo', patterns=[P('/x')]), M(2, 'bar', patterns=[P('/x')])]))),
        ('identical-patterns-two-services', A(S('S1', [M(1, 'foo', patterns=[P('/api/<x>', 'GET')])]),
                                             S('S2', [M(2, 'bar', patterns=[P('/y'), P('api/<x>', 'GET')])]))),
        ('identical-default-pattern', A(S('S1', [M(1, 'foo', patterns=[P(None, 'GET')]), M(2, 'bar', patterns=[P('/foo', 'GET')])]))),
        ('tie-patterns', A(S('S1', [M(1, 'foo', patterns=[P('/x')])]), S('S2', [M(2, 'bar', patterns=[P('/x', 'GET')])]),
                           S('S3', [M(3, 'baz', patterns=[P('/x', 'DELETE')]), M(4, 'qux', patterns=[P('/<y>', 'GET')])]))),
        ('same-pattern-twice-on-one-method', A(S('S1', [M(1, 'foo', patterns=[P('/x'), P('/x')]), M(2, 'bar', patterns=[P('/x/<y>')])]))),
        ('aux-with-pattern', A(S('S1', [M(1, 'foo')]), S('S2', [M(2, 'foo', patterns=[P('/p2')])], aux=True),
                               S('S3', [M(3, 'bar', patterns=[P('/p3')])], aux=True))),
        ('dotted-service-name', A(S('S', [M(1, 'foo')], service_name='a.S'), S('S', [M(2, 'S.foo')], module='gen.a'),
                                  S('S', [M(3, 'foo', inm='{urn:o}foo2')], module='gen.a', service_name='S2'))),
    ]

XML_NAME = re.compile(r'[A-Za-z_][A-Za-z0-9_.-]*\Z')

def near_misses(rng, n):
    v = [n.upper(), n.lower(), n.swapcase(), n[:-1], n[1:], n + n[-1:], n + '_', '_' + n, 'x' + n, n + 'x',
         n + ' ', ' ' + n, n + 'Response', n.capitalize(), n.replace('.', '-'), n.replace('.', 'x')]
    return [x for x in v if x and x != n]

def gen_requests(rng, spec, prot, nper):
    """requests for one protocol: every registered public name, near misses of each, other-namespace
    qualifications, unregistered names"""
    tns = spec['tns']
    names = sorted(set(public_name(m) for s, m in spec_methods(spec)))
    cand = list(names)
    for n in names:
        nm = near_misses(rng, n)
        rng.shuffle(nm)
        cand.extend(nm[:nper])
    cand.extend(['nosuch', '', 'a' * 40, '{%s}%s' % (tns, names[0] if names else 'x'), '{urn:zz}' + (names[0] if names else 'x')])
    reqs = []
    others = [x for x in NAMESPACES if x != tns]
    for n in cand:
        if prot in ('xml', 'soap'):
            if not XML_NAME.match(n):
                continue
            reqs.append({'kind': prot, 'ns': tns, 'local': n})
            r = rng.random()
            if r < 0.35:
                reqs.append({'kind': prot, 'ns': rng.choice(others), 'local': n})
            elif r < 0.5:
                reqs.append({'kind': prot, 'ns': None, 'local': n})
            elif r < 0.6:
                reqs.append({'kind': prot, 'ns': rng.choice([tns.upper(), tns + '/', tns[:-1] or 'urn:', tns + tns]), 'local': n})
        elif prot in ('json', 'msgpackdoc', 'msgpackrpc'):
            reqs.append({'kind': prot, 'key': n})
            if rng.random() < 0.2:
                reqs.append({'kind': prot, 'key': '{%s}%s' % (rng.choice(others + [tns]), n)})
        else:
            if '/' in n:
                continue
            verb = rng.choice(['GET', 'GET', 'GET', 'DELETE', 'HEAD'])
            reqs.append({'kind': 'http', 'verb': verb, 'path': rng.choice(['/', '/x/', '/api/v1/', '']) + n})
            if rng.random() < 0.3:
                reqs.append({'kind': 'http', 'verb': verb, 'path': '/' + n + '/'})
            if rng.random() < 0.2:
                reqs.append({'kind': 'http', 'verb': verb, 'path': '/{%s}%s' % (rng.choice(others + [tns]), n)})
    if prot == 'soap':
        # a Fault element instead of a method element; its texts are registered names, to tempt the router
        for n in (names[:2] or ['x']):
            reqs.append({'kind': 'soap-fault', 'code': rng.choice(['Client', 'Server', n]), 'string': n})
    if prot == 'http':
        # paths aimed at the patterns
        for s, m in spec_methods(spec):
            for pt in m.get('patterns', []):
                a = pt.get('address') or public_name(m)
                a = a if a.startswith('/') else '/' + a
                conc = re.sub(r'<[A-Za-z0-9_]+>', lambda _: rng.choice(['b', 'zz', '', 'foo', names[0] if names else 'q']), a)
                for verb in set([pt.get('verb') or 'GET', 'GET', 'DELETE']):
                    if verb not in ('POST', 'PUT', 'PATCH'):
                        reqs.append({'kind': 'http', 'verb': verb, 'path': conc})
                reqs.append({'kind': 'http', 'verb': 'GET', 'path': conc + '/extra'})
                reqs.append({'kind': 'http', 'verb': 'GET', 'path': conc[:-1]})
    return reqs

# ------------------------------------------------------------------ oracle
def named_by(spec, req):
    """the public name the request names in the application's target namespace, or None when it
    names nothing of this application (other namespace)  -> ('name', n) | ('none',) | ('ambiguous', names)"""
    tns = spec['tns']
    k = req['kind']
    if k == 'soap-fault':
        return ('none',)
    if k in ('xml', 'soap'):
        if req.get('ns') is None or req['ns'] == tns:
            return ('name', req['local'])
        return ('none',)
    if k in ('json', 'msgpackdoc', 'msgpackrpc'):
        return ('name', req['key'])
    how, what = http_expected(spec, req['verb'], req['path'])
    if how == 'unspecified':
        return ('unspecified', what)
    if how == 'pattern':
        if len(what) == 1:
            return ('name', what[0])
        return ('ambiguous', what)
    return ('name', what)

def oracle_request(check, spec, perm, prot, req, obs, stats):
    status, body, invoked = obs
    who = named_by(spec, req)
    replay = {'scenario': 'request', 'spec': spec, 'perm': list(perm), 'protocol': prot, 'request': req}
    if who[0] == 'unspecified':
        stats['unspecified'] = stats.get('unspecified', 0) + 1
        return
    if who[0] == 'ambiguous':
        # HttpPatterns of several methods match: which one wins is the server's documented order; whichever
        # wins, exactly that method (and its auxiliaries) must run
        stats['ambiguous'] = stats.get('ambiguous', 0) + 1
        cands = [expected_for(spec, n) for n in who[1]]
        if status == 'crash' or not any(invoked[:1] == pr[:1] and sorted(invoked[1:]) == sorted(ax) for pr, ax in cands):
            check.fail('C11|dispatch|http|overlapping-patterns|not-exactly-one-method',
                       'request %r matches the HttpPatterns of %r; functions run: %r (status %r) is not exactly one of '
                       'these methods with its auxiliaries' % (req, who[1], invoked, status), replay)
        return
    if who[0] == 'none':
        prim, aux = [], []
    else:
        prim, aux = expected_for(spec, who[1])
    if status == 'crash':
        check.fail('C11|dispatch|%s|crash|%s' % (req['kind'], body), 'request %r raised %s (invoked %r)' % (req, body, invoked), replay)
        return
    if not prim and not aux:
        stats['miss'] = stats.get('miss', 0) + 1
        if invoked:
            check.fail('C11|dispatch|%s|unregistered-name-ran-a-function' % req['kind'],
                       'request %r names no registered method but ran functions %r' % (req, invoked), replay)
        elif not is_not_found(status, body):
            check.fail('C11|dispatch|%s|unregistered-name-no-not-found-fault' % req['kind'],
                       'request %r names no registered method; answer %r %r is not the ResourceNotFound client fault'
                       % (req, status, body[:200]), replay)
        return
    stats['hit'] = stats.get('hit', 0) + 1
    head = invoked[:1] if prim else []
    rest = invoked[1:] if prim else invoked
    if len(prim) > 1:
        check.fail('C11|construct|duplicate-primary-name-accepted', 'two primary methods answer to %r and the application was built' % (who[1],), replay)
    elif head != prim[:1] or sorted(rest) != sorted(aux):
        extra = [u for u in invoked if u not in prim + aux]
        missing = [u for u in prim + aux if u not in invoked]
        shape = 'other-function-ran' if extra else 'function-not-run' if missing else 'wrong-count-or-order'
        if missing and not extra and set(missing) <= set(aux):
            shape = 'auxiliary-method-not-run'
        check.fail('C11|dispatch|%s|%s' % (req['kind'], shape),
                   'request %r names %r: expected primary %r then auxiliaries %r, functions run: %r (status %r)'
                   % (req, who[1], prim, aux, invoked, status), replay)

def oracle_construct(check, spec, results, stats):
    """results: list of (perm, code, info, view, scode, sinfo, patterns) over permutations of the service list;
    code = Application(...), scode = WsgiApplication(app) (0 = built)"""
    ok = [r for r in results if r[1] == 0 and r[4] == 0]
    bad = [r for r in results if r[1] != 0 or r[4] != 0]
    why = lambda r: r[2] if r[1] != 0 else r[5]
    replay = {'scenario': 'construct', 'spec': spec, 'perms': [list(r[0]) for r in results]}
    if ok and bad:
        check.fail('C11|construct|order-dependent|%s' % why(bad[0]),
                   'the application is built and served with service order %r but rejected (%s) with order %r'
                   % (list(ok[0][0]), why(bad[0]), list(bad[0][0])), replay)
    if spec_clean(spec) and identical_patterns(spec) is None and bad:
        check.fail('C11|construct|clean-application-rejected|%s' % why(bad[0]),
                   'no two methods, messages, services or HttpPatterns share a name, yet construction fails (%s) with order %r'
                   % (why(bad[0]), list(bad[0][0])), replay)
    if spec_valid(spec) and has_duplicate_primary(spec) and any(r[1] == 0 for r in results):
        check.fail('C11|construct|duplicate-primary-name-accepted',
                   'two primary methods answer to the same name and the application was built (order %r)'
                   % ([list(r[0]) for r in results if r[1] == 0][0],), replay)
    dup = identical_patterns(spec)
    if dup is not None and ok:
        check.fail('C11|http-pattern|identical-pattern-on-two-methods|accepted',
                   'methods %r and %r both carry HttpPattern(%r, verb=%r); neither Application nor WsgiApplication '
                   'rejects it (service order %r): which of the two answers is decided by set iteration order'
                   % (dup[2], dup[3], dup[0], dup[1], list(ok[0][0])), replay)
    if len(ok) > 1:
        def canon(view):
            # per key: the primary (head, if the name has one) and the multiset of the rest
            out = {}
            for k, us in view:
                name = k.partition('}')[2]
                prim, aux = expected_for(spec, name)
                out[k] = (us[0] if prim else None, tuple(sorted(us[1:] if prim else us)))
            return out
        c0 = canon(ok[0][3])
        for r in ok[1:]:
            if canon(r[3]) != c0:
                check.fail('C11|construct|routes-depend-on-service-order',
                           'service order %r gives routes %r, order %r gives %r' % (list(ok[0][0]), ok[0][3], list(r[0]), r[3]), replay)
                break
    for r in bad:
        if r[1] == 99 or r[4] == 99:
            stats['unclassified'] = stats.get('unclassified', 0) + 1

def concretise(address, fill='q'):
    return re.sub(r'<[A-Za-z0-9_]+>', fill, address)

def oracle_pattern_order(check, spec, perms, stats, rebuilds):
    """Which method answers a request that matches the HttpPatterns of several methods must not depend on the
    order of the service list, nor vary from one construction of the same application to the next.  Builds the
    application `rebuilds` times in each of the given orders and, where two servers try their patterns in a
    different order, drives the request that tells them apart through both."""
    if len(set((a, v, n) for a, v, n, u in resolved_patterns(spec))) < 2 or aux_patterns(spec):
        return
    servers = []
    for perm in perms:
        for k in range(rebuilds):
            sp = permuted(spec, perm)
            app, code, info = construct_real(sp, 'http')
            if app is None:
                return
            w, scode, sinfo, pats = serve_real(app)
            if w is None:
                return
            servers.append((perm, Driver(app, 'http', sp['tns']), pats))
    stats['pattern_order_specs'] = stats.get('pattern_order_specs', 0) + 1
    check.count(('pattern-order', json.dumps(spec, sort_keys=True)))
    p0, d0, l0 = servers[0]
    for p1, d1, l1 in servers[1:]:
        if l1 == l0:
            continue
        stats['pattern_order_varies'] = stats.get('pattern_order_varies', 0) + 1
        for x, y in zip(l0, l1):
            if x == y:
                continue
            # x and y tie in the server's sort: same address
            for verb in [v for v in (x[1], y[1], 'GET') if v is not None]:
                for fill in ('q', 'zz'):
                    req = {'kind': 'http', 'verb': verb, 'path': concretise(x[0], fill)}
                    o0, o1 = d0.call(req), d1.call(req)
                    if (o0[2][:1], sorted(o0[2][1:])) != (o1[2][:1], sorted(o1[2][1:])):
                        check.fail('C11|http-pattern|equal-address|winner-varies-between-constructions',
                                   'request %r ran functions %r on one server and %r on another server of the same '
                                   'application (service orders %r and %r): patterns %r and %r tie in HttpBase\'s sort and keep '
                                   'the iteration order of a set' % (req, o0[2], o1[2], list(p0), list(p1), x, y),
                                   {'scenario': 'pattern-order', 'spec': spec, 'perms': [list(p) for p in perms],
                                    'rebuilds': max(rebuilds, 8), 'request': req})
                        return
            break

# ------------------------------------------------------------------ the check
def all_perms(rng, n, limit):
    ps = list(itertools.permutations(range(n)))
    if len(ps) <= limit:
        return ps
    ident = tuple(range(n))
    rest = [p for p in ps if p != ident]
    rng.shuffle(rest)
    return [ident, tuple(reversed(ident))] + [p for p in rest if p != tuple(reversed(ident))][:limit - 2]

def run_spec(check, label, spec, tier, stats, ccases, dcases, full_requests=True, protocols=PROTOCOLS):
    rng = check.rng
    n = len(spec['services'])
    perms = all_perms(rng, n, 24 if tier == 'quick' else 120)
    results = []
    for perm in perms:
        sp = permuted(spec, perm)
        app, code, info = construct_real(sp, 'http')
        view = table_of(app) if app is not None else []
        scode, sinfo, pats = 0, '', []
        if app is not None:
            w, scode, sinfo, pats = serve_real(app)
        results.append((perm, code, info, view, scode, sinfo, pats))
        ccases.append(('(%s, %s, %s, %s, %s)' % (g_app(sp), gz(code), g_view(view), gz(scode), g_hpats(pats)),
                       'construct %s perm=%r -> Application: code %d %s; WsgiApplication: code %d %s'
                       % (label, list(perm), code, info, scode, sinfo)))
        check.count(('construct', json.dumps(sp, sort_keys=True)))
        stats['construct'] = stats.get('construct', 0) + 1
        stats['code%d' % (code or scode)] = stats.get('code%d' % (code or scode), 0) + 1
    oracle_construct(check, spec, results, stats)
    okperms = [r[0] for r in results if r[1] == 0 and r[4] == 0]
    if not okperms:
        return
    oracle_pattern_order(check, spec, [okperms[0], okperms[-1]] if len(okperms) > 1 else okperms, stats,
                         3 if tier == 'quick' else 6)
    # requests: identity order (or the first order that builds) with every protocol, one more order with two protocols
    plan = [(okperms[0], list(PROTOCOLS))]
    if len(okperms) > 1:
        plan.append((okperms[-1], [rng.choice(PROTOCOLS), 'http']))
    if not full_requests:
        plan = [(okperms[0], [rng.choice(protocols)])]
    for perm, prots in plan:
        sp = permuted(spec, perm)
        for prot in prots:
            app, code, info = construct_real(sp, prot)
            if app is None:
                check.mismatch('dispatch', 'application built with HttpRpc but not with %s: %s' % (prot, info))
                continue
            drv = Driver(app, prot, sp['tns'])
            reqs = gen_requests(rng, sp, prot, 3 if tier == 'quick' else 8)
            obs_terms = []
            for req in reqs:
                if prot == 'msgpackrpc':
                    # a bare method takes its one parameter positionally
                    prim, aux = expected_for(sp, req['key'])
                    bare = any(m.get('bare') is not None for s, m in spec_methods(sp) if m['uid'] in prim + aux)
                    req = dict(req, args=[{}] if bare else [])
                status, body, invoked = drv.call(req)
                oracle_request(check, sp, perm, prot, req, (status, body, invoked), stats)
                found = not is_not_found(status, body)
                obs_terms.append('(%s, %s, %s)' % (g_wire(req), gbool(found), glist([gz(u) for u in invoked])))
                check.count(('req', prot, json.dumps(sp, sort_keys=True), json.dumps(req, sort_keys=True)))
                stats['requests'] = stats.get('requests', 0) + 1
                stats['req_' + prot] = stats.get('req_' + prot, 0) + 1
            for i in range(0, len(obs_terms), 40):
                dcases.append(('(%s, %s)' % (g_app(sp), glist(obs_terms[i:i + 40])),
                               'dispatch %s perm=%r prot=%s requests %d..%d: %s' % (
                                   label, list(perm), prot, i, i + 40, json.dumps(reqs[i:i + 40])[:1500])))
            if len(check.samples) < 10 and reqs:
                check.sample({'app': label, 'protocol': prot, 'services': len(sp['services']),
                              'methods': len(spec_methods(sp)), 'request': reqs[0]})

def run(check):
    tier = check.tier
    rng = check.rng
    check.rule = ('generated applications: 1-5 services x 1-4 methods, public names drawn from case / prefix / suffix / '
                  'separator variants of 1-3 base names, given through the function name, _operation_name or '
                  '_in_message_name (plain or {ns}-qualified), auxiliary services fanning out on primary names, bare and '
                  'wrapped bodies, HttpPatterns; "clean" mode (no shared names: must build in every order), "dirty" mode '
                  '(collisions of every kind likely) and "patty" mode (most methods carry HttpPatterns drawn from few '
                  'addresses: overlaps, ties in the server\'s sort, now and then the same pattern on two methods); 19+ fixed '
                  'boundary applications (theorem witnesses, every defect found on the pinned tree); every permutation of '
                  'the service list up to 4 services (24 sampled of 120 for 5), each built with Application(...) and then '
                  'WsgiApplication(app); requests: every registered name and its near misses (case, prefix, suffix, '
                  'separator, blank, other namespace, doubly qualified) through HttpRpc URL path and HttpPattern, XmlDocument '
                  'root tag, Soap11 body child, JsonDocument / MessagePackDocument single key, MessagePackRpc method field, and '
                  'SOAP Fault elements sent as the request (method_request_string None: nothing may run, not found); '
                  'applications with overlapping patterns are rebuilt several times in two service orders and a request '
                  'that tells two pattern orders apart is driven through both servers. '
                  'A case is distinct by (application spec in its service order) for constructions and by '
                  '(application, protocol, request) for requests.')
    check.trusted = list(lib.COMMON_TRUSTED) + [
        'the spec -> real Spyne application builder in harness/c11.py (ServiceMeta(...) with generated @srpc functions '
        'that append their uid to a log) and its Gallina printer',
        'modelled, not verified: lxml element .tag in Clark notation, json/msgpack decoding of the single key, '
        're full-match of an HttpPattern address restricted to literal characters and <name> placeholders, literal verbs, '
        'Python str comparison as lexicographic comparison of code points (the server\'s sort)',
        'harness/translate/routekeys.py: the statement-for-statement skeletons of process_method, get_call_handles, '
        'generate_method_contexts, the gen_method_request_string / decompose_incoming_envelope naming sites, '
        'check_unique_method_keys, HttpBase.__init__ and match_pattern mean what coq/C11/Model.v says; the extracted '
        'tokens (six \'{%s}%s\' formats, the \'{\' prefix, the insert index, the split separator and index) are '
        'proved to render the model\'s strings (Props.C11_src)',
        'the oracle\'s reading of the property: public name = local part of _in_message_name, else _operation_name, else '
        'the function name; HttpPattern routes take precedence over the last-URL-segment route (match_pattern docstring); '
        'a request matching the HttpPatterns of several methods must run exactly one of them (which one is the '
        'server\'s documented order, required to be the same in every listing and every construction)',
    ]
    check.assumptions = [
        'services expose @srpc/@rpc functions only (no @mrpc member methods, no in/out headers, no declared faults)',
        'message and parameter class names do not live in the XSD namespace; HttpPattern host is None (a host pattern '
        'cannot be constructed on Python 3: _compile_host_pattern mixes bytes and str); explicitly given address '
        'patterns use only literal [A-Za-z0-9_/-] characters and <name> placeholders; verbs are non-empty literals',
        'C11_permutation_served (same pattern order, same handlers for every request, in every listing) assumes that '
        'auxiliary methods carry no HttpPatterns: a route made of auxiliary methods only takes the patterns of '
        'whichever of them was listed first (modelled and exercised by the correspondence, fixed application '
        '"aux-with-pattern"; the property does not say what an auxiliary method\'s pattern means)',
        'SyncAuxProc is the auxiliary processor (ThreadAuxProc runs the same contexts on a thread pool)',
        'requests go through WsgiApplication; the response protocol is JsonDocument (Soap11 for Soap11 requests)',
    ]
    check.regen(['routekeys'])
    from translate import routekeys
    why = routekeys.shape_report(os.path.join(lib.COQ, 'Gen'))
    if why:
        # say WHICH function no longer has the shape the model mirrors (the proof side only sees rk_shape_ok = false)
        check.broken.append(('translator', 'routekeys', why))
    check.check_sources()
    check.prove('Props.C11', THEOREMS)
    check.prove('Props.C11_src', SRC_THEOREMS)
    stats = {}
    ccases, dcases = [], []
    for label, spec in fixed_specs():
        run_spec(check, label, spec, tier, stats, ccases, dcases)
    nclean, ndirty, npatty = (80, 80, 50) if tier == "quick" else (450, 450, 250)
    for i in range(nclean):
        run_spec(check, 'clean%d' % i, gen_spec(rng, 'clean'), tier, stats, ccases, dcases, full_requests=(i % 3 == 0 or tier != 'quick'))
    for i in range(ndirty):
        run_spec(check, 'dirty%d' % i, gen_spec(rng, 'dirty'), tier, stats, ccases, dcases, full_requests=(i % 3 == 0 or tier != 'quick'))
    for i in range(npatty):
        run_spec(check, 'patty%d' % i, gen_spec(rng, 'clean', patty=True), tier, stats, ccases, dcases, full_requests=False,
                 protocols=['http'])
    lib.correspond(check, 'construct', IMPORTS, CONSTRUCT_TYPE, CONSTRUCT_OKB, ccases,
                   shard=150, show=CONSTRUCT_SHOW)
    lib.correspond(check, 'dispatch', IMPORTS, DISPATCH_TYPE, DISPATCH_OKB, dcases, shard=60, show=DISPATCH_SHOW)
    bad = lib.flush_correspondences(check)
    check.extra['distribution'] = stats
    return check.finish()


def _finish_replay(check):
    """verdict of a replay without rewriting the evidence file of the last full run"""
    for key, what in check.known_seen.items():
        check.say('KNOWN-FINDING: property=%s %s [%s]' % (check.pid, what, key))
    for key, what, path in check.violations:
        check.say('VIOLATION property=%s replay=%s' % (check.pid, path))
        check.log('  violation: %s [%s]' % (what, key))
    if not check.violations:
        check.log('replay: no violation reproduced on %s' % lib.REPO)
    return 1 if check.violations else 0


def replay(check, path):
    r = json.load(open(path))
    rp = r.get('replay', {})
    print(json.dumps(r, indent=1)[:6000])
    stats = {}
    sc = rp.get('scenario')
    if sc == 'construct':
        results = []
        for perm in rp['perms']:
            sp = permuted(rp['spec'], perm)
            app, code, info = construct_real(sp, 'http')
            scode, sinfo, pats = 0, '', []
            if app is not None:
                w, scode, sinfo, pats = serve_real(app)
            results.append((tuple(perm), code, info, table_of(app) if app is not None else [], scode, sinfo, pats))
            print('order %r -> Application %s %s; WsgiApplication %s %s' % (
                perm, 'built' if code == 0 else 'rejected', info,
                '-' if code != 0 else 'built' if scode == 0 else 'rejected', sinfo))
        oracle_construct(check, rp['spec'], results, stats)
    elif sc == 'request':
        sp = rp['spec']
        app, code, info = construct_real(sp, rp['protocol'])
        if app is None:
            print('application is rejected now: %s' % info)
        else:
            try:
                drv = Driver(app, rp['protocol'], sp['tns'])
            except RuntimeError as e:
                print('%s' % e)
                return _finish_replay(check)
            obs = drv.call(rp['request'])
            print('request -> status %r, functions run %r' % (obs[0], obs[2]))
            oracle_request(check, sp, tuple(rp['perm']), rp['protocol'], rp['request'], obs, stats)
    elif sc == 'pattern-order':
        oracle_pattern_order(check, rp['spec'], [tuple(p) for p in rp['perms']], stats, rp.get('rebuilds', 8))
        print('pattern-order: %r' % (stats,))
    else:
        print('nothing to re-run for this replay (broken obligation / correspondence)')
    return _finish_replay(check)
