"""C15 - deriving a model never changes another model; field order is deterministic.

Theorems (coq/Props/C15.v, coq/Props/C15_src.v) are about the class-store model coq/C15/Model.v of the
REPAIRED derivation code (proposed_fixes/C15-*.patch).  This module
  * regenerates coq/Gen/DeriveSrc.v from the source text of the tree under check (harness/translate/derive.py)
    and proves Props.C15 / Props.C15_src,
  * generates seeded histories of derivation / evolution operations (structured, mostly valid, plus a
    malformed stream the implementation must refuse) over a pool of real Spyne classes and applies them to
    the implementation,
  * correspondence: replays every history on the model (coqc / vm_compute) and compares the structural
    snapshot of EVERY pooled class after EVERY step, the validation verdicts on probe values and the flat
    field order; checks that the initial pool satisfies the hypothesis of the theorems (wfb, completeb),
  * direct oracle on the implementation alone: frame (no older class changes; a raising operation changes
    nothing), fresh (the new class carries exactly the requested constraints over the original's),
    propagation of append_field / insert_field to every customized variant and to nothing else, declaration
    order (type info, XSD sequence, XML and dict protocol output), caller arguments not mutated, Xml modifiers,
    rendered-schema frame (forked children) and independence of PYTHONHASHSEED (sub-processes)."""
import os, sys, json, copy, decimal, hashlib, subprocess, traceback, pickle
import lib
from lib import gz, gtext, glist, gbool, gopt, gpair

THEOREMS = ['C15_invariants_hold', 'C15_invariants_decidable', 'C15_derivation_returns_new_class',
            'C15_frame_derivation', 'C15_frame_step', 'C15_frame_history', 'C15_frame_derivations',
            'C15_evolution_records', 'C15_propagates', 'C15_fresh_simple', 'C15_fresh_complex',
            'C15_mandatory_is_mandatory', 'C15_array_shape', 'C15_protocols_untouched',
            'C15_protocols_untouched_history', 'C15_call_keeps_encoding',
            'C15_customize_keeps_fields', 'C15_customize_keeps_order', 'C15_fresh_decimal_keywords',
            'C15_order_append', 'C15_order_insert', 'C15_order_declared', 'C15_order_flat',
            'C15_order_parents_first', 'C15_order_flat_distinct', 'C15_odict_keys']

D_INF = decimal.Decimal('inf')

# ------------------------------------------------------------------ vocabulary shared with Model.v
KEY = {'nillable': 0, 'nullable': 0, 'min_occurs': 1, 'max_occurs': 2, 'default': 3, 'ge': 4, 'gt': 5,
       'le': 6, 'lt': 7, 'min_len': 8, 'max_len': 9, 'pattern': 10, 'values': 11, 'max_str_len': 12,
       'exc': 13, 'sub_name': 14, 'sub_ns': 15, 'total_digits': 16, 'fraction_digits': 17,
       'exc_table': 18, 'exc_db': 19, '_explicit_type_name': 20, 'type_name': 21, 'min_bound': 22,
       'max_bound': 23, 'read_only': 24, 'validate_freq': 25, 'not_wrapped': 26, 'exc_interface': 27,
       'format': 28, 'empty_is_none': 29, 'wsdl_part_name': 30, 'encoding': 31, 'prot': 32, 'protocol': 33, 'p': 34,
       'primary_key': 35, 'pk': 36, 'col:primary_key': 37, 'autoincrement': 38, 'onupdate': 39, 'server_default': 40,
       '_foo': -1, '_variants': -2}
# keys observed by Model.obs_keys, with the Python name they are read through
OBS = [(0, 'nillable'), (1, 'min_occurs'), (2, 'max_occurs'), (3, 'default'), (4, 'ge'), (5, 'gt'), (6, 'le'),
       (7, 'lt'), (8, 'min_len'), (9, 'max_len'), (10, 'pattern'), (11, 'values'), (12, 'max_str_len'),
       (13, 'exc'), (14, 'sub_name'), (15, 'sub_ns'), (16, 'total_digits'), (17, 'fraction_digits'),
       (18, 'exc_table'), (19, 'exc_db'), (20, '_explicit_type_name'), (22, 'min_bound'), (23, 'max_bound'),
       (24, 'read_only'), (25, 'validate_freq'), (26, 'not_wrapped'), (27, 'exc_interface'), (28, 'format'),
       (29, 'empty_is_none'), (30, 'wsdl_part_name'), (31, 'encoding'), (32, 'prot'),
       # Attributes.primary_key, and the entries of the keyword dictionary of Attributes.sqla_column_args (what
       # sqlalchemy.Column is called with): a derivative gets a deep copy of its original's
       (35, 'primary_key'), (37, 'col:primary_key'), (38, 'col:autoincrement'), (39, 'col:onupdate'), (40, 'col:server_default')]
# protocols that may be passed as prot= / protocol= / p=: user-defined ProtocolBase subclasses that declare
# type_attrs (defaults merged into every derivation made with them); index -> declared type_attrs
PROT_DECL = [[('min_occurs', 1)], [('sub_name', 'viaprot'), ('nillable', False)], []]
PROTS = []          # the long-lived instances, made by S()
ENCODINGS = {'hex': 'HEX', 'hexBinary': 'HEX', 'base64': 'BASE64', 'base64Binary': 'BASE64',
             'urlsafe_base64': 'URLSAFE_BASE64', None: 'USE_DEFAULT'}
DEPTH = 4
INT_PROBES = [None, -1, 0, 1, 5, 10, 100]
LEN_PROBES = [None, 0, 1, 3, 10, 13, 2000]
EXN = {'ValueError': 'ValueError', 'TypeError': 'TypeError', 'AttributeError': 'AttributeError',
       'KeyError': 'KeyError', 'IndexError': 'IndexError', 'AssertionError': 'AssertionError'}
_MISSING = object()


class Unmodelled(Exception):
    pass


def S():
    """the Spyne names used here (imported lazily: lib.ensure_repo_on_path() must run first)"""
    import spyne.const
    from spyne.model import complex as cx
    from spyne.model import _base as mb
    from spyne.model import primitive as pr
    from spyne.model.binary import ByteArray
    class NS(object):
        pass
    ns = NS()
    ns.cx, ns.mb, ns.pr, ns.const = cx, mb, pr, spyne.const
    ns.ComplexModel, ns.Array, ns.Iterable, ns.Mandatory = cx.ComplexModel, cx.Array, cx.Iterable, cx.Mandatory
    ns.ComplexModelBase, ns.ModelBase, ns.SimpleModel = cx.ComplexModelBase, mb.ModelBase, mb.SimpleModel
    ns.Integer, ns.Unicode, ns.Boolean, ns.Integer32, ns.Decimal = pr.Integer, pr.Unicode, pr.Boolean, pr.Integer32, pr.Decimal
    ns.ByteArray = ByteArray
    from spyne.model import binary
    from spyne.protocol import ProtocolBase
    from spyne.protocol.json import JsonDocument
    ns.binary, ns.ProtocolBase, ns.JsonDocument = binary, ProtocolBase, JsonDocument
    if not PROTS:
        for i, decl in enumerate(PROT_DECL):
            pc = type('C15Prot%d' % i, (ProtocolBase,), {'type_attrs': dict(decl)})
            inst = pc()
            inst._c15_index = i
            PROTS.append(inst)
    ns.prots = PROTS
    return ns


def base_pool(ns):
    return [ns.ComplexModel, ns.Array, ns.Iterable, ns.Integer, ns.Unicode, ns.Boolean, ns.Integer32,
            ns.Decimal, ns.ByteArray]
NBASE = 9
H_COMPLEXMODEL, H_ARRAY, H_ITERABLE = 0, 1, 2


# ------------------------------------------------------------------ values
def dec_val(v):
    """JSON value of an operation -> Python value"""
    if isinstance(v, dict):
        if 'inf' in v:
            return D_INF
        if 'ninf' in v:
            return -D_INF
        if 'ints' in v:
            return list(v['ints'])
        if 'prot' in v:
            return PROTS[v['prot']]
        raise ValueError(v)
    return v

def to_aval(v):
    if v is None:
        return ('none',)
    if isinstance(v, bool):
        return ('bool', v)
    if isinstance(v, int):
        return ('int', v)
    if isinstance(v, decimal.Decimal):
        if v.is_infinite():
            return ('inf',) if v > 0 else ('ninf',)
        if v == v.to_integral_value():
            return ('int', int(v))
    if isinstance(v, float):
        if v == float('inf'):
            return ('inf',)
        if v == float('-inf'):
            return ('ninf',)
    if isinstance(v, str):
        return ('str', v)
    if isinstance(v, (list, tuple)) and all(isinstance(x, int) and not isinstance(x, bool) for x in v):
        return ('ints', list(v))
    if isinstance(v, (set, frozenset)) and len(v) == 0:
        return ('emptyset',)
    if hasattr(v, '_c15_index'):
        return ('int', v._c15_index)                  # a protocol object: its index in Model.protos
    if isinstance(v, type) and v.__name__.startswith('BINARY_ENCODING_'):
        return ('str', v.__name__[len('BINARY_ENCODING_'):])
    raise Unmodelled('attribute value %r' % (v,))

def g_aval(a):
    t = a[0]
    if t == 'none': return 'VNone'
    if t == 'bool': return '(VBool %s)' % gbool(a[1])
    if t == 'int': return '(VInt %s)' % gz(a[1])
    if t == 'inf': return 'VInf'
    if t == 'ninf': return 'VNegInf'
    if t == 'str': return '(VStr %s)' % gtext(a[1])
    if t == 'ints': return '(VInts %s)' % glist([gz(x) for x in a[1]])
    if t == 'emptyset': return 'VEmptySet'
    raise Unmodelled(a)

def g_kw(kw):
    return glist(['(%s, %s)' % (gz(KEY[k]), g_aval(to_aval(dec_val(v)))) for k, v in kw])

def g_ca(ca):
    return glist(['(%s, %s)' % (gtext(k), g_kw(v)) for k, v in ca])

def g_op(op):
    t = op[0]
    if t == 'cust':
        _, h, kw, ca, caa, ne, style = op
        if style == 'call' and ca is None and caa is None and ne is None:
            return '(OCall %s %s)' % (gz(h), g_kw(kw))          # T(kw) on a primitive: SimpleModel/ByteArray.__new__
        return '(OCustomize %s %s %s %s %s)' % (gz(h), g_kw(kw), gopt(ca, g_ca), gopt(caa, g_kw), gopt(ne, g_ca))
    if t == 'array':
        return '(OArray %s %s %s)' % (gz(op[1]), gz(op[2]), g_kw(op[3]))
    if t == 'mand':
        return '(OMandatory %s)' % gz(op[1])
    if t == 'sub':
        return '(OSubclass %s %s %s)' % (gz(op[1]), gtext(op[2]),
                                         glist(['(%s, %s)' % (gtext(k), gz(h)) for k, h in op[3]]))
    if t == 'app':
        return '(OAppend %s %s %s)' % (gz(op[1]), gtext(op[2]), gz(op[3]))
    if t == 'ins':
        return '(OInsert %s %s %s %s)' % (gz(op[1]), gz(op[2]), gtext(op[3]), gz(op[4]))
    raise ValueError(op)


# ------------------------------------------------------------------ observing real classes
def kind_of(ns, cls):
    if issubclass(cls, ns.Array):
        return 'KArray'
    if issubclass(cls, ns.ComplexModelBase):
        return 'KComplex'
    if issubclass(cls, ns.Decimal):
        return '(KSimple FDecimal)'
    if issubclass(cls, ns.Unicode):
        return '(KSimple FUnicode)'
    if issubclass(cls, ns.ByteArray):
        return '(KSimple FByteArray)'
    if issubclass(cls, ns.SimpleModel):
        return '(KSimple FPlain)'
    raise Unmodelled('kind of %r' % cls)

def tname_of(ns, cls):
    t = cls.__type_name__
    if t is ns.ModelBase.Empty:
        return ('E',)
    if t is None:
        return None
    return ('S', t)

def own_fields(ns, cls):
    if issubclass(cls, ns.ComplexModelBase):
        return list(cls._type_info.items())
    return []

def attrs_of(cls):
    out = []
    for k, name in OBS:
        if name.startswith('col:'):
            sca = getattr(cls.Attributes, 'sqla_column_args', None)
            v = _MISSING if sca is None else sca[-1].get(name[4:], _MISSING)
        else:
            v = getattr(cls.Attributes, name, _MISSING)
        if v is _MISSING:
            continue
        out.append((k, to_aval(v)))
    return out

def snap(ns, cls, depth=DEPTH):
    """the snapshot Model.obs computes, as a nested tuple"""
    if depth == 0:
        return 'SCut'
    ext = cls.__extends__
    return ('Snap', kind_of(ns, cls), tname_of(ns, cls), cls.__orig__ is not None, attrs_of(cls),
            'SNo' if ext is None else snap(ns, ext, depth - 1),
            [(k, snap(ns, v, depth - 1)) for k, v in own_fields(ns, cls)])

def g_tn(t):
    if t is None:
        return 'None'
    if t[0] == 'E':
        return '(Some TEmpty)'
    return '(Some (TStr %s))' % gtext(t[1])

def g_snap(s):
    if isinstance(s, str):
        return s
    _, kind, tn, cust, attrs, ext, fields = s
    return '(Snap %s %s %s %s %s %s)' % (
        kind, g_tn(tn), gbool(cust), glist(['(%s, %s)' % (gz(k), g_aval(a)) for k, a in attrs]),
        g_snap(ext), glist(['(%s, %s)' % (gtext(k), g_snap(v)) for k, v in fields]))

def canon(v, depth=3):
    """address-free canonical form of any attribute value (oracle snapshots)"""
    if v is None or isinstance(v, (bool, int, str, bytes)):
        return repr(v)
    if isinstance(v, (decimal.Decimal, float)):
        return 'num:' + str(v)
    if depth == 0:
        return 'deep:' + type(v).__name__
    if isinstance(v, dict):
        return 'dict:' + repr(sorted((canon(k, depth - 1), canon(x, depth - 1)) for k, x in v.items()))
    if isinstance(v, (list, tuple)):
        return 'seq:' + repr([canon(x, depth - 1) for x in v])
    if isinstance(v, (set, frozenset)):
        return 'set:' + repr(sorted(canon(x, depth - 1) for x in v))
    if isinstance(v, type):
        return 'class:' + v.__name__
    return 'obj:' + type(v).__name__

PRIVATE_REGISTRIES = ('_variants', '_subclasses', '_delayed_child_attrs', '_delayed_child_attrs_all',
                      'parent_variant', 'methods', 'child_attrs', 'child_attrs_all', 'child_attrs_noexc')

def all_attrs(cls):
    """every resolved public constraint of cls.Attributes (not only the modelled keys)"""
    out = []
    A = cls.Attributes
    for name in sorted(set(dir(A)) | set(('nillable', 'nullable', 'pattern', 'default_factory'))):
        if name.startswith('__') or name in PRIVATE_REGISTRIES:
            continue
        if name.startswith('_') and name not in ('_explicit_type_name', '_wrapper'):
            continue
        try:
            v = getattr(A, name)
        except AttributeError:
            continue
        except Exception as e:
            v = 'raises:' + type(e).__name__
        if callable(v) and not isinstance(v, type):
            v = 'callable:' + getattr(v, '__name__', type(v).__name__)
        out.append((name, canon(v)))
    # the (args, kwargs) pair sqlalchemy.Column is called with, entry by entry
    sca = getattr(A, 'sqla_column_args', None)
    if sca is not None:
        out.append(('colargs', canon(len(sca[0]))))
        for k in sorted(sca[-1]):
            out.append(('col:' + k, canon(sca[-1][k])))
    return out

def deep(ns, cls, depth=DEPTH):
    """oracle snapshot: everything observable about the class, recursively"""
    if cls is None:
        return None
    if depth == 0:
        return 'cut'
    return (kind_of(ns, cls), cls.__name__, canon(cls.__type_name__), canon(cls.__namespace__),
            cls.__orig__ is not None, tuple(all_attrs(cls)), canon(cls.Annotations.doc),
            deep(ns, cls.__extends__, depth - 1),
            tuple((k, deep(ns, v, depth - 1)) for k, v in own_fields(ns, cls)),
            tuple(cls.get_flat_type_info(cls).keys()) if issubclass(cls, ns.ComplexModelBase) else (),
            alias_tables(ns, cls))

def alias_key(k, v):
    """SPEC: the key, other than its name, under which a field is written and must be read"""
    sub_ns, sub_name = v.Attributes.sub_ns, v.Attributes.sub_name
    if sub_ns is None and sub_name is None:
        return None
    if sub_ns is not None and sub_name is not None:
        return '{%s}%s' % (sub_ns, sub_name)
    if sub_ns is None:
        return sub_name
    return '{%s}%s' % (sub_ns, k)

def alias_tables(ns, cls):
    """the alias tables as the protocols read them: get_flat_type_info(cls).alt (dict documents, XML) and
    cls._type_info_alt, as (alias, field name) pairs"""
    if not issubclass(cls, ns.ComplexModelBase):
        return ()
    flat = cls.get_flat_type_info(cls)
    return (tuple(sorted((key, kv[1]) for key, kv in flat.alt.items())),
            tuple(sorted((key, kv[1]) for key, kv in cls._type_info_alt.items())))

def alias_failures(ns, cls):
    """every field that is written under an alias is read under it, by the type the class has for it,
    and nothing else is an alias"""
    flat = cls.get_flat_type_info(cls)
    spec = {}
    for k, v in flat.items():
        key = alias_key(k, v)
        if key is not None:
            spec[key] = (k, id(v))
    got = dict((key, (kv[1], id(kv[0]))) for key, kv in flat.alt.items())
    out = []
    for key in sorted(set(spec) | set(got)):
        if key not in got:
            out.append(('missing', 'field %r is written as %r but the alias table of the flat type info does not know it' % (spec[key][0], key)))
        elif key not in spec:
            out.append(('stale', 'the alias table still maps %r to field %r, which is not written under that name' % (key, got[key][0])))
        elif got[key][0] != spec[key][0]:
            out.append(('wrong-field', 'alias %r is mapped to field %r, expected %r' % (key, got[key][0], spec[key][0])))
        elif got[key][1] != spec[key][1]:
            out.append(('wrong-type', 'alias %r of field %r is mapped to another type than the one the class has for the field' % (key, spec[key][0])))
    own_keys = [alias_key(k, v) for k, v in cls._type_info.items()]
    for k, v in cls._type_info.items():
        key = alias_key(k, v)
        # (two own fields written under one name: which one is read is the caller's problem, not ours)
        if key is not None and own_keys.count(key) == 1 and spec.get(key, (None,))[0] == k:
            e = cls._type_info_alt.get(key)
            if e is None or e[1] != k or e[0] is not v:
                out.append(('own-table', 'cls._type_info_alt does not map %r to the own field %r and its type' % (key, k)))
    return out

def verdicts_of(ns, cls):
    """validation verdicts on the probe values (None when the validator raises)"""
    def v(f, x):
        try:
            return bool(f(cls, x))
        except Exception:
            return None
    k = kind_of(ns, cls)
    if k == '(KSimple FDecimal)':
        return [v(cls.validate_native, x) for x in INT_PROBES] + \
               [v(cls.validate_string, None if n is None else '1' * n) for n in LEN_PROBES]
    if k == '(KSimple FUnicode)':
        return [v(cls.validate_string, None if n is None else 'x' * n) for n in LEN_PROBES]
    return []

def reach(ns, roots):
    """all classes reachable from roots through field types and __extends__ (by identity)"""
    seen, todo = {}, list(roots)
    while todo:
        c = todo.pop()
        if c is None or id(c) in seen:
            continue
        seen[id(c)] = c
        todo.append(c.__extends__)
        for _, t in own_fields(ns, c):
            todo.append(t)
    return seen


# ------------------------------------------------------------------ applying operations to Spyne
def build_kwargs(kw):
    return dict((k, dec_val(v)) for k, v in kw)

def apply_op(ns, pool, op, names):
    """runs one operation on the implementation; returns ('ok', new class or None, extra) or ('exn', name)"""
    t = op[0]
    extra = {}
    try:
        if t == 'cust':
            _, h, kw, ca, caa, ne, style = op
            cls = pool[h]
            kwargs = build_kwargs(kw)
            if ca is not None:
                kwargs['child_attrs'] = dict((k, build_kwargs(v)) for k, v in ca)
            if caa is not None:
                kwargs['child_attrs_all'] = build_kwargs(caa)
            if ne is not None:
                kwargs['child_attrs_noexc'] = dict((k, build_kwargs(v)) for k, v in ne)
            before = dict((k, v if hasattr(v, '_c15_index') else copy.deepcopy(v)) for k, v in kwargs.items())
            if style == 'call' and issubclass(cls, ns.SimpleModel):
                new = cls(**kwargs)
            elif style == 'index':
                new = cls[kwargs]
            else:
                new = cls.customize(**kwargs)
            extra['args_before'], extra['args_after'] = before, kwargs
        elif t == 'array':
            new = pool[op[1]](pool[op[2]], **build_kwargs(op[3]))
        elif t == 'mand':
            new = ns.Mandatory(pool[op[1]])
        elif t == 'sub':
            _, ph, name, fs = op
            env = {'P': pool[ph]}
            src = 'class %s(P):\n' % name
            for i, (k, th) in enumerate(fs):
                env['T%d' % i] = pool[th]
                src += '    %s = T%d\n' % (k, i)
            if not fs:
                src += '    pass\n'
            env['__name__'] = 'c15gen'
            exec(src, env)
            new = env[name]
        elif t == 'app':
            pool[op[1]].append_field(op[2], pool[op[3]])
            new = None
        elif t == 'ins':
            pool[op[1]].insert_field(op[2], op[3], pool[op[4]])
            new = None
        else:
            raise ValueError(op)
    except Exception as e:
        return ('exn', type(e).__name__, traceback.format_exc()[-600:])
    return ('ok', new, extra)


# ------------------------------------------------------------------ the direct oracle
def requested(ns, cls, kw, style=None):
    """SPEC of 'the requested constraints': Python attribute name -> value the new class must show,
    for a customize(**kw) of cls, or the call cls(**kw) when style == 'call' (aliases and documented
    normalisations only).  A protocol passed as prot= / protocol= / p= contributes its DECLARED
    type_attrs (PROT_DECL: what the caller wrote, not what the object says now) under the keywords."""
    d = dict((k, dec_val(v)) for k, v in kw)
    if style == 'call' and issubclass(cls, ns.ByteArray) and 'encoding' in d and d['encoding'] in ENCODINGS:
        d['encoding'] = getattr(ns.binary, 'BINARY_ENCODING_' + ENCODINGS[d['encoding']])
    prot = None
    for name in ('protocol', 'prot', 'p'):
        if d.get(name) is not None:
            prot = d[name]
            break
    if prot is not None and PROT_DECL[prot._c15_index]:
        merged = dict(PROT_DECL[prot._c15_index])
        merged.update(d)
        d = merged
    req = {}
    for k, v in d.items():
        if k.startswith('_'):
            continue
        if k in ('prot', 'protocol', 'p'):
            req['prot'] = v
        elif k in ('pk', 'primary_key'):
            req['primary_key'] = v
            req['col:primary_key'] = v
        elif k in ('autoincrement', 'onupdate', 'server_default'):
            req['col:' + k] = v                      # column options only: not attributes of their own
        elif k == 'type_name':
            req['_explicit_type_name'] = True
        elif k in ('nillable', 'nullable'):
            req['nillable'] = v
            req['nullable'] = v
        elif k == 'exc_table':
            req['exc_table'] = v
            req['exc_db'] = v
        elif k == 'max_occurs' and (v in ('unbounded', 'inf') or v == D_INF):
            req['max_occurs'] = D_INF
        elif k == 'pattern' and issubclass(cls, ns.SimpleModel):
            req['pattern'] = req['unicode_pattern'] = v    # one property behind both names
        else:
            req[k] = v
    if issubclass(cls, ns.Decimal):
        d = dict((k, dec_val(v)) for k, v in kw)
        if d.get('max_str_len') is None:
            req.pop('max_str_len', None)
            if d.get('total_digits') is not None:
                req['max_str_len'] = d['total_digits'] + 2      # sign and decimal separator
    return req

def fresh_failures(ns, old, old_attrs, new, kw, site, style=None):
    """'returns a new type carrying exactly the requested constraints' over the original's"""
    fails = []
    if new is old:
        fails.append((site + '|same-object', 'the derivation returned its argument itself'))
        return fails
    req = dict((k, canon(v)) for k, v in requested(ns, old, kw, style).items())
    new_attrs = dict(all_attrs(new))
    old_attrs = dict(old_attrs)
    old_attrs['_explicit_type_name'] = canon(False)
    old_attrs.setdefault('colargs', canon(0))        # a derivative always has its own (args, kwargs) pair
    for name in sorted(set(new_attrs) | set(old_attrs) | set(req)):
        if name in ('translations', 'sqla_column_args'):
            continue     # bookkeeping containers that customize() re-creates empty
        exp = req.get(name, old_attrs.get(name, '<absent>'))
        got = new_attrs.get(name, '<absent>')
        if exp != got:
            fails.append(('%s|attr:%s|%s' % (site, name, 'requested' if name in req else 'not-requested'),
                          'attribute %s of the derived class is %s, expected %s (%s)' % (
                              name, got, exp, 'requested' if name in req else 'value of the original')))
    return fails

def flat_spec(ns, cls):
    """SPEC of field order: parents first, then own fields, a redefined name keeps its first place"""
    keys = []
    chain = []
    c = cls
    while c is not None:
        chain.append(c)
        c = c.__extends__
    for c in reversed(chain):
        for k in c._type_info.keys():
            if k not in keys:
                keys.append(k)
    return keys


class World(object):
    """a pool of real classes with the history applied so far and the oracle's bookkeeping"""
    def __init__(self, ns, check=None):
        self.ns = ns
        self.pool = base_pool(ns)
        self.names = 0
        self.check = check
        self.fail_keys = []
        # two protocol instances that live as long as the history (a server's out-protocol): one meets the
        # classes oldest first, the other newest first
        self.long_fwd = ns.JsonDocument()
        self.long_rev = ns.JsonDocument()

    def protocol_data(self):
        """the caller's protocol objects: type_attrs of each instance and of its class"""
        return [(sorted((k, canon(v)) for k, v in p.type_attrs.items()),
                 sorted((k, canon(v)) for k, v in type(p).type_attrs.items())) for p in PROTS]

    def check_protocol_views(self, site, hist):
        """what a long-lived protocol instance says the fields of a class are (sort_fields: dict documents,
        csv, html, cloth write in that order) must be what the class says now, whatever else -- the
        original, another variant, the class before a field was added -- the instance has seen before"""
        ns, pool = self.ns, self.pool
        for prot, order, how in ((self.long_fwd, list(range(len(pool))), 'oldest-first'),
                                 (self.long_rev, list(range(len(pool) - 1, -1, -1)), 'newest-first')):
            for h in order:
                C = pool[h]
                if h < NBASE or not issubclass(C, ns.ComplexModelBase):
                    continue
                got = [(k, id(v)) for k, v in prot.sort_fields(C)]
                exp = [(k, id(v)) for k, v in C.get_flat_type_info(C).items()]
                if got != exp:
                    kind = 'field-list' if [k for k, _ in got] != [k for k, _ in exp] else 'field-types'
                    self.fail('C15|frame|protocol-cache|sort_fields|%s|%s' % (kind, 'after-evolution' if site.startswith(('append', 'insert')) else 'after-derivation'),
                              'a protocol instance that has seen other classes before (%s) lists the fields of pool class '
                              '#%d as %r with the types of another class or an older field table; the class has %r' % (
                                  how, h, [k for k, _ in got], [k for k, _ in exp]), hist)
                    return

    def check_aliases(self, site, hist):
        ns = self.ns
        for h, C in enumerate(self.pool):
            if h >= NBASE and issubclass(C, ns.ComplexModelBase):
                for kind, what in alias_failures(ns, C):
                    self.fail('C15|fresh|alias-table|%s|%s' % (kind, site.split('(')[0]), 'pool class #%d, after %s: %s' % (h, site, what), hist)
                    return

    def snaps(self):
        return [snap(self.ns, c) for c in self.pool]

    def deeps(self):
        return [deep(self.ns, c) for c in self.pool]

    def fail(self, key, what, hist):
        self.fail_keys.append(key)
        if self.check is not None:
            self.check.fail(key, what, {'history': hist, 'note': 'pool handles 0..%d are ComplexModel, Array, '
                                        'Iterable, Integer, Unicode, Boolean, Integer32, Decimal, ByteArray; every '
                                        'successful derivation appends its result to the pool' % (NBASE - 1)})

    def step(self, op, hist):
        """apply op with all oracle checks; hist = the history including op (for replays)"""
        ns, pool = self.ns, self.pool
        before = self.deeps()
        t = op[0]
        site = {'cust': 'customize', 'array': 'Array', 'mand': 'Mandatory', 'sub': 'subclass',
                'app': 'append_field', 'ins': 'insert_field'}[t]
        tgt = pool[op[1]] if t != 'array' else pool[op[2]]
        tk = kind_of(ns, tgt)
        if t == 'array':
            site += '(' + tk + ')'
        else:
            site += '(' + tk + ')'
        old_attrs = all_attrs(tgt)
        old_fields = own_fields(ns, tgt)
        uni_before = reach(ns, pool)
        variants_before = [c for c in uni_before.values()
                           if t in ('app', 'ins') and issubclass(c, ns.ComplexModelBase)
                           and c.__orig__ is tgt and tgt.__orig__ is None]
        prot_before = self.protocol_data()
        r = apply_op(ns, pool, op, self.names)
        after = self.deeps()
        prot_after = self.protocol_data()
        decl = [sorted((k, canon(v)) for k, v in d) for d in PROT_DECL]
        if prot_after != prot_before or [x[0] for x in prot_after] != decl:
            which = [i for i in range(len(PROTS)) if prot_after[i] != prot_before[i] or prot_after[i][0] != decl[i]]
            self.fail('C15|frame|%s|caller-protocol-mutated' % site.split('(')[0],
                      '%s wrote into the type_attrs of the protocol object(s) #%s passed by the caller: declared %r, now %r '
                      '(every later derivation with that protocol, or protocol class, inherits the leak)' % (
                          site, which, [decl[i] for i in which], [prot_after[i] for i in which]), hist)
            for i, d in enumerate(PROT_DECL):          # put the caller's data back: one report per leak
                type(PROTS[i]).type_attrs = dict(d)
                PROTS[i].__dict__.pop('type_attrs', None)
        if r[0] == 'exn':
            # an operation that raises must leave every class as it was
            for h, (b, a) in enumerate(zip(before, after)):
                if a != b:
                    self.fail('C15|frame|%s|raised-but-changed' % site,
                              '%s raised %s but changed pool class #%d' % (site, r[1], h), hist)
            return r
        new = r[1]
        # ---- frame
        if t in ('cust', 'array', 'mand', 'sub'):
            for h, (b, a) in enumerate(zip(before, after)):
                if a != b:
                    what = diff_text(b, a)
                    rel = 'argument' if pool[h] is tgt else 'other'
                    self.fail('C15|frame|%s|%s-changed|%s' % (site, rel, what[0]),
                              '%s changed the already existing pool class #%d (%s): %s' % (
                                  site, h, pool[h].__name__, what[1]), hist)
                    break
        else:
            touched = set([id(tgt)] + [id(v) for v in variants_before])
            for h, (b, a) in enumerate(zip(before, after)):
                if a == b:
                    continue
                r_h = reach(ns, [pool[h]])
                if not (set(r_h) & touched):
                    what = diff_text(b, a)
                    self.fail('C15|frame|%s|unrelated-changed|%s' % (site, what[0]),
                              '%s on pool class #%d changed pool class #%d (%s), which neither is nor refers to '
                              'the class or one of its customized variants: %s' % (
                                  site, op[1], h, pool[h].__name__, what[1]), hist)
                    break
                if b[:7] != a[:7]:
                    self.fail('C15|frame|%s|attributes-changed' % site,
                              '%s changed more than field tables of pool class #%d' % (site, h), hist)
                    break
        # ---- caller's arguments
        if t == 'cust':
            ab, aa = r[2]['args_before'], r[2]['args_after']
            if ab != aa:
                which = sorted(k for k in ab if ab[k] != aa.get(k))
                self.fail('C15|fresh|customize|caller-dict-mutated|%s' % ','.join(which),
                          'customize() changed the dictionaries passed by the caller: %r became %r, so a second '
                          'derivation from the same request differs' % (
                              dict((k, ab[k]) for k in which), dict((k, aa.get(k)) for k in which)), hist)
        # ---- fresh
        if t == 'cust':
            _, h, kw, ca, caa, ne, style = op
            for key, what in fresh_failures(ns, tgt, old_attrs, new, kw, 'C15|fresh|' + site, style):
                self.fail(key, what, hist)
            if new.__orig__ is not (tgt.__orig__ or tgt):
                self.fail('C15|fresh|%s|orig' % site, '__orig__ of the derived class is not the root of its argument', hist)
            if issubclass(tgt, ns.ComplexModelBase):
                self.check_child_fields(tgt, old_fields, new, ca, caa, ne, site, hist)
                fo, fn = list(tgt.get_flat_type_info(tgt).keys()), list(new.get_flat_type_info(new).keys())
                if fo != fn:
                    region = 'other'
                    b = (tgt.__orig__ or tgt).__bases__[0]
                    if tgt.__extends__ is None and new.__extends__ is not None and (new.__extends__.__orig__ or new.__extends__) is b:
                        region = 'base-class-got-its-first-field-after-the-subclass-was-defined'
                    self.fail('C15|fresh|%s|flat-fields-differ|%s' % (site, region),
                              'the customized class has fields %r (parents included), its original %r' % (fn, fo), hist)
        elif t == 'mand':
            kw = [('min_occurs', 1), ('nillable', False)]
            if tgt.get_type_name() is not ns.ModelBase.Empty:
                kw.append(('type_name', 'x'))
            if issubclass(tgt, ns.Unicode):
                kw.append(('min_len', 1))
            for key, what in fresh_failures(ns, tgt, old_attrs, new, kw, 'C15|fresh|' + site):
                self.fail(key, what, hist)
        elif t == 'array':
            (mk, mv), = new._type_info.items()
            if (mv.__orig__ or mv) is not (tgt.__orig__ or tgt):
                self.fail('C15|fresh|%s|member' % site, 'the member of the new array does not derive from the serializer', hist)
            for key, what in fresh_failures(ns, pool[op[1]], all_attrs(pool[op[1]]), new, op[3], 'C15|fresh|' + site):
                self.fail(key, what, hist)
        elif t == 'sub':
            declared = [k for k, _ in op[3]]
            if list(new._type_info.keys()) != declared:
                self.fail('C15|order|subclass|own', 'own fields %r, declared %r' % (list(new._type_info.keys()), declared), hist)
            for (k, th), (k2, v2) in zip(op[3], new._type_info.items()):
                if v2 is not pool[th]:
                    self.fail('C15|fresh|subclass|field-type', 'field %s is not the declared class' % k, hist)
        # ---- propagation
        if t in ('app', 'ins'):
            fname = op[2] if t == 'app' else op[3]
            ft = pool[op[3]] if t == 'app' else pool[op[4]]
            for c in [tgt] + variants_before:
                got = c._type_info.get(fname)
                if got is None:
                    self.fail('C15|propagate|%s|missing-in-%s' % (site, 'class' if c is tgt else 'variant'),
                              'field %r added to pool class #%d does not appear in %s' % (
                                  fname, op[1], 'the class' if c is tgt else 'its customized variant ' + c.__name__), hist)
                elif (got.__orig__ or got) is not (ft.__orig__ or ft):
                    self.fail('C15|propagate|%s|wrong-type' % site, 'field %r has a type that does not derive from the given one' % fname, hist)
            keys_b = [k for k, _ in old_fields]
            keys_a = list(tgt._type_info.keys())
            if t == 'app':
                exp = keys_b if fname in keys_b else keys_b + [fname]
            else:
                rest = [k for k in keys_b if k != fname]
                i = op[2]
                n = len(rest)
                j = max(0, i + n) if i < 0 else min(i, n)
                exp = rest[:j] + [fname] + rest[j:]
            if keys_a != exp:
                self.fail('C15|order|%s|position' % site, 'field order after the operation is %r, expected %r' % (keys_a, exp), hist)
        # ---- order
        if new is not None:
            pool.append(new)
        for h, c in enumerate(pool):
            if issubclass(c, ns.ComplexModelBase):
                got = list(c.get_flat_type_info(c).keys())
                exp = flat_spec(ns, c)
                if got != exp:
                    self.fail('C15|order|flat|%s' % site, 'flat field order of pool class #%d is %r, expected parents '
                              'first then declaration order %r' % (h, got, exp), hist)
                    break
        self.check_aliases(site, hist)
        self.check_protocol_views(site, hist)
        return r

    def check_child_fields(self, tgt, old_fields, new, ca, caa, ne, site, hist):
        """fields of a customized complex class: same names, same order, each type the original one
        or derived from it with exactly the requested child attributes"""
        ns = self.ns
        new_fields = own_fields(ns, new)
        if [k for k, _ in new_fields] != [k for k, _ in old_fields]:
            self.fail('C15|order|%s|fields' % site, 'customize() changed field names/order: %r -> %r' % (
                [k for k, _ in old_fields], [k for k, _ in new_fields]), hist)
            return
        ca_eff = dict((k, list(v)) for k, v in (ca or []))
        caa_eff = list(caa) if caa is not None else None
        if ne is not None:
            caa_eff = [(k, v) for k, v in (caa_eff or []) if k != 'exc'] + [('exc', True)]
            for k, v in ne:
                ca_eff[k] = [(a, b) for a, b in v if a != 'exc'] + [('exc', False)]
        for (k, o), (_, n) in zip(old_fields, new_fields):
            kws = []
            if caa_eff is not None:
                kws.append(caa_eff)
            if k in ca_eff:
                kws.append(ca_eff[k])
            if not kws:
                if n is not o:
                    self.fail('C15|fresh|%s|field-replaced' % site, 'field %s was replaced although no child attribute was requested' % k, hist)
                continue
            if (n.__orig__ or n) is not (o.__orig__ or o) or n is o:
                self.fail('C15|fresh|%s|field-not-derived' % site, 'field %s is not a fresh derivative of the original field type' % k, hist)
                continue
            # expected attributes: the requests applied in order over the original field type's
            exp = dict(all_attrs(o))
            exp['_explicit_type_name'] = canon(False)
            exp.setdefault('colargs', canon(0))
            for kwl in kws:
                exp['_explicit_type_name'] = canon(False)
                for a, b in requested(ns, o, kwl).items():
                    exp[a] = canon(b)
            got = dict(all_attrs(n))
            for a in sorted(set(exp) | set(got)):
                if a in ('translations', 'sqla_column_args'):
                    continue
                if exp.get(a, '<absent>') != got.get(a, '<absent>'):
                    rq = any(a in requested(ns, o, kwl) for kwl in kws)
                    self.fail('C15|fresh|%s|child-attr:%s|%s' % (site, a, 'requested' if rq else 'not-requested'),
                              'field %s: attribute %s is %s, expected %s' % (k, a, got.get(a, '<absent>'), exp.get(a, '<absent>')), hist)


def diff_text(b, a):
    """(short class of the difference, readable detail) between two deep snapshots"""
    names = ['kind', 'name', 'type_name', 'namespace', 'customized', 'attributes', 'doc', 'extends', 'fields', 'flat', 'aliases']
    for i, n in enumerate(names):
        if b[i] != a[i]:
            if n == 'attributes':
                db, da = dict(b[i]), dict(a[i])
                ch = sorted(k for k in set(db) | set(da) if db.get(k) != da.get(k))
                return ('attributes:' + ','.join(ch), 'attributes %s: %r -> %r' % (ch, [db.get(k) for k in ch], [da.get(k) for k in ch]))
            if n == 'fields':
                kb, ka = [k for k, _ in b[i]], [k for k, _ in a[i]]
                if kb != ka:
                    return ('field-names', 'fields %r -> %r' % (kb, ka))
                for (k, x), (_, y) in zip(b[i], a[i]):
                    if x != y:
                        d = diff_text(x, y) if isinstance(x, tuple) and isinstance(y, tuple) else ('cut', '')
                        return ('field-type:' + d[0], 'type of field %s: %s' % (k, d[1]))
            if n == 'extends' and isinstance(b[i], tuple) and isinstance(a[i], tuple):
                d = diff_text(b[i], a[i])
                return ('extends:' + d[0], 'parent: ' + d[1])
            return (n, '%s: %r -> %r' % (n, b[i], a[i]))
    return ('?', '?')


# ------------------------------------------------------------------ generators
FIELD_NAMES = ['a', 'b', 'c', 'd', 'e', 'f']

def gen_kw(rng, ns, cls, small=False):
    """a keyword set that makes sense for cls (mostly), as [(name, json value)]"""
    k = kind_of(ns, cls)
    common = [('min_occurs', lambda: rng.choice([0, 1, 2])),
              ('max_occurs', lambda: rng.choice([1, 2, 5, 'unbounded', {'inf': 1}])),
              ('nillable', lambda: rng.random() < 0.5), ('nullable', lambda: rng.random() < 0.5),
              ('exc', lambda: rng.random() < 0.5), ('sub_name', lambda: rng.choice(['s1', 's2'])),
              ('read_only', lambda: rng.random() < 0.5), ('exc_table', lambda: rng.random() < 0.5),
              ('exc_interface', lambda: rng.random() < 0.3), ('type_name', lambda: rng.choice(['tnA', 'tnB'])),
              ('_foo', lambda: 7), ('_variants', lambda: None), ('wsdl_part_name', lambda: 'part'),
              ('empty_is_none', lambda: rng.random() < 0.5), ('sub_ns', lambda: rng.choice(['urn:s1', 'urn:s2'])),
              # column-level keywords: written into the keyword dictionary of Attributes.sqla_column_args
              ('pk', lambda: rng.random() < 0.7), ('primary_key', lambda: rng.random() < 0.7),
              ('autoincrement', lambda: rng.random() < 0.5), ('onupdate', lambda: rng.choice(['now', 'CASCADE'])),
              ('server_default', lambda: rng.choice(['anonymous', '0']))]
    spec = []
    if k == '(KSimple FDecimal)':
        spec = [('ge', lambda: rng.choice([-5, 0, 1, 5, {'ninf': 1}])), ('gt', lambda: rng.choice([-1, 0, 3, {'ninf': 1}])),
                ('le', lambda: rng.choice([5, 10, 100, {'inf': 1}])), ('lt', lambda: rng.choice([6, 11, 1000, {'inf': 1}])),
                ('values', lambda: {'ints': rng.choice([[], [1, 5], [0, 10, 100]])}),
                ('max_str_len', lambda: rng.choice([3, 12, 64])), ('total_digits', lambda: rng.choice([1, 5, 11, {'inf': 1}])),
                ('fraction_digits', lambda: rng.choice([0, 2, 5, {'inf': 1}])), ('default', lambda: rng.choice([0, 5])),
                ('format', lambda: '%d')]
    elif k == '(KSimple FUnicode)':
        spec = [('min_len', lambda: rng.choice([0, 1, 3])), ('max_len', lambda: rng.choice([3, 10, 12, {'inf': 1}])),
                ('pattern', lambda: rng.choice(['[a-z]+', 'x*', None])), ('default', lambda: rng.choice(['x', 'dflt'])),
                ('format', lambda: '%s')]
    elif k == '(KSimple FByteArray)':
        spec = [('encoding', lambda: rng.choice(['hex', 'base64', 'urlsafe_base64', 'hexBinary', 'base64Binary', None]))]
    elif k in ('KComplex', 'KArray'):
        spec = [('validate_freq', lambda: rng.random() < 0.5), ('not_wrapped', lambda: rng.random() < 0.5)]
    n = rng.choice([0, 1, 1, 2, 2, 3]) if small else rng.choice([0, 1, 2, 2, 3, 4, 5])
    names, out = set(), []
    bounded = getattr(cls.Attributes, 'min_bound', None) is not None
    for _ in range(n):
        name, g = rng.choice(spec + spec + common) if spec else rng.choice(common)
        if name in names:
            continue
        v = g()
        if bounded and isinstance(v, dict) and name in ('ge', 'gt', 'le', 'lt'):
            continue    # the NumberLimitsWarning text uses %d on an infinity: OverflowError (not modelled)
        names.add(name)
        out.append([name, v])
    if rng.random() < 0.14:
        # the documented prot= / protocol= / p= keyword with a protocol object of the caller
        out.insert(rng.randrange(len(out) + 1), [rng.choice(['prot', 'protocol', 'p']), {'prot': rng.randrange(len(PROT_DECL))}])
    return out

def usable_as_field(ns, c):
    if c in (ns.ComplexModel, ns.Array, ns.Iterable):
        return False
    if issubclass(c, ns.Array) and len(c._type_info) != 1:
        return False
    return True

def gen_bad_op(rng, ns, world):
    """the malformed stream: operations the implementation must refuse (and leave everything as it
    was), or accepts in a corner of its language"""
    pool = world.pool
    hs = list(range(len(pool)))
    bounded = [h for h in hs if issubclass(pool[h], ns.Decimal) and getattr(pool[h].Attributes, 'min_bound', None) is not None]
    decimals = [h for h in hs if issubclass(pool[h], ns.Decimal)]
    cust_with_fields = [h for h in hs if h >= NBASE and issubclass(pool[h], ns.ComplexModelBase)
                        and not issubclass(pool[h], ns.Array) and pool[h].__orig__ is not None and len(pool[h]._type_info)]
    r = rng.random()
    if r < 0.1:
        blobs = [h for h in hs if issubclass(pool[h], ns.ByteArray)]
        return ['cust', rng.choice(blobs), [['encoding', 'rot13'], ['min_occurs', 1]], None, None, None, 'call']
    if r < 0.2:
        return ['mand', rng.choice([H_ARRAY, H_ITERABLE])]              # Mandatory of an array without a member
    if r < 0.5 and bounded:
        kw = rng.choice([[['le', -3000000000]], [['lt', -2147483648]], [['ge', 2147483648]], [['gt', 2147483647]],
                         [['ge', 0], ['lt', -2147483648]], [['le', 5], ['gt', 4000000000]]])
        return ['cust', rng.choice(bounded), kw, None, None, None, rng.choice(['call', 'customize', 'index'])]
    if r < 0.75:
        kw = rng.choice([[['total_digits', 0], ['fraction_digits', 0]], [['total_digits', 2], ['fraction_digits', 5]],
                         [['fraction_digits', 3], ['total_digits', 1], ['ge', 0]]])
        return ['cust', rng.choice(decimals), kw, None, None, None, rng.choice(['call', 'customize'])]
    if r < 0.9 and cust_with_fields:
        world.names += 1
        return ['sub', rng.choice(cust_with_fields), 'K%d' % world.names, [[rng.choice(FIELD_NAMES), 3]]]
    return ['array', rng.choice([H_ARRAY, H_ITERABLE]), rng.choice([H_ARRAY, H_ITERABLE]), []]   # Array(Array)


def gen_op(rng, ns, world):
    if rng.random() < 0.08:
        return gen_bad_op(rng, ns, world)
    pool = world.pool
    hs = list(range(len(pool)))
    simple = [h for h in hs if issubclass(pool[h], ns.SimpleModel)]
    cplx = [h for h in hs if h >= NBASE and issubclass(pool[h], ns.ComplexModelBase)]
    plain_cplx = [h for h in cplx if not issubclass(pool[h], ns.Array)]
    roots = [h for h in plain_cplx if pool[h].__orig__ is None]
    ftypes = [h for h in hs if usable_as_field(ns, pool[h])]
    r = rng.random()
    if r < 0.17 or not roots and r < 0.5:
        # class statement
        parent = rng.choice(roots) if roots and rng.random() < 0.45 else H_COMPLEXMODEL
        if rng.random() < 0.04 and [h for h in plain_cplx if pool[h].__orig__ is not None and len(pool[h]._type_info)]:
            parent = rng.choice([h for h in plain_cplx if pool[h].__orig__ is not None and len(pool[h]._type_info)])
        nf = rng.choice([0, 1, 2, 2, 3, 3, 4])
        ks = rng.sample(FIELD_NAMES, nf)
        world.names += 1
        return ['sub', parent, 'K%d' % world.names, [[k, rng.choice(ftypes)] for k in ks]]
    if r < 0.37:
        h = rng.choice(simple + [x for x in simple if issubclass(pool[x], ns.ByteArray)])
        kw = gen_kw(rng, ns, pool[h])
        style = rng.choice(['call', 'customize', 'index'])
        if issubclass(pool[h], ns.ByteArray):
            # the encoding keyword belongs to the call syntax (ByteArray.__new__ normalises it)
            style = rng.choice(['call', 'call', 'call', style])
            if style != 'call':
                kw = [x for x in kw if x[0] != 'encoding']
        return ['cust', h, kw, None, None, None, style]
    if r < 0.60 and cplx:
        h = rng.choice(cplx + plain_cplx)
        cls = pool[h]
        flat = list(cls.get_flat_type_info(cls).keys())
        def child_dict():
            out = []
            for k in rng.sample(flat + FIELD_NAMES[:2], min(len(flat) + 2, rng.choice([1, 1, 2, 3]))):
                if k in [x for x, _ in out]:
                    continue
                t = cls.get_flat_type_info(cls).get(k)
                out.append([k, gen_kw_child(rng, ns, t)])
            return out
        ca = child_dict() if rng.random() < 0.45 else None
        caa = gen_kw_child(rng, ns, None) if rng.random() < 0.35 else None
        ne = child_dict() if rng.random() < 0.2 else None
        return ['cust', h, gen_kw(rng, ns, cls, small=True), ca, caa, ne, 'customize']
    if r < 0.72:
        t = rng.choice(ftypes)
        return ['array', rng.choice([H_ARRAY, H_ARRAY, H_ITERABLE]), t, gen_kw(rng, ns, ns.Array, small=True)]
    if r < 0.84:
        return ['mand', rng.choice(ftypes)]
    if plain_cplx:
        h = rng.choice(roots + roots + plain_cplx) if roots else rng.choice(plain_cplx)
        own = list(pool[h]._type_info.keys())
        name = rng.choice(FIELD_NAMES + ['z', 'y'] + own)
        # a field whose type is (a variant of, or refers to) the class it is added to is a recursive
        # type built without SelfReference: outside the generated language (see corpus_findings)
        root = pool[h].__orig__ or pool[h]
        ok = [x for x in ftypes if not any((c.__orig__ or c) is root for c in reach(ns, [pool[x]]).values())]
        if r < 0.94:
            return ['app', h, name, rng.choice(ok)]
        return ['ins', h, rng.choice([0, 1, 2, -1, -3, 7]), name, rng.choice(ok)]
    return ['mand', rng.choice(ftypes)]

def gen_kw_child(rng, ns, t):
    """attributes for child_attrs / child_attrs_all: valid for every kind of field type"""
    out, names = [], set()
    for _ in range(rng.choice([1, 1, 2, 3])):
        name, v = rng.choice([('min_occurs', rng.choice([0, 1])), ('max_occurs', rng.choice([1, 3, 'unbounded'])),
                              ('nillable', rng.random() < 0.5), ('exc', rng.random() < 0.4), ('sub_ns', 'urn:c'),
                              ('sub_name', rng.choice(['c1', 'c2'])), ('read_only', rng.random() < 0.5),
                              ('type_name', 'ctn')])
        if name not in names:
            names.add(name)
            out.append([name, v])
    return out

def corpus():
    """histories that always run first: theorem witnesses and minimised failures"""
    I, U, B = 3, 4, 5
    return [
        # prot= / protocol= / p= with a protocol that declares type_attrs: the earlier derivation must not leak
        # into the protocol, nor into later derivations made with it
        [['cust', U, [['prot', {'prot': 0}], ['max_len', 3], ['pattern', '[A-Z]+']], None, None, None, 'call'],
         ['cust', U, [['p', {'prot': 0}]], None, None, None, 'call'],
         ['cust', I, [['ge', 0], ['protocol', {'prot': 0}]], None, None, None, 'customize'],
         ['cust', U, [['prot', {'prot': 1}], ['sub_name', 'mine']], None, None, None, 'index'],
         ['cust', U, [['prot', {'prot': 2}], ['min_len', 1]], None, None, None, 'call'],
         ['sub', 0, 'F', [['code', NBASE], ['note', NBASE + 1], ['n', NBASE + 2]]],
         ['cust', NBASE + 5, [['protocol', {'prot': 1}], ['prot', {'prot': 0}]], None, None, None, 'customize']],
        # pending child attributes (for fields that do not exist yet): a variant of a variant has its own copy,
        # and on a field added later the per-field entry is applied after child_attrs_all
        [['sub', 0, 'K', [['a', I]]],
         ['cust', NBASE, [], [['z', [['min_occurs', 1]]]], None, None, 'customize'],
         ['cust', NBASE + 1, [], [['y', [['max_occurs', 3]]]], None, None, 'customize'],
         ['cust', NBASE + 1, [['min_occurs', 1]], None, None, None, 'customize'],
         ['app', NBASE, 'y', I], ['app', NBASE, 'z', U], ['ins', NBASE, 0, 'w', I]],
        [['sub', 0, 'K', [['a', I]]],
         ['cust', NBASE, [], [['z', [['min_occurs', 0], ['nillable', True]]], ['w', [['max_occurs', 2]]]], [['min_occurs', 1], ['max_occurs', 5], ['nillable', False]], None, 'customize'],
         ['cust', NBASE + 1, [], [['y', [['min_occurs', 2]]]], None, None, 'customize'],
         ['app', NBASE, 'z', I], ['ins', NBASE, 0, 'w', U], ['app', NBASE, 'y', I], ['ins', NBASE, 1, 'v', U]],
        # column-level keywords (pk / autoincrement / onupdate / server_default) on a derivative of an already
        # customized type: the original, its other derivatives and the models using them keep their column options
        [['cust', 6, [['ge', 0]], None, None, None, 'call'], ['cust', U, [['max_len', 64]], None, None, None, 'call'],
         ['cust', NBASE, [['le', 1000]], None, None, None, 'call'],
         ['sub', 0, 'Row', [['n', NBASE], ['name', NBASE + 1], ['m', NBASE + 2]]],
         ['cust', NBASE, [['pk', True]], None, None, None, 'call'],
         ['cust', NBASE + 1, [['server_default', 'anonymous']], None, None, None, 'customize'],
         ['cust', NBASE, [['autoincrement', False], ['onupdate', 'now']], None, None, None, 'index'],
         ['cust', NBASE + 4, [['primary_key', False], ['server_default', '0']], None, None, None, 'call'],
         ['cust', NBASE + 3, [['pk', True]], [['n', [['pk', True]]]], None, None, 'customize'],
         ['cust', NBASE + 8, [['onupdate', 'CASCADE']], None, [['autoincrement', True]], None, 'customize'],
         ['mand', NBASE + 4], ['array', 1, NBASE + 4, [['pk', True]]]],
        # the call syntax on an already derived ByteArray keeps its encoding (and type name)
        [['cust', 8, [['encoding', 'hex']], None, None, None, 'call'], ['cust', NBASE, [['min_occurs', 1]], None, None, None, 'call'],
         ['cust', NBASE, [['sub_name', 'sum']], None, None, None, 'call'], ['cust', NBASE, [['min_occurs', 1]], None, None, None, 'customize'],
         ['cust', 8, [['encoding', 'urlsafe_base64'], ['nillable', False]], None, None, None, 'call'],
         ['cust', NBASE + 4, [['min_occurs', 1], ['encoding', None]], None, None, None, 'call'],
         ['cust', NBASE + 4, [['encoding', 'base64Binary']], None, None, None, 'call'], ['mand', NBASE + 1],
         ['array', 1, NBASE + 2, []], ['cust', NBASE, [['encoding', 'rot13']], None, None, None, 'call']],
        # fields with sub_name / sub_ns: every variant reads what it writes (alias table), also after the
        # sub_name is changed by child_attrs or a field with an alias is added later
        [['cust', I, [['sub_name', 'id']], None, None, None, 'call'], ['cust', U, [['sub_name', 'l'], ['sub_ns', 'urn:x']], None, None, None, 'call'],
         ['cust', U, [['sub_ns', 'urn:y']], None, None, None, 'call'],
         ['sub', 0, 'Item', [['item_id', NBASE], ['label', NBASE + 1], ['note', U], ['q', NBASE + 2]]],
         ['sub', NBASE + 3, 'Crate', [['weight', NBASE]]],
         ['cust', NBASE + 3, [['min_occurs', 1]], None, None, None, 'customize'],
         ['cust', NBASE + 3, [], [['note', [['sub_name', 'n']]], ['label', [['sub_name', 'lbl']]]], None, None, 'customize'],
         ['array', 1, NBASE + 3, []], ['mand', NBASE + 3], ['cust', NBASE + 4, [], None, [['sub_name', 'all']], None, 'customize'],
         ['app', NBASE + 3, 'plan', NBASE + 1], ['ins', NBASE + 4, 0, 'first', NBASE], ['app', NBASE + 3, 'note', NBASE + 1]],
        # one protocol instance serializes a class, its child_attrs variants and the class again after it
        # got a new field (sort_fields cache)
        [['sub', 0, 'Account', [['id', I], ['owner', U], ['token', U], ['plan', U]]],
         ['cust', NBASE, [], [['token', [['exc', True]]], ['owner', [['sub_name', 'name']]], ['plan', [['default', 'free']]]], None, None, 'customize'],
         ['array', 1, NBASE + 1, []], ['array', 1, NBASE, []], ['app', NBASE, 'extra', I], ['ins', NBASE + 1, 0, 'lead', U],
         ['cust', NBASE, [], None, [['min_occurs', 1]], [['id', [['max_occurs', 2]]]], 'customize']],
        # Mandatory of an array must not make the original array's member mandatory
        [['array', 1, I, []], ['mand', NBASE], ['mand', NBASE]],
        [['sub', 0, 'K1', [['a', I]]], ['array', 1, NBASE, []], ['array', 1, NBASE + 1, []], ['mand', NBASE + 2]],
        # a field appended to a subclass must not reach a variant of the parent class
        [['sub', 0, 'PA', [['a', I]]], ['sub', NBASE, 'PB', [['b', I]]],
         ['cust', NBASE, [['min_occurs', 1]], None, None, None, 'customize'], ['app', NBASE + 1, 'z', U],
         ['cust', NBASE + 1, [], None, None, None, 'customize'], ['app', NBASE, 'y', U]],
        # customizing a number keeps the length guard
        [['cust', I, [['ge', 5]], None, None, None, 'call'], ['cust', 6, [['ge', 0]], None, None, None, 'call'],
         ['cust', 7, [['total_digits', 10], ['fraction_digits', 2]], None, None, None, 'call'],
         ['cust', NBASE + 2, [['ge', 0]], None, None, None, 'customize']],
        # child_attrs_all + child_attrs_noexc must not touch the caller's dicts
        [['sub', 0, 'C', [['x', I], ['y', U]]],
         ['cust', NBASE, [], None, [['min_occurs', 1]], [['x', [['max_occurs', 2]]]], 'customize']],
        # delayed child attrs, parents, variants, insert
        [['sub', 0, 'A', [['a', I], ['b', U]]], ['sub', NBASE, 'Bc', [['c', B], ['a', U]]],
         ['cust', NBASE + 1, [['min_occurs', 1]], [['a', [['min_occurs', 1]]], ['zz', [['exc', True]]]], [['nillable', False]], None, 'customize'],
         ['app', NBASE + 1, 'zz', I], ['ins', NBASE, 0, 'q', U], ['ins', NBASE + 1, -1, 'c', I],
         ['array', 2, NBASE + 2, [['min_occurs', 1]]], ['app', NBASE, 'w', B]],
        [['cust', U, [['max_len', 10]], None, None, None, 'call'], ['mand', NBASE], ['mand', U], ['mand', I],
         ['cust', NBASE, [['max_len', {'inf': 1}]], None, None, None, 'customize'],
         ['sub', 0, 'E', []], ['sub', NBASE + 5, 'F', [['f', NBASE]]], ['sub', NBASE + 6, 'G', [['g', I]]]],
        # a class without members of its own stays in the inheritance chain of its subclasses when it is
        # itself derived from a class with members (K2), not when nothing above it has members (E, F)
        [['sub', 0, 'K1', [['a', I]]], ['sub', NBASE, 'K2', []], ['sub', NBASE + 1, 'K3', [['d', I]]],
         ['sub', 0, 'E', []], ['sub', NBASE + 3, 'F', []], ['sub', NBASE + 4, 'G', [['g', U]]],
         ['cust', NBASE + 2, [['min_occurs', 1]], [['a', [['min_occurs', 1]]]], None, None, 'customize'],
         ['app', NBASE + 1, 'm', U], ['app', NBASE + 3, 'e', I], ['cust', NBASE + 5, [], None, None, None, 'customize']],
        # the witnesses of the non-vacuity examples (coq/C15/ExStore.v: ex_hist, then evolution)
        [['sub', 0, 'K', [['a', I], ['b', U]]],
         ['cust', NBASE, [['min_occurs', 1]], [['a', [['min_occurs', 1]]]], None, None, 'customize'],
         ['sub', NBASE, 'L', [['z', U]]], ['array', 1, NBASE, []], ['mand', NBASE + 3],
         ['app', NBASE, 'z', I], ['ins', NBASE, 1, 'K', U], ['cust', NBASE + 2, [], None, [['nillable', False]], [['z', [['max_occurs', 2]]]], 'customize']],
        [['cust', 6, [['le', -3000000000]], None, None, None, 'call'], ['cust', 6, [['gt', 2147483647]], None, None, None, 'call'],
         ['cust', 7, [['total_digits', 0], ['fraction_digits', 0]], None, None, None, 'call'],
         ['sub', 0, 'H', [['a', I]]], ['cust', NBASE, [], None, None, None, 'customize'], ['sub', NBASE + 1, 'J', [['b', I]]]],
    ]


# ------------------------------------------------------------------ running histories
def run_history(ns, ops_or_gen, check=None, n_ops=None, rng=None):
    """applies a history (a list, or generated on the fly) to a fresh pool; returns (ops, record)
    where record[i] = ('ok', delta snapshots) | ('exn', name), plus final verdicts / flat orders"""
    w = World(ns, check)
    table = w.snaps()
    ops, rec = [], []
    i = 0
    while True:
        if isinstance(ops_or_gen, list):
            if i >= len(ops_or_gen):
                break
            op = ops_or_gen[i]
        else:
            if i >= n_ops:
                break
            op = gen_op(rng, ns, w)
        i += 1
        ops.append(op)
        r = w.step(op, list(ops))
        if r[0] == 'exn':
            rec.append(('exn', r[1]))
            continue
        cur = w.snaps()
        delta = [(h, s) for h, s in enumerate(cur) if h >= len(table) or table[h] != s]
        table = cur
        rec.append(('ok', delta))
    xml_modifier_frame(ns, w, list(ops))
    verd = [(h, verdicts_of(ns, c)) for h, c in enumerate(w.pool)
            if h >= 3 and kind_of(ns, c) in ('(KSimple FDecimal)', '(KSimple FUnicode)')
            and (c.__orig__ or c) in (ns.Integer, ns.Unicode, ns.Decimal)]
    flats = [(h, list(c.get_flat_type_info(c).keys())) for h, c in enumerate(w.pool)
             if h >= NBASE and issubclass(c, ns.ComplexModelBase)]
    alts = [(h, sorted((key, kv[1]) for key, kv in c.get_flat_type_info(c).alt.items())) for h, c in enumerate(w.pool)
            if h >= NBASE and issubclass(c, ns.ComplexModelBase)]
    return ops, rec, verd, flats, alts, w

def xml_modifier_frame(ns, w, hist):
    """oracle only (XmlAttribute / XmlData are not in the model): wrapping a pool class in an Xml
    modifier, and customizing the wrapper, changes no pool class.  XmlModifier.__new__ shares
    type.Attributes by reference, so a write through the wrapper would show here."""
    before = w.deeps()
    cands = [c for c in w.pool[3:] if issubclass(c, ns.SimpleModel)][-3:]
    for T in cands:
        try:
            X = ns.cx.XmlAttribute(T)
            D = ns.cx.XmlData(T)
            X2 = X.customize(sub_name='q', min_occurs=1)
            D2 = D.customize(nillable=False)
        except Exception as e:
            w.fail('C15|frame|XmlModifier|raised', 'XmlAttribute/XmlData of a pool class, or customizing it, raised %s' % type(e).__name__, hist)
            return
        if X2.Attributes is T.Attributes or D2.Attributes is T.Attributes:
            w.fail('C15|fresh|XmlModifier|customize-shares-attributes',
                   'customizing an Xml modifier returned a class that shares the Attributes of the wrapped type', hist)
    after = w.deeps()
    for h, (b, a) in enumerate(zip(before, after)):
        if a != b:
            what = diff_text(b, a)
            w.fail('C15|frame|XmlModifier|pool-changed|%s' % what[0],
                   'wrapping pool classes in XmlAttribute/XmlData and customizing the wrappers changed pool class #%d: %s' % (h, what[1]), hist)
            break


def g_case(ops, rec, verd, flats, alts):
    steps = []
    for op, r in zip(ops, rec):
        if r[0] == 'exn':
            e = '(EExn %s)' % EXN.get(r[1], 'OtherExn')
        else:
            e = '(EOk %s)' % glist(['(%s, %s)' % (gz(h), g_snap(s)) for h, s in r[1]])
        steps.append('(%s, %s)' % (g_op(op), e))
    gv = glist(['(%s, %s)' % (gz(h), glist(['None' if x is None else '(Some %s)' % gbool(x) for x in l])) for h, l in verd])
    gf = glist(['(%s, %s)' % (gz(h), glist([gtext(k) for k in l])) for h, l in flats])
    ga = glist(['(%s, %s)' % (gz(h), glist(['(%s, %s)' % (gtext(a), gtext(k)) for a, k in l])) for h, l in alts])
    return '(%s, %s, %s, %s)' % (glist(steps), gv, gf, ga)

def g_init_store(ns):
    """the initial store: the base classes with every observed attribute resolved"""
    recs = []
    for c in base_pool(ns):
        attrs = glist(['(%s, %s)' % (gz(k), g_aval(a)) for k, a in attrs_of(c)])
        recs.append('(mkcls %s None %s %s None (Some None) [])' % (kind_of(ns, c), attrs, g_tn(tname_of(ns, c))))
        if c.__orig__ is not None or c.__extends__ is not None or own_fields(ns, c):
            raise Unmodelled('base class %r is not a root' % c)
    protos = glist(['(%s, %s)' % (gz(i), g_kw(d)) for i, d in enumerate(PROT_DECL)])
    return 'Definition s0 : store := mkstore %s [] [] [] %s.\nDefinition p0 : pool := %s.\n' % (
        glist(recs), protos, glist([gz(i) for i in range(NBASE)]))


# ------------------------------------------------------------------ schema / protocol output (in a forked child)
def render_all(ns, pool):
    """XSD sequence order, XML and dict output order of every complex pool class.  Building an
    interface mutates classes (namespaces, anonymous type names), so this runs in a forked child."""
    from spyne import Application, rpc, ServiceBase
    from spyne.protocol.soap import Soap11
    from spyne.interface.xml_schema import XmlSchema
    from spyne.util.xml import get_object_as_xml
    from spyne.util.dictdoc import get_object_as_dict
    from lxml import etree
    out = {}
    XS = '{http://www.w3.org/2001/XMLSchema}'
    for h, C in enumerate(pool):
        if h < NBASE or not issubclass(C, ns.ComplexModelBase):
            continue
        res = {}
        try:
            class Svc(ServiceBase):
                @rpc(C, _returns=C)
                def f(ctx, x):
                    return x
            app = Application([Svc], 'c15.tns', in_protocol=Soap11(), out_protocol=Soap11())
            xs = XmlSchema(app.interface)
            xs.build_interface_document()
            docs = xs.get_interface_document()
            res['xsd'] = hashlib.md5(b''.join(etree.tostring(docs[k], method='c14n') for k in sorted(docs))).hexdigest()
            tn, tns = C.get_type_name(), C.get_namespace()
            seq = None
            for d in docs.values():
                if d.get('targetNamespace') != tns:
                    continue
                for ct in d.findall(XS + 'complexType'):
                    if ct.get('name') == tn:
                        seq = [e.get('name') for e in ct.iter(XS + 'element')]
            res['seq'] = seq
        except Exception as e:
            res['xsd'] = 'raises:' + type(e).__name__
        out[h] = res
    return out

def in_child(fn):
    r, w = os.pipe()
    pid = os.fork()
    if pid == 0:
        try:
            os.close(r)
            try:
                data = pickle.dumps(('ok', fn()))
            except Exception as e:
                data = pickle.dumps(('err', traceback.format_exc()[-800:]))
            with os.fdopen(w, 'wb') as f:
                f.write(data)
        finally:
            os._exit(0)
    os.close(w)
    with os.fdopen(r, 'rb') as f:
        data = f.read()
    os.waitpid(pid, 0)
    return pickle.loads(data)

def schema_history(ns, ops, check):
    """frame and order at the level of the rendered schema: after every step the XSD of every older
    pool class is byte-identical (c14n) unless the step evolved a class it refers to, and the
    xs:sequence of a class lists its own fields in declaration order"""
    w = World(ns, None)
    prev = None
    for i, op in enumerate(ops):
        t = op[0]
        tgt = w.pool[op[1]] if t != 'array' else w.pool[op[2]]
        uni = reach(ns, w.pool)
        vb = [c for c in uni.values() if t in ('app', 'ins') and issubclass(c, ns.ComplexModelBase) and c.__orig__ is tgt]
        r = apply_op(ns, w.pool, op, 0)
        if r[0] == 'ok' and r[1] is not None:
            w.pool.append(r[1])
        st = in_child(lambda: render_all(ns, w.pool))
        if st[0] != 'ok':
            raise RuntimeError('schema rendering child failed: ' + st[1])
        cur = st[1]
        for h, res in cur.items():
            C = w.pool[h]
            check.count(('xsd', i, h, res.get('xsd')))
            if res.get('seq') is not None and C.__orig__ is None and not issubclass(C, ns.Array):
                exp = [(v.Attributes.sub_name or k) for k, v in C._type_info.items()
                       if not (v.Attributes.exc_interface or issubclass(v, ns.cx.XmlAttribute))]
                if res['seq'] != exp:
                    check.fail('C15|order|xsd-sequence', 'xs:sequence of pool class #%d lists %r, declaration order is %r'
                               % (h, res['seq'], exp), {'history': ops[:i + 1]})
            if prev is not None and h in prev and prev[h].get('xsd') != res.get('xsd'):
                touched = set([id(tgt)] + [id(v) for v in vb]) if t in ('app', 'ins') else set()
                refers = set(reach(ns, [C]))
                if t == 'sub' and r[0] == 'ok':
                    # by design an interface document lists the known subclasses (same namespace) of every
                    # class it contains (Interface.add_class, for xsi:type substitution): a class statement
                    # shows in the schema of everything that refers to one of its ancestors, or to a variant
                    # of one -- and refuses to render (AssertionError) when that brings two distinct classes
                    # of one name together, which the generated type_name keywords can produce
                    a = r[1].__extends__ or r[1].__bases__[0]
                    while a is not None and issubclass(a, ns.ComplexModelBase) and a is not ns.ComplexModel:
                        touched.add(id(a))
                        a = a.__extends__ if a.__extends__ is not None else a.__bases__[0]
                    for c in list(reach(ns, [C]).values()):
                        if c.__orig__ is not None:
                            refers.add(id(c.__orig__))
                if not (refers & touched):
                    check.fail('C15|frame|schema|%s' % t, 'the rendered XML Schema of pool class #%d changed at step %d (%s) '
                               'although the step did not evolve a class it refers to' % (h, i, t), {'history': ops[:i + 1]})
        prev = cur

def output_orders(ns, pool):
    """field order in XML and dict output of an instance of every non-customized complex pool class"""
    from spyne.util.xml import get_object_as_xml
    from spyne.util.dictdoc import get_object_as_dict
    out = {}
    def value(t, d):
        if issubclass(t, ns.Array):
            (k, v), = t._type_info.items()
            x = value(v, d - 1)
            return None if x is None else [x]
        if issubclass(t, ns.ComplexModelBase):
            if d <= 0:
                return None
            o = (t.__orig__ or t)()
            for k, v in t.get_flat_type_info(t).items():
                x = value(v, d - 1)
                if x is not None and v.Attributes.max_occurs > 1 and not issubclass(v, ns.Array):
                    x = [x]
                setattr(o, k, x)
            return o
        if issubclass(t, ns.Decimal):
            return 5
        if issubclass(t, ns.Unicode):
            return 'xyz'
        if issubclass(t, ns.Boolean):
            return True
        if issubclass(t, ns.ByteArray):
            return [b'ab']
        return None
    for h, C in enumerate(pool):
        if h < NBASE or not issubclass(C, ns.ComplexModelBase) or issubclass(C, ns.Array) or C.__orig__ is not None:
            continue
        res = {}
        # a subclass that redeclares a field name of an ancestor is outside what the XML protocol (and
        # xs:extension) can express: XmlDocument writes the ancestor's part with the ancestor's type
        # (TypeError, or the element twice).  Not an order question: skipped here, reported in the notes.
        seen_names, c2, override = set(), C, False
        chain = []
        while c2 is not None:
            chain.append(c2)
            c2 = c2.__extends__
        for c2 in reversed(chain):
            if seen_names & set(c2._type_info.keys()):
                override = True
            seen_names |= set(c2._type_info.keys())
        if override:
            out[h] = {'err': 'redeclared-field'}
            continue
        try:
            inst = value(C, 2)
            fti = C.get_flat_type_info(C)
            # declaration order (parents first) of the names under which fields are written; a field
            # MUST be written when it is not excluded and has a value (a null one may be: min_occurs)
            res['decl'] = [(v.Attributes.sub_name or k) for k, v in fti.items()]
            res['must'] = [(v.Attributes.sub_name or k) for k, v in fti.items()
                           if not v.Attributes.exc and getattr(inst, k, None) is not None]
            el = get_object_as_xml(inst, C)
            res['xml'] = [c.tag.split('}')[-1] for c in el]
            d = get_object_as_dict(inst, C)
            res['dict'] = list(d.keys())
        except Exception as e:
            res['err'] = type(e).__name__
        out[h] = res
    return out


def dedup(l):
    out = []
    for x in l:
        if x not in out:
            out.append(x)
    return out

def output_in_order(got, decl, must):
    """SPEC of 'every protocol writes fields in declaration order, parents first': the names written
    are the declared ones that were written, in declared order, and every field with a value is written"""
    return dedup(got) == [n for n in dedup(decl) if n in got] and all(n in got for n in must)


# ------------------------------------------------------------------ hash-seed independence (sub-processes)
def worker_main():
    """child process: replay histories from stdin under this process's PYTHONHASHSEED and print a
    digest of everything observable"""
    lib.ensure_repo_on_path()
    import warnings, logging
    warnings.simplefilter('ignore')
    logging.disable(logging.CRITICAL)
    ns = S()
    hists = json.load(sys.stdin)
    out = []
    for ops in hists:
        w = World(ns, None)
        for op in ops:
            r = apply_op(ns, w.pool, op, 0)
            if r[0] == 'ok' and r[1] is not None:
                w.pool.append(r[1])
        d = [repr(x) for x in w.deeps()]
        oo = output_orders(ns, w.pool)
        rr = render_all(ns, w.pool)
        out.append({'deep': hashlib.md5('\n'.join(d).encode()).hexdigest(),
                    'flat': [list(c.get_flat_type_info(c).keys()) for c in w.pool if issubclass(c, ns.ComplexModelBase)],
                    'out': [[h, oo[h]] for h in sorted(oo)], 'xsd': [[h, rr[h]] for h in sorted(rr)]})
    json.dump(out, sys.stdout)
    return 0

def seed_runs(check, hists, seeds):
    res = {}
    for sd in seeds:
        env = dict(os.environ)
        env['PYTHONHASHSEED'] = str(sd)
        env['VERIF_REPO'] = lib.REPO
        p = subprocess.run(['/venv/bin/python', os.path.abspath(__file__), '--worker'], input=json.dumps(hists),
                           env=env, stdout=subprocess.PIPE, stderr=subprocess.PIPE, text=True, timeout=1200)
        if p.returncode != 0:
            raise RuntimeError('hash-seed worker failed: ' + p.stderr[-800:])
        res[sd] = json.loads(p.stdout)
    first = seeds[0]
    for sd in seeds[1:]:
        for i, (a, b) in enumerate(zip(res[first], res[sd])):
            check.count(('seed', sd, i, a['deep']))
            if a != b:
                which = [k for k in a if a[k] != b[k]]
                check.fail('C15|order|hash-seed|%s' % ','.join(which),
                           'the same history gives different %s under PYTHONHASHSEED=%s and %s' % (which, first, sd),
                           {'history': hists[i], 'seeds': [first, sd]})
    # declaration order of every protocol's output, from the first seed's run
    for i, a in enumerate(res[first]):
        for h, o in a['out']:
            if 'err' in o:
                continue
            for prot in ('xml', 'dict'):
                if not output_in_order(o[prot], o['decl'], o['must']):
                    check.fail('C15|order|output|%s' % prot, '%s output of an instance of pool class #%d has fields %r, '
                               'declaration order (parents first) is %r, fields with a value %r' % (
                                   prot, h, o[prot], o['decl'], o['must']), {'history': hists[i]})
    return res


# ------------------------------------------------------------------ the check
def run(check):
    tier = check.tier
    rng = check.rng
    ns = S()
    check.rule = ('a case is one history (3-12 operations: class statement, primitive customization by call / '
                  'customize / [], customize with child_attrs / child_attrs_all / child_attrs_noexc, Array / Iterable, '
                  'Mandatory, append_field, insert_field; keywords include prot= / protocol= / p= with protocol objects that '
                  'declare type_attrs, ByteArray encodings through the call syntax T(kw), fields with sub_name / sub_ns) over a '
                  'pool that starts with ComplexModel, Array, Iterable, '
                  'Integer, Unicode, Boolean, Integer32, Decimal, ByteArray; after EVERY step the snapshot (kind, type '
                  'name, customized?, 32 resolved attributes, __extends__, ordered fields; depth 4) of EVERY pool class '
                  'is compared with the model, and at the end the verdicts, flat order and alias table (sub_name / sub_ns -> '
                  'field) of every complex class; distinct by the whole history')
    check.extra['proved'] = (
        'over the class-store model coq/C15/Model.v (spec notions in coq/C15/Spec.v), for ALL stores satisfying inv '
        '(well-formed + registry of variants complete; checked of the initial pool by evaluating wfb/completeb on every run, '
        'preserved by every history: C15_invariants_hold), ALL operations and ALL histories: a derivation returns a new class '
        'and leaves every existing class with the same record, snapshot at every depth, resolved attributes, type name, parent, '
        'flat field table and verdicts (C15_frame_derivation, C15_frame_history, C15_frame_derivations); an evolution step writes '
        'only field tables of the class and its registered variants (C15_evolution_records) and every class that does not refer '
        'to one of them is unchanged (C15_frame_step); the new field reaches every customized variant (C15_propagates); the new '
        'class carries the requested attributes over the original\'s (C15_fresh_simple/complex, C15_fresh_decimal_keywords); '
        'customize keeps field names and order and every field type derives from the original one (C15_customize_keeps_fields/'
        'order); declaration order, parents first, positions of append/insert, odict key order (C15_order_*, C15_odict_keys); '
        'C15_source_shape ties 17 tokens of the source text (Gen/DeriveSrc.v) to the model')
    check.extra['observed_only'] = (
        'independence of PYTHONHASHSEED, the rendered XML Schema (frame and xs:sequence order) and the XML / dict protocol '
        'output order are properties of code outside the model: they are checked by the direct oracle on the implementation '
        '(sub-processes under several hash seeds, forked schema renderings), not proved')
    check.trusted = list(lib.COMMON_TRUSTED) + [
        'harness/c15.py: the interpreter that applies operations to real Spyne classes, the snapshot functions, and '
        'the SPEC functions requested()/flat_spec() of the direct oracle',
        'modelled, not verified: CPython class creation, MRO attribute lookup, dict insertion order, '
        'WeakKeyDictionary iteration order (= registration order while the variants are alive)',
    ]
    check.assumptions = [
        'attribute values are None, bool, int, +-inf, str, list of int, empty set; Python == on them is structural',
        'keyword sets reach only the modelled branches of _s_customize (no parser/sanitizer/pk/fk/values_dict/store_as, '
        'no nested child_attrs, no Attributes.order, no SelfReference/XmlData/XmlAttribute fields, no sub-classing of a customized '
        'class without fields, no field whose type is the class it is added to or one of its variants, no child_attrs on a '
        'primitive): the model answers RBad there, the theorems exclude RBad, the generator never produces it',
        'the walks along base classes use fuel 48 (histories build chains of at most 14 classes); C15_fresh_* are stated for every fuel',
        'an operation that raises leaves every class unchanged (checked by the oracle on the implementation)',
        'protocol objects passed as prot= / protocol= / p= are instances of three user-defined ProtocolBase subclasses whose '
        'declared type_attrs are the table Model.protos; what a long-lived protocol instance lists as the fields of a class '
        '(sort_fields) is protocol-side state outside the model: observed by the oracle after every step, oldest-first and newest-first',
        'namespaces (resolve_namespace) and the anonymous type names filled in while an interface is built are outside the model; '
        'the oracle snapshots __namespace__, the schema rendering runs in forked children',
    ]
    for name, exp in (('ARRAY_PREFIX', ''), ('ARRAY_SUFFIX', 'Array'), ('MANDATORY_PREFIX', 'Mandatory'), ('MANDATORY_SUFFIX', '')):
        if getattr(ns.const, name) != exp:
            check.mismatch('constants', 'spyne.const.%s is %r, the model assumes %r' % (name, getattr(ns.const, name), exp))
    check.regen(['derive'])
    check.check_sources()
    check.prove('Props.C15', THEOREMS)
    # the tokens of the source that decide the property, regenerated from the tree under check
    check.prove('Props.C15_src', ['C15_source_shape'])
    n_hist = 150 if tier == 'quick' else 2500
    hists = []
    cases = []
    for ops in corpus():
        hists.append(('corpus', ops))
    for i in range(n_hist):
        hists.append(('gen', None))
    all_ops = []
    kinds = {}
    for tag, ops in hists:
        if tag == 'corpus':
            ops, rec, verd, flats, alts, w = run_history(ns, ops, check)
        else:
            ops, rec, verd, flats, alts, w = run_history(ns, None, check, n_ops=rng.choice([3, 5, 6, 8, 10, 12]), rng=rng)
        all_ops.append(ops)
        for op, r in zip(ops, rec):
            kinds[op[0] + ':' + r[0]] = kinds.get(op[0] + ':' + r[0], 0) + 1
        check.count(json.dumps(ops, sort_keys=True))
        cases.append((g_case(ops, rec, verd, flats, alts), json.dumps(ops)))
        if tag == 'gen':
            check.sample({'history': ops[:4], 'outcomes': [r[0] for r in rec[:4]]}, limit=4)
    check.extra['operations'] = kinds
    imports = ('From SpyneV Require Import Base.Prelude C15.Model C15.Spec C15.Check.\nOpen Scope Z_scope.\n' + g_init_store(ns) +
               'Definition t0 : list snap := map (obs DEPTH s0) p0.\n')
    lib.correspond(check, 'class_store', imports, 'case', '(case_ok s0 p0 t0)', cases, shard=12,
                   show='(case_show s0 p0 t0)')
    # the initial expected table must itself agree with the implementation
    init = glist([g_snap(s) for s in World(ns).snaps()])
    # ... and it must satisfy the hypothesis of the theorems: inv s0 (C15_invariants_decidable)
    lib.correspond(check, 'initial_pool', imports, 'list snap',
                   '(fun t => (fix eq (a b : list snap) : bool := match a, b with [] , [] => true | x :: a\', y :: b\' => '
                   'snap_eqb x y && eq a\' b\' | _, _ => false end) t0 t && wfb s0 && completeb s0)',
                   [(init, 'initial pool: snapshots agree, wfb s0 = true, completeb s0 = true')])
    # schema-level frame/order on a subset (forks), hash seeds and protocol output (sub-processes)
    n_schema = 10 if tier == 'quick' else 150
    sub = all_ops[:len(corpus())] + all_ops[len(corpus()):][:n_schema]
    for ops in sub:
        schema_history(ns, ops, check)
    n_seed = 40 if tier == 'quick' else 600
    seeds = [0, 1, 4242] if tier == 'quick' else [0, 1, 2, 77, 4242, 'random']
    seed_runs(check, all_ops[:len(corpus()) + n_seed], seeds)
    check.extra['schema_histories'] = len(sub)
    check.extra['hash_seeds'] = [str(s) for s in seeds]
    lib.flush_correspondences(check)
    return check.finish()


def replay(check, path):
    r = json.load(open(path))
    ns = S()
    rp = r.get('replay', {})
    ops = rp.get('history')
    if ops is None:
        print(json.dumps(r, indent=1))
        return 0
    print('replaying history on %s:' % lib.REPO)
    for op in ops:
        print('   ', json.dumps(op))
    if 'seeds' in rp:
        seed_runs(check, [ops], rp['seeds'])
    else:
        run_history(ns, ops, check)
        schema_history(ns, ops, check)
    for key, what, _ in check.violations:
        print('VIOLATION reproduced: %s [%s]' % (what, key))
    for key, what in check.known_seen.items():
        print('known finding reproduced: %s [%s]' % (what, key))
    if not check.violations and not check.known_seen:
        print('no violation on this tree')
    return 1 if check.violations else 0


if __name__ == '__main__':
    if '--worker' in sys.argv:
        sys.exit(worker_main())
