"""C10 — the modelled application: described once, rendered as real Spyne classes and, by
introspection of the *built* application (interface.classes, service_method_map, the
Attributes of every member), as the Gallina term of type C10.Xml.app the model is run on.
Also the renderers of parsed documents (lxml trees, json/yaml/msgpack values) as Gallina terms.
Fail closed: anything the model's universe cannot express raises Unmodelled."""
import datetime, decimal
from lib import gz, gtext, glist, gbool, gopt

TNS = 'tns'


class Unmodelled(Exception):
    pass


# leaf kinds: name -> (spyne class factory, Gallina constructor)
def _leaf_classes():
    from spyne.model.primitive import (Integer, Integer32, UnsignedInteger8, Unicode, Boolean, DateTime, Date, Time,
                                       Duration, Decimal, Double, Uuid, AnyDict, AnyXml)
    from spyne.model.binary import ByteArray, File, BINARY_ENCODING_URLSAFE_BASE64, BINARY_ENCODING_HEX
    return {'int': Integer, 'text': Unicode, 'bool': Boolean, 'datetime': DateTime, 'date': Date, 'time': Time,
            'duration': Duration, 'bytes': ByteArray,
            # outside the modelled universe (the direct oracle's service only)
            'int32': Integer32, 'u8': UnsignedInteger8, 'decimal': Decimal, 'double': Double, 'uuid': Uuid,
            'text10': Unicode(max_len=10), 'pattern': Unicode(pattern='[a-z]+'), 'hex': ByteArray(encoding='hex'),
            'urlsafe': ByteArray(encoding='urlsafe_base64'), 'b64': ByteArray(encoding='base64'),
            'file': File, 'fileurl': File.customize(encoding=BINARY_ENCODING_URLSAFE_BASE64),
            'filehex': File.customize(encoding=BINARY_ENCODING_HEX),
            'anydict': AnyDict, 'anyxml': AnyXml}


ENUM_VALUES = ('red', 'green')

# TY: ('leaf', kind) | ('enum',) | ('ref', class name) | ('arr', TY)
# field: (name, TY, dict(min_occurs=, max_occurs=, nillable=), kind 'elem'|'attr')
MODEL_DESC = {
    'classes': [
        ('Inner', [('a', ('leaf', 'int'), {}, 'elem'), ('s', ('leaf', 'text'), {}, 'elem')]),
        ('Outer', [('i', ('leaf', 'int'), {}, 'elem'), ('b', ('leaf', 'bool'), {}, 'elem'),
                   ('dt', ('leaf', 'datetime'), {}, 'elem'), ('da', ('leaf', 'date'), {}, 'elem'),
                   ('t', ('leaf', 'time'), {}, 'elem'), ('du', ('leaf', 'duration'), {}, 'elem'),
                   ('ba', ('leaf', 'bytes'), {}, 'elem'), ('bu', ('leaf', 'urlsafe'), {}, 'elem'),
                   ('bh', ('leaf', 'hex'), {}, 'elem'), ('b6', ('leaf', 'b64'), {}, 'elem'), ('e', ('enum',), {}, 'elem'),
                   ('s', ('leaf', 'text'), {}, 'elem'), ('inner', ('ref', 'Inner'), {}, 'elem'),
                   ('arr', ('arr', ('leaf', 'int')), {}, 'elem'),
                   ('multi', ('leaf', 'int'), {'max_occurs': 3}, 'elem'),
                   ('minner', ('ref', 'Inner'), {'max_occurs': 2}, 'elem'),
                   ('ainner', ('arr', ('ref', 'Inner')), {}, 'elem'),
                   ('at', ('leaf', 'int'), {}, 'attr'),
                   ('m', ('leaf', 'int'), {'min_occurs': 1, 'nillable': False}, 'elem'),
                   ('nn', ('leaf', 'text'), {'nillable': False}, 'elem')]),
    ],
    'methods': [
        ('f', [('o', ('ref', 'Outer'))]),
        ('g', [('i', ('leaf', 'int')), ('s', ('leaf', 'text')), ('dt', ('leaf', 'datetime'))]),
        ('h', []),
        ('k', [('l', ('arr', ('leaf', 'text'))), ('e', ('enum',))]),
        ('bin', [('ba', ('leaf', 'bytes')), ('bu', ('leaf', 'urlsafe')), ('bh', ('leaf', 'hex'))]),
    ],
    # bare methods: the in_message is the argument type itself
    'bare': [('bi', ('leaf', 'int')), ('bd', ('leaf', 'datetime')), ('bt', ('leaf', 'text')), ('ba', ('arr', ('leaf', 'int'))),
             ('bc', ('ref', 'Inner')), ('bbu', ('leaf', 'urlsafe'))],
}


# the direct oracle's service: every primitive family, facets, untyped members
RICH_DESC = {
    'classes': [
        ('Inner', [('a', ('leaf', 'int'), {}, 'elem'), ('s', ('leaf', 'text'), {}, 'elem')]),
        ('Outer', [('i', ('leaf', 'int32'), {}, 'elem'), ('d', ('leaf', 'decimal'), {}, 'elem'),
                   ('f', ('leaf', 'double'), {}, 'elem'), ('b', ('leaf', 'bool'), {}, 'elem'),
                   ('dt', ('leaf', 'datetime'), {}, 'elem'), ('da', ('leaf', 'date'), {}, 'elem'),
                   ('t', ('leaf', 'time'), {}, 'elem'), ('du', ('leaf', 'duration'), {}, 'elem'),
                   ('u', ('leaf', 'uuid'), {}, 'elem'), ('ba', ('leaf', 'bytes'), {}, 'elem'),
                   ('bu', ('leaf', 'urlsafe'), {}, 'elem'), ('b6', ('leaf', 'b64'), {}, 'elem'),
                   ('fi', ('leaf', 'file'), {}, 'elem'),
                   ('inner', ('ref', 'Inner'), {}, 'elem'), ('arr', ('arr', ('leaf', 'int')), {}, 'elem'),
                   ('multi', ('leaf', 'int'), {'max_occurs': 3}, 'elem'), ('e', ('enum',), {}, 'elem'),
                   ('s', ('leaf', 'text10'), {}, 'elem'), ('at', ('leaf', 'int'), {}, 'attr'),
                   ('minner', ('ref', 'Inner'), {'max_occurs': 2}, 'elem'),
                   ('ainner', ('arr', ('ref', 'Inner')), {}, 'elem'), ('u8', ('leaf', 'u8'), {}, 'elem'),
                   ('pat', ('leaf', 'pattern'), {}, 'elem'), ('hexb', ('leaf', 'hex'), {}, 'elem'),
                   ('m', ('leaf', 'int'), {'min_occurs': 1, 'nillable': False}, 'elem')]),
    ],
    'methods': [
        ('f', [('o', ('ref', 'Outer'))]),
        ('g', [('i', ('leaf', 'int')), ('s', ('leaf', 'text')), ('dt', ('leaf', 'datetime'))]),
        ('h', []),
        ('k', [('d', ('leaf', 'anydict')), ('x', ('leaf', 'anyxml')), ('l', ('arr', ('leaf', 'text')))]),
        # binary parameters in every encoding; over HttpRpc the default encoding is url-safe base64
        ('bin', [('ba', ('leaf', 'bytes')), ('bu', ('leaf', 'urlsafe')), ('bh', ('leaf', 'hex')), ('b6', ('leaf', 'b64')),
                 ('fi', ('leaf', 'file')), ('fu', ('leaf', 'fileurl')), ('fh', ('leaf', 'filehex')), ('mb', ('arr', ('leaf', 'bytes')))]),
    ],
    'bare': [('bi', ('leaf', 'int32')), ('bd', ('leaf', 'datetime')), ('bdu', ('leaf', 'duration')), ('bt', ('leaf', 'text10')),
             ('bdec', ('leaf', 'decimal')), ('be', ('enum',)), ('ba', ('arr', ('leaf', 'int'))), ('bc', ('ref', 'Inner')),
             ('bany', ('leaf', 'anydict')), ('bba', ('leaf', 'bytes')), ('bbu', ('leaf', 'urlsafe')), ('bbh', ('leaf', 'hex')),
             ('bfi', ('leaf', 'file'))],
}


def build_service(desc, calls):
    from spyne import rpc, ServiceBase, ComplexModel, Array, Unicode, XmlAttribute
    from spyne.model.complex import ComplexModelMeta
    from spyne.model.enum import Enum
    leaf = _leaf_classes()
    Color = Enum(*ENUM_VALUES, type_name='Color')
    built = {}

    def mk(ty):
        if ty[0] == 'leaf':
            return leaf[ty[1]]
        if ty[0] == 'enum':
            return Color
        if ty[0] == 'ref':
            return built[ty[1]]
        if ty[0] == 'arr':
            return Array(mk(ty[1]))
        raise Unmodelled(ty)
    for name, fields in desc['classes']:
        ti = []
        for fn, ty, kw, kind in fields:
            T = mk(ty)
            if kw:
                T = T.customize(**kw)
            if kind == 'attr':
                T = XmlAttribute(T)
            ti.append((fn, T))
        built[name] = ComplexModelMeta(name, (ComplexModel,), {'__namespace__': TNS, '_type_info': ti})
    ns = {}
    for mname, params in desc['methods']:
        types = [mk(ty) for _, ty in params]
        argn = ', '.join(pn for pn, _ in params)
        src = ('def %s(ctx%s):\n    calls.append(%r)\n    return "ok"\n' % (mname, (', ' + argn) if argn else '', mname))
        loc = {'calls': calls}
        exec(src, loc)
        fn = loc[mname]
        ns[mname] = rpc(*types, _returns=Unicode)(fn)
    for mname, ty in desc.get('bare', []):
        src = 'def %s(ctx, x):\n    calls.append(%r)\n    return "ok"\n' % (mname, mname)
        loc = {'calls': calls}
        exec(src, loc)
        ns[mname] = rpc(mk(ty), _body_style='bare', _returns=Unicode)(loc[mname])
    return type('ModelService', (ServiceBase,), ns)


# ------------------------------------------------------------------ introspection -> Gallina
class AppTerm(object):
    """the Gallina rendering of a built spyne Application"""

    def __init__(self, app):
        from spyne.protocol.xml import XmlDocument
        self.app = app
        self.prot = XmlDocument()
        self.ids = {}       # class -> id
        self.aids = {}      # Array class object -> id
        self.order = []
        self.method_cls = {}
        iface = app.interface
        self.registry = []
        from spyne.model import XmlAttribute
        for key, cls in iface.classes.items():
            if not key.startswith('{'):
                continue            # the class key built from an xsi:type always starts with '{'
            a = self.prot.get_cls_attrs(cls)
            if issubclass(cls, XmlAttribute):
                if cls.type is None:
                    self.registry.append((key, 'None'))     # a subclass of no declared type
                else:
                    self.registry.append((key, '(Some (TAttr %s, %s))' % (self.leaf_kind(cls.type), gbool(a.nillable))))
                continue
            self.registry.append((key, '(Some (%s, %s))' % (self.ty_of(cls), gbool(a.nillable))))
        self.methods = []
        for key, descs in iface.service_method_map.items():
            if len(descs) != 1:
                raise Unmodelled('auxiliary methods on %s' % key)
            from spyne import BODY_STYLE_BARE, BODY_STYLE_WRAPPED
            d = descs[0]
            c = d.in_message
            if d.in_header is not None:
                raise Unmodelled('in_header')
            a = self.prot.get_cls_attrs(c)
            mid = len(self.methods)
            if d.body_style is BODY_STYLE_BARE:
                sub = c.Attributes.sub_name
                if not isinstance(sub, str):
                    raise Unmodelled('bare method without a sub_name')
                bare = '(Some %s)' % gtext(sub)
            elif d.body_style is BODY_STYLE_WRAPPED and c.Attributes.sub_name is None:
                bare = 'None'
            else:
                raise Unmodelled('body style of %s' % key)
            self.methods.append((key, '(mkmsig %d%%nat %s %s %s)' % (mid, self.ty_of(c), gbool(a.nillable), bare)))
            self.method_cls[d.name] = mid

    def leaf_kind(self, cls):
        from spyne.model.primitive import Integer, Unicode, Boolean, DateTime, Date, Time, Duration
        from spyne.model.binary import ByteArray, BINARY_ENCODING_USE_DEFAULT
        from spyne.model.enum import EnumBase
        from spyne.model import SimpleModel
        A = cls.Attributes
        def same(base, names):
            for n in names:
                if getattr(A, n, None) != getattr(base.Attributes, n, None):
                    raise Unmodelled('%s: facet %s differs from the default' % (cls, n))
        if issubclass(cls, EnumBase):
            return '(LEnum %s)' % glist([gtext(v) for v in cls.__values__])
        if getattr(A, 'empty_is_none', False) or getattr(A, 'parser', None) is not None or \
                (getattr(A, 'values', None) and len(A.values) > 0):
            raise Unmodelled('%s: empty_is_none / parser / values' % cls)
        if issubclass(cls, Integer):
            if cls.validate_native is not Integer.validate_native:
                raise Unmodelled('bounded integer %s' % cls)
            same(Integer, ('gt', 'ge', 'lt', 'le'))
            msl = A.max_str_len
            return '(LInt %s)' % ('PosInf' if msl in (decimal.Decimal('inf'), float('inf')) else '(Fin %s)' % gz(msl))
        if issubclass(cls, Boolean):
            return 'LBool'
        if issubclass(cls, Date):
            same(Date, ('gt', 'ge', 'lt', 'le', 'date_format', 'format'))
            return 'LDate'
        if issubclass(cls, DateTime):
            same(DateTime, ('gt', 'ge', 'lt', 'le', 'dt_format', 'date_format', 'out_format', 'format', 'parser',
                            'serialize_as', 'as_timezone'))
            return 'LDateTime'
        if issubclass(cls, Time):
            same(Time, ('gt', 'ge', 'lt', 'le'))
            return 'LTime'
        if issubclass(cls, Duration):
            return 'LDur'
        if issubclass(cls, ByteArray):
            from spyne.model.binary import BINARY_ENCODING_BASE64, BINARY_ENCODING_URLSAFE_BASE64, BINARY_ENCODING_HEX
            enc = {BINARY_ENCODING_USE_DEFAULT: 'BDefault', BINARY_ENCODING_BASE64: 'BBase64',
                   BINARY_ENCODING_URLSAFE_BASE64: 'BUrl', BINARY_ENCODING_HEX: 'BHex'}.get(A.encoding)
            if enc is None:
                raise Unmodelled('ByteArray encoding %r' % (A.encoding,))
            return '(LBytes %s)' % enc
        if issubclass(cls, Unicode):
            same(Unicode, ('min_len', 'max_len', 'pattern', 'unicode_pattern', 'encoding', 'unicode_errors'))
            if cls.validate_string is not Unicode.validate_string:
                raise Unmodelled('Unicode subclass %s' % cls)
            return 'LText'
        raise Unmodelled('primitive %s' % cls)

    def ty_of(self, cls):
        from spyne.model import Array, ComplexModelBase, XmlAttribute
        if issubclass(cls, Array):
            (inner,) = cls._type_info.values()
            a = self.prot.get_cls_attrs(inner)
            if not a.nillable:
                raise Unmodelled('array element not nillable')
            if a.min_occurs != 0 or a.max_occurs not in ('unbounded', decimal.Decimal('inf'), float('inf')):
                raise Unmodelled('array items with occurrence bounds')
            # _get_xsi_target tells Array classes apart by namespace and type name
            aid = self.aids.setdefault((cls.get_namespace(), cls.get_type_name()), len(self.aids))
            return '(TArr %d %s)' % (aid, self.ty_of(inner))
        if issubclass(cls, ComplexModelBase):
            base = cls.__orig__ or cls
            if base not in self.ids:
                if getattr(base, '__extends__', None) is not None and base.__extends__ is not None and \
                        issubclass(base.__extends__, ComplexModelBase) and getattr(base.__extends__, '_type_info', None):
                    raise Unmodelled('inheritance: %s' % base)
                self.ids[base] = len(self.order)
                self.order.append(base)
                for k, v in base.get_flat_type_info(base).items():
                    if issubclass(v, XmlAttribute):
                        self.leaf_kind(v.type)
                    else:
                        self.ty_of(v)
            return '(TRef %d)' % self.ids[base]
        if issubclass(cls, XmlAttribute):
            raise Unmodelled('XmlAttribute outside a class')
        return '(TLeaf %s)' % self.leaf_kind(cls)

    def field(self, name, member):
        from spyne.model import XmlAttribute
        a = self.prot.get_cls_attrs(member)
        mx = a.max_occurs
        gmx = 'PosInf' if mx in ('unbounded', decimal.Decimal('inf'), float('inf')) else '(Fin %s)' % gz(mx)
        if a.nillable != a.nullable:
            raise Unmodelled('nillable != nullable')
        if getattr(a, 'exc', False) or getattr(a, 'read_only', False) or getattr(a, 'sub_name', None) is not None:
            raise Unmodelled('exc / read_only / sub_name member %s' % name)
        if issubclass(member, XmlAttribute):
            if getattr(member, 'attribute_of', None) or getattr(member.Attributes, 'attribute_of', None):
                raise Unmodelled('attribute_of')
            if self.prot.get_cls_attrs(member.type).nillable != a.nillable:
                raise Unmodelled('XmlAttribute and wrapped type differ in nillable')
            return '(mkfield %s (TLeaf %s) %s %s %s KAttr)' % (gtext(name), self.leaf_kind(member.type), gz(a.min_occurs),
                                                            gmx, gbool(a.nillable))
        return '(mkfield %s %s %s %s %s KElem)' % (gtext(name), self.ty_of(member), gz(a.min_occurs), gmx, gbool(a.nillable))

    def term(self):
        # classes can be discovered while rendering fields: iterate until stable
        done = []
        i = 0
        while i < len(self.order):
            cls = self.order[i]
            if getattr(cls.Attributes, '_xml_tag_body_as', None):
                raise Unmodelled('xml_tag_body_as')
            if getattr(cls, '_type_info_alt', None):
                if len(cls._type_info_alt) > 0:
                    raise Unmodelled('sub_name alternatives')
            fs = [self.field(k, v) for k, v in cls.get_flat_type_info(cls).items()]
            a = self.prot.get_cls_attrs(cls)
            done.append('(mkcls %s %s %s)' % (gtext(cls.get_type_name()), gbool(a.nillable), glist(fs)))
            i += 1
        reg = ['(%s, %s)' % (gtext(k), t) for k, t in self.registry]
        meth = ['(%s, %s)' % (gtext(k), c) for k, c in self.methods]
        return '(mkapp %s\n  %s\n  %s\n  %s)' % (gtext(self.app.interface.get_tns()), glist(['\n    ' + d for d in done]),
                                                glist(reg), glist(meth))


# ------------------------------------------------------------------ documents -> Gallina
def g_xnode(e):
    from lxml import etree
    if isinstance(e, etree._Comment):
        return '(XO OComment %s)' % gtext(e.text or '')
    if isinstance(e, etree._ProcessingInstruction):
        return '(XO OPI %s)' % gtext(e.text or '')
    if isinstance(e, etree._Entity):
        return '(XO OEntity %s)' % gtext(e.text or '')
    if not isinstance(e.tag, str):
        raise Unmodelled('node %r' % e)
    nsmap = ['(%s, %s)' % (gopt(p, gtext), gtext(u)) for p, u in e.nsmap.items()]
    attrs = ['(%s, %s)' % (gtext(k), gtext(v)) for k, v in e.attrib.items()]
    return '(XE %s %s %s %s %s)' % (gtext(e.tag), glist(nsmap), glist(attrs), gopt(e.text, gtext),
                                    glist([g_xnode(c) for c in e]))


def has_ids(root):
    return any(e.get('id') is not None for e in root.iter() if isinstance(e.tag, str))


def g_jv(v, depth=0):
    import math
    if depth > 40:
        raise Unmodelled('too deep')
    if v is None:
        return 'JNull'
    if v is True or v is False:
        return '(JBool %s)' % gbool(v)
    if isinstance(v, int):
        return '(JInt %s)' % gz(v)
    if isinstance(v, float):
        if math.isnan(v):
            return '(JFlt FNan)'
        if math.isinf(v):
            return '(JFlt %s)' % ('FPosInf' if v > 0 else 'FNegInf')
        if v == int(v):
            return '(JFlt (FInt %s))' % gz(int(v))
        return '(JFlt FFrac)'
    if isinstance(v, str):
        if any(0xD800 <= ord(c) < 0xE000 for c in v):
            raise Unmodelled('lone surrogate')
        return '(JStr %s)' % gtext(v)
    if isinstance(v, bytes):
        try:
            d = v.decode('utf8')
        except UnicodeDecodeError:
            d = None
        return '(JBytes %s %s)' % (gtext(v), gopt(d, gtext))
    if isinstance(v, (list, tuple)):      # msgpack.ExtType is a namedtuple: a tuple (code, data)
        return '(JList %s)' % glist([g_jv(x, depth + 1) for x in v])
    if isinstance(v, dict):
        return '(JMap %s)' % glist(['(%s, %s)' % (g_jv(k, depth + 1), g_jv(x, depth + 1)) for k, x in v.items()])
    if isinstance(v, (datetime.date, datetime.time, datetime.datetime)):
        return 'JObj'
    tn = type(v).__name__
    if tn == 'Timestamp':
        return 'JObj'
    raise Unmodelled('document value of type %s' % tn)
