"""C08 extension: Decimal, Uuid and the regular expressions (helpers of harness/c08.py)."""
import os, sys, re, json, decimal, uuid
import lib
from lib import gz, gtext, glist, gbool, gopt, gpair

THEOREMS_RE = ['C08_re_scan_date', 'C08_re_scan_time', 'C08_re_scan_offset', 'C08_re_scan_date_inbase',
               'C08_re_scan_time_inbase', 'C08_re_scan_date_tz', 'C08_re_datetime_reader', 'C08_re_date_reader',
               'C08_re_time_reader', 'C08_re_duration_reader', 'C08_re_datetime_pattern_composed', 'C08_re_fuel_sufficient',
               'C08_re_match_splits', 'C08_re_norm_sound']


def gout(o, f):
    kind = o[0]
    if kind == 'ok':
        return '(Ok %s)' % f(o[1])
    if kind == 'vfault':
        return 'VFault'
    return '(Crash %s)' % o[1]


# ------------------------------------------------------------------ Decimal
D = decimal.Decimal

def g_dec(d):
    sign, digits, exp = d.as_tuple()
    if not isinstance(exp, int):
        # NaN / Infinity: no finite Decimal; a term the model never produces, so that the case
        # disagrees and the direct oracle reports the concrete input
        return '(mkdec %s (-1) 0)' % gbool(bool(sign))
    coef = int(''.join(str(x) for x in digits)) if digits else 0
    return '(mkdec %s %s %s)' % (gbool(bool(sign)), gz(coef), gz(exp))

def dec_values(check, tier):
    rng = check.rng
    vals = [D(x) for x in ['0', '-0', '1', '-1', '0.1', '-0.00', '123.450', '1E+10', '1E-7', '1E-6', '1E-5', '12E1', '0E+3',
                           '0E-10', '1E+30', '9' * 40, '-' + '9' * 40 + '.' + '9' * 40, '1.0E-20', '5E-324', '1E+100',
                           '0.000001', '0.0000001', '0.00000123', '0.000001234', '100', '1.10', '10', '1E+1', '1E+0', '1E-0',
                           '0E-6', '0E-7', '0E-8', '0E+1', '-0E+1', '12345E-5', '12345E-10', '12345E-11', '12345E-12',
                           '1E+999999999999999999', '9.9E+999999999999999999', '1E-1999999999999999997',
                           '0E+999999999999999999', '-1E-999999999999999999', '1E+999', '123E+500', '1E-999']]
    n = 250 if tier == 'quick' else 5000
    for _ in range(n):
        nd = rng.choice([1, 1, 2, 3, 6, 7, 12, 30])
        coeff = rng.choice([0, rng.randint(0, 10 ** nd)])
        exp = rng.choice([0, rng.randint(-12, 3), rng.randint(-40, 40), -nd, -nd - 5, -nd - 6, -nd - 7, 1])
        vals.append(D((rng.randrange(2), tuple(int(c) for c in str(coeff)), exp)))
    return vals

def dec_literals(check, tier):
    rng = check.rng
    lits = ['1_0', '_1', '1_', '_', '1__0', '-_1', '1e_5', '1_e5', 'N_aN', 'nan', 'NaN', 'sNaN123', '-Infinity', 'inf', 'INF',
            '+iNf', 'infinit', 'Infinity', 'infinity_', 'in_f', '1E+999999999999999999', '1E+1000000000000000000',
            '9.9E+999999999999999999', '10E+999999999999999998', '10E+999999999999999999', '0E+1000000000000000000',
            '0E+999999999999999999', '0E+99999999999999999999999', '1E-1999999999999999997', '1E-1999999999999999998',
            '10E-1999999999999999998', '0E-1999999999999999998', '0E-99999999999999999999999', '1E-999999999999999999',
            '0.1E-1999999999999999996', '1.0E-1999999999999999997', '000E+999999999999999999', '0001E+999999999999999999',
            '0010E+999999999999999998', '0.00E+1000000000000000001', '0.0E+1000000000000000000',
            ' 1 ', '\t1\n', '\x1c1', '1\x1f', '\x851', '\xa01', ' 1', '　1', '1 2', '1\x00', '\x001', '_ 1', ' _1', '1_ ',
            '.', '.5', '5.', '+.5', '-5.', 'e5', '1e', '1e+', '1e+-5', '1E5', '1e05', '1e+05', '--1', '+-1', '1.2.3', '0x10',
            '1,5', '', ' ', '+', '-', '1e5 ', '1 e5', 'nan ', ' inf', 'na n', '-nan', '+snan', 'snan ', 'NaN0001', 'NaNx',
            'InfinityX', 'sNaN', 'snanx', 'nan1_2', 'NaN-1', '-', '+', '+_', '1E+9223372036854775807', '1E+9223372036854775808',
            '1E-9223372036854775808', '1E+99999999999999999999999999', '1E-99999999999999999999999999',
            '1' * 1023, '1' * 1024, '1' * 1025, ' ' * 1024 + '1', '0.' + '0' * 1021 + '1', '0.' + '0' * 1022 + '1',
            '007.10', '-0.50', '+1.', '0', '-0', '+0', '00', '0.0', '.0', '0.', '-.0', '1.0e-5', '1.E5', '.E5', '.5E5',
            'E', 'e', '1ee5', '1e5.0', '1e5e5', 'i', 'in', 'n', 'na', 's', 'sn', 'sna', 'INFINITY', 'iNfInItY', 'NAN', 'SNAN9']
    n = 300 if tier == 'quick' else 6000
    alpha = '0123456789' * 3 + '+-.eE_ naifs'
    for _ in range(n):
        r = rng.random()
        if r < .45:      # well-formed numbers
            s = rng.choice(['', '', '-', '+'])
            ip = ''.join(rng.choice('0123456789') for _ in range(rng.randint(0, 8)))
            fp = ''.join(rng.choice('0123456789') for _ in range(rng.randint(0, 8)))
            s += ip + (('.' + fp) if rng.random() < .6 else '')
            if rng.random() < .4:
                s += rng.choice('eE') + rng.choice(['', '+', '-']) + str(rng.choice([rng.randint(0, 30), rng.randint(0, 10 ** 19)]))
            if rng.random() < .15:
                k = rng.randint(0, len(s))
                s = s[:k] + '_' + s[k:]
            if rng.random() < .15:
                s = rng.choice([' ', '\n', '\x1d', '\xa0']) + s + rng.choice(['', ' ', '\t'])
        elif r < .6:     # xs:decimal literals
            ip = ''.join(rng.choice('0123456789') for _ in range(rng.randint(0, 10)))
            fp = ''.join(rng.choice('0123456789') for _ in range(rng.randint(0, 10)))
            s = rng.choice(['', '-', '+']) + ip + (('.' + fp) if (rng.random() < .6 or not ip) else '')
        elif r < .7:
            s = rng.choice(['', '-', '+']) + ''.join(rng.choice([c.upper(), c]) for c in rng.choice(['inf', 'infinity', 'nan', 'snan'])) \
                + rng.choice(['', '', '1', '123', 'x', '_', ' '])
        else:
            s = ''.join(rng.choice(alpha) for _ in range(rng.randint(1, 10)))
        lits.append(s)
    return lits

DEC_IMPORTS = ('From SpyneV Require Import Base.Prelude Base.Digits Base.Ext C08.DecModel Gen.NumTypes.\n'
               'Definition dout_eqb := out_eqb dec_eqb.')

def family_decimal(check, tier, observe, xsd_ok):
    from spyne.protocol import ProtocolBase
    from spyne.protocol.xml import XmlDocument
    from spyne.model.primitive import Decimal
    prot = ProtocolBase()
    vals = dec_values(check, tier)
    pc = []
    for d in vals:
        o = observe(prot.to_unicode, Decimal, d)
        pc.append(('(%s, %s)' % (g_dec(d), gtext(o[1]) if o[0] == 'ok' else '[0]'), 'to_unicode(Decimal,%r)=%r' % (d, o)))
        check.count(('decp', str(d)))
    lib.correspond(check, 'decimal_print', DEC_IMPORTS, 'dec * text',
                   '(fun c => text_eqb (decimal_to_unicode (fst c)) (snd c))', pc,
                   show='(fun c : dec * text => decimal_to_unicode (fst c))')
    lits = dec_literals(check, tier) + [prot.to_unicode(Decimal, d) for d in vals[:80]]
    rc = []
    for s in lits:
        o = observe(prot.from_unicode, Decimal, s)
        rc.append(('(%s, %s)' % (gtext(s), gout(o, g_dec)), 'from_unicode(Decimal,%r)->%r' % (s[:60], o)))
        check.count(('decr', s))
    lib.correspond(check, 'decimal_read', DEC_IMPORTS, 'text * out dec',
                   '(fun c => dout_eqb (decimal_from_unicode attrs_Decimal (fst c)) (snd c))', rc,
                   show='(fun c : text * out dec => decimal_from_unicode attrs_Decimal (fst c))')
    check.sample({'family': 'decimal', 'values': [str(d) for d in vals[:6]], 'literals': lits[:10]})
    # direct oracle: round trip (same sign, digits and exponent), lexical validity of what is written,
    # every xs:decimal literal read as its denotation, NaN / Infinity refused
    for d in vals:
        s = prot.to_unicode(Decimal, d)
        check.count(('deco', str(d)))
        if len(s) > 1024:
            continue
        o = observe(prot.from_unicode, Decimal, s)
        if o[0] != 'ok' or o[1] != d:
            check.fail('C08|Decimal|roundtrip', 'Decimal %r written %r read back %r' % (d, s, o), {'value': str(d)})
        elif not xsd_ok('decimal', s):
            shape = 'scientific-notation' if 'E' in s.upper() else 'other'
            check.fail('C08|Decimal|out_lex|%s' % shape, 'Decimal text %r is not a valid xs:decimal' % s, {'value': str(d)})
    rx = re.compile(r'[+-]?(\d+(\.\d*)?|\.\d+)\Z', re.ASCII)
    for s in lits:
        if not rx.match(s) or len(s) > 1024 or not xsd_ok('decimal', s):
            continue
        sign = -1 if s[0] == '-' else 1
        body = s.lstrip('+-')
        ip, _, fp = body.partition('.')
        want = D((0 if sign > 0 else 1, tuple(int(c) for c in str(int((ip + fp) or '0'))), -len(fp)))
        o = observe(prot.from_unicode, Decimal, s)
        check.count(('decl', s))
        if o[0] != 'ok' or o[1] != want:
            check.fail('C08|Decimal|in_lex', 'xs:decimal literal %r read as %r, denotes %r' % (s, o, want), {'text': s})
    for s in ['NaN', 'nan', '-NaN', 'sNaN', 'Infinity', '-Infinity', 'inf', '+Inf', 'NaN123', 'N_aN']:
        o = observe(prot.from_unicode, Decimal, s)
        check.count(('decs', s))
        if o[0] != 'vfault':
            check.fail('C08|Decimal|non-finite', 'Decimal text %r (no xs:decimal value) read as %r' % (s, o), {'text': s})


# ------------------------------------------------------------------ Uuid
UUID_IMPORTS = ('From SpyneV Require Import Base.Prelude Base.Digits C08.UuidModel.\n'
                'Definition zout_eqb := out_eqb Z.eqb.')

def uuid_values(check, tier):
    rng = check.rng
    vals = [0, 1, 15, 16, 255, 2 ** 32 - 1, 2 ** 32, 2 ** 64 - 1, 2 ** 64, 2 ** 127, 2 ** 128 - 1, 2 ** 128 - 2,
            0x12345678123456781234567812345678, 0xabcdefabcdefabcdefabcdefabcdefab, 0x0b345678123456781234567812345678,
            10 ** 38, 0xa << 124, 0xf << 124, 0x9 << 124]
    for k in range(0, 128, 4):
        vals.append(0xa << k)
        vals.append((1 << k) - 1)
    n = 120 if tier == 'quick' else 3000
    for _ in range(n):
        vals.append(rng.getrandbits(rng.choice([128, 128, 128, 64, 100, 8])))
    return vals

def uuid_literals(check, tier):
    rng = check.rng
    h = '12345678123456781234567812345678'
    c = '12345678-1234-5678-1234-567812345678'
    lits = [h, h.upper(), c, c.upper(), '{' + h + '}', '{' + c + '}', 'urn:uuid:' + h, 'urn:uuid:' + c, '{{' + h + '}}', '}' + h + '{',
            h[:8] + '-' + h[8:], '-----' + h, h + '---', '0x' + h[2:], '0X' + h[2:], '+' + h[1:], ' ' + h[1:], h[1:] + ' ',
            '\n' + h[1:], '1_' + h[2:], '_' + h[1:], h[1:] + '_', '1__' + h[3:], '0x_' + h[3:], '0x__' + h[4:], '+0x' + h[3:],
            ' 0x1' + h[4:], '-' + h, 'urn:' + h, 'uuid:' + h, 'uurn:uid:' + h, 'uuuid:id:' + h, 'urn:urn:uuid:' + h,
            'URN:UUID:' + h, h[:31], h + '0', '', 'g' + h[1:], h[:16] + '{}' + h[16:], '{' + h, h + '}', 'u{rn:' + h + '}',
            '\x1c' + h[1:], '\xa0' + h[1:], '0x' + '0' * 30, '+_' + h[2:], '+ ' + h[2:], '0b' + h[2:], '0o' + h[2:], '00' + h[2:],
            'urn:uuid:{' + h + '}', '{urn:uuid:' + h + '}', '0x' + h[:30], '0x' + '_' + h[:29], 'x' * 32, '0x' * 16, '+' * 32, ' ' * 32,
            '0' * 32, 'f' * 32, 'F' * 32, ' ' * 31 + '1', '1' + ' ' * 31, ' ' * 15 + '1f' + ' ' * 15, '1' + '_1' * 15 + '2', '1_' * 16,
            '+' + '0x' + 'f' * 29, '-' * 40, '{' * 32, 'uuid:' * 8, 'urn:' * 8 + h, 'ururn:n:' + h, 'uuuid:uid:' + h, 'urn' + h, ':' + h[1:],
            c[:-1], c + '0', c.replace('-', '_'), c.replace('-', ' '), c[:8] + c[9:], 'urn:uuid:', '{}', '{-}', h[:30] + 'éé']
    n = 200 if tier == 'quick' else 4000
    for _ in range(n):
        r = rng.random()
        x = '%032x' % rng.getrandbits(128)
        if rng.random() < .3:
            x = ''.join(rng.choice([ch, ch.upper()]) for ch in x)
        if r < .3:
            s = x[:8] + '-' + x[8:12] + '-' + x[12:16] + '-' + x[16:20] + '-' + x[20:]
        elif r < .5:
            s = rng.choice(['', '{', 'urn:uuid:', 'urn:', 'uuid:', '{{']) + x + rng.choice(['', '}', '}}', '-'])
        elif r < .8:
            k = rng.randrange(len(x))
            s = x[:k] + rng.choice(['-', '_', ' ', 'g', 'x', '0x', '{', '}', 'urn:', 'uuid:', '', '+', 'u', ':']) + x[k + rng.choice([0, 1, 2]):]
        else:
            s = ''.join(rng.choice('0123456789abcdefABCDEF-_{}urnid:x+ ') for _ in range(rng.choice([32, 36, 33, 31, rng.randint(0, 45)])))
        lits.append(s)
    return lits

def family_uuid(check, tier, observe, xsd_ok):
    from spyne.protocol import ProtocolBase
    from spyne.model.primitive import Uuid
    from spyne.model.primitive.string import UUID_PATTERN
    prot = ProtocolBase()
    vals = uuid_values(check, tier)
    pc = []
    for v in vals:
        o = observe(prot.to_unicode, Uuid, uuid.UUID(int=v))
        pc.append(('(%s, %s)' % (gz(v), gtext(o[1]) if o[0] == 'ok' else '[0]'), 'to_unicode(Uuid,%032x)=%r' % (v, o)))
        check.count(('uuidp', v))
    lib.correspond(check, 'uuid_print', UUID_IMPORTS, 'Z * text',
                   '(fun c => text_eqb (uuid_to_unicode (fst c)) (snd c))', pc,
                   show='(fun c : Z * text => uuid_to_unicode (fst c))')
    lits = uuid_literals(check, tier)
    rc = []
    for s in lits:
        o = observe(prot.from_unicode, Uuid, s)
        rc.append(('(%s, %s)' % (gtext(s), gout(o, lambda u: gz(u.int))), 'from_unicode(Uuid,%r)->%r' % (s, o)))
        check.count(('uuidr', s))
    lib.correspond(check, 'uuid_read', UUID_IMPORTS, 'text * out Z',
                   '(fun c => zout_eqb (uuid_from_unicode (fst c)) (snd c))', rc,
                   show='(fun c : text * out Z => uuid_from_unicode (fst c))')
    check.sample({'family': 'uuid', 'values': ['%032x' % v for v in vals[:4]], 'literals': lits[:8]})
    # direct oracle: round trip, Spyne's own pattern (the facet its schema publishes) on what is written,
    # every text of that pattern read as the value of its digits, no exception other than ValidationError
    pat = re.compile(UUID_PATTERN)
    for v in vals:
        u = uuid.UUID(int=v)
        s = prot.to_unicode(Uuid, u)
        o = observe(prot.from_unicode, Uuid, s)
        check.count(('uuido', v))
        if o != ('ok', u):
            check.fail('C08|Uuid|roundtrip', 'Uuid %r written %r read back %r' % (u, s, o), {'value': str(u)})
        elif not pat.fullmatch(s) or not xsd_ok('string', s):
            check.fail('C08|Uuid|out_lex', 'Uuid text %r does not match UUID_PATTERN' % s, {'value': str(u)})
    for s in lits:
        o = observe(prot.from_unicode, Uuid, s)
        check.count(('uuidl', s))
        if o[0] == 'crash':
            check.fail('C08|Uuid|malformed', 'Uuid text %r raised %r' % (s, o), {'text': s})
        elif re.fullmatch('[0-9a-fA-F]{8}-[0-9a-fA-F]{4}-[0-9a-fA-F]{4}-[0-9a-fA-F]{4}-[0-9a-fA-F]{12}', s, re.ASCII):
            want = uuid.UUID(int=int(s.replace('-', ''), 16))
            if o != ('ok', want):
                check.fail('C08|Uuid|in_lex', 'canonical uuid text %r read as %r' % (s, o), {'text': s})


# ------------------------------------------------------------------ regular expressions
RX_IMPORTS = 'From SpyneV Require Import Base.Prelude C08.Regex Gen.Regexes.'
RX_TYPE = 're * text * option (Z * list (text * option text))'
RX_OKB = '(fun c => match_agrees (fst (fst c)) (snd (fst c)) (snd c))'
RX_SHOW = ('(fun c : %s => match re_match (fst (fst c)) (snd (fst c)) with '
           'Some (mt, _, e) => Some (len mt, e) | None => None end)' % RX_TYPE)

def rx_want(mo, groups):
    """a Python match object -> the Coq term the case carries: None | Some (end, [(name, group)])"""
    if mo is None:
        return 'None'
    gd = []
    for i, g in enumerate(groups, 1):
        v = mo.group(i)
        gd.append('(%s, %s)' % (gtext(g), 'None' if v is None else '(Some %s)' % gtext(v)))
    return '(Some (%d, [%s]))' % (mo.end(), '; '.join(gd))

def _gen_pattern(rng, depth):
    """a pattern of the translated fragment.  The list-of-successes matcher computes EVERY way of
    matching (Python stops at the first), so repetition is kept shallow: inside a quantified group
    only '?' and '{2}' occur, and a pattern is at most 60 characters long."""
    def atom(d, inrep):
        r = rng.random()
        if r < .4 or d == 0:
            return rng.choice(['a', 'b', '0', '1', '-', '\\.', 'Z', '\\d', '\\d', '[ab]', '[0-9]', '[^a]', '[a-b0]', '.', '[+-]', '[T ]', ':'])
        if r < .65:
            return '(' + alt(d - 1, inrep) + ')'
        if r < .8:
            return '(?:' + alt(d - 1, inrep) + ')'
        return '(?P<g%d>' % rng.randrange(10 ** 6) + alt(d - 1, inrep) + ')'
    def rep(d, inrep):
        if rng.random() < .5:
            return atom(d, inrep)
        if inrep:
            return atom(d, True) + rng.choice(['?', '{2}', '?'])
        q = rng.choice(['?', '*', '+', '{2}', '{1,2}', '{0,2}', '{2,}', '{1,3}', '?', '+', '{2,2}', '{4}'])
        return atom(d, q not in ('?', '{2}', '{2,2}')) + q
    def seq(d, inrep):
        return ''.join(rep(d, inrep) for _ in range(rng.randint(1, 3))) + rng.choice(['', '', '\\Z'])
    def alt(d, inrep):
        return '|'.join(seq(d, inrep) for _ in range(rng.choice([1, 1, 1, 2, 3])))
    for _ in range(50):
        p = alt(depth, False)
        if len(p) <= 60:
            return p
    return 'a'

def _sample_match(rng, items):
    """a string the parsed sequence (re._parser items) can match, chosen at random: structured
    mostly-valid inputs for the generic matcher"""
    from re import _constants as C
    out = []
    for op, av in items:
        if op is C.LITERAL:
            out.append(chr(av))
        elif op is C.NOT_LITERAL:
            out.append(rng.choice([c for c in 'ab01-.Z:' if ord(c) != av]))
        elif op is C.ANY:
            out.append(rng.choice('ab01-.Z:'))
        elif op is C.IN:
            neg = av and av[0][0] is C.NEGATE
            its = [x for x in av if x[0] is not C.NEGATE]
            def member(ch):
                for o, a in its:
                    if (o is C.LITERAL and ord(ch) == a) or (o is C.RANGE and a[0] <= ord(ch) <= a[1]) or \
                            (o is C.CATEGORY and ch in '0123456789'):
                        return True
                return False
            pool = [ch for ch in 'ab01-.Z:+T 9' if member(ch) != bool(neg)]
            out.append(rng.choice(pool) if pool else 'a')
        elif op is C.MAX_REPEAT:
            lo, hi, sub = av
            top = lo + 2 if hi is C.MAXREPEAT else min(hi, lo + 2)
            for _ in range(rng.randint(lo, top)):
                out.append(_sample_match(rng, sub))
        elif op is C.SUBPATTERN:
            out.append(_sample_match(rng, av[3]))
        elif op is C.BRANCH:
            out.append(_sample_match(rng, rng.choice(av[1])))
        elif op is C.AT:
            pass
    return ''.join(out)


class _TooMany(Exception):
    pass

def _los_ends(items, s, i, budget):
    """end positions (with multiplicity) of every way the parsed sequence matches s from i: the size of
    the list the Coq matcher computes.  Used only to keep pathological (exponential) cases out of the
    generated stream; raises _TooMany past the budget."""
    from re import _constants as C
    ends = [i]
    for op, av in items:
        nxt = []
        for j in ends:
            if op in (C.LITERAL, C.NOT_LITERAL, C.ANY, C.IN):
                if j < len(s) and re.match(_one(op, av), s[j]):
                    nxt.append(j + 1)
            elif op is C.AT:
                if j == len(s):
                    nxt.append(j)
            elif op is C.SUBPATTERN:
                nxt.extend(_los_ends(av[3], s, j, budget))
            elif op is C.BRANCH:
                for a in av[1]:
                    nxt.extend(_los_ends(a, s, j, budget))
            elif op is C.MAX_REPEAT:
                lo, hi, sub = av
                def rep(j, lo, hi, depth):
                    out = []
                    if hi != 0 and depth < 64:
                        for k in _los_ends(sub, s, j, budget):
                            if k > j or lo > 0:
                                out.extend(rep(k, max(lo - 1, 0), hi if hi is C.MAXREPEAT else hi - 1, depth + 1))
                    if lo == 0:
                        out.append(j)
                    budget[0] -= len(out)
                    if budget[0] < 0:
                        raise _TooMany()
                    return out
                nxt.extend(rep(j, lo, hi, 0))
            budget[0] -= 1
            if budget[0] < 0:
                raise _TooMany()
        ends = nxt
    return ends

def _one(op, av):
    """a compiled one-character pattern for a single-character parse node"""
    from re import _constants as C
    if op is C.LITERAL:
        return re.escape(chr(av))
    if op is C.NOT_LITERAL:
        return '[^%s]' % re.escape(chr(av))
    if op is C.ANY:
        return '.'
    parts = []
    for o, a in av:
        if o is C.NEGATE:
            parts.append('^')
        elif o is C.LITERAL:
            parts.append(re.escape(chr(a)))
        elif o is C.RANGE:
            parts.append('%s-%s' % (re.escape(chr(a[0])), re.escape(chr(a[1]))))
        elif o is C.CATEGORY:
            parts.append('\\d')
    return '[' + ''.join(parts) + ']'


def family_regex(check, tier):
    """(a) the generic matcher of C08/Regex.v against Python's re on generated patterns of the fragment
    and generated strings (this is the trusted part of the regex tie, sampled);
    (b) the ASTs regenerated from Spyne's patterns against the compiled patterns themselves on the
    literal streams of the date/time/duration/uuid families."""
    import c08
    from translate import regexes as RX
    from translate.pyexpr import TranslateError
    rng = check.rng
    # (a)
    cases = []
    n = 150 if tier == 'quick' else 3000
    nmatch = 0
    tries = 0
    while len(cases) < 3 * n and tries < 40 * n:
        tries += 1
        p = _gen_pattern(rng, 2)
        try:
            cp = re.compile(p)
            term, groups = RX.to_coq(p, 0)
        except (TranslateError, re.error):
            continue
        tree = list(re._parser.parse(p, 0))
        for k in range(3):
            if k == 0:
                s = ''.join(rng.choice('ab01-.Z:+T ') for _ in range(rng.randint(0, 8)))
            else:
                s = _sample_match(rng, tree)
                if len(s) > 14:
                    s = s[:rng.randint(0, 14)]
                r = rng.random()
                if r < .3:
                    s += ''.join(rng.choice('ab01-.Z:') for _ in range(rng.randint(1, 3)))
                elif r < .45 and s:
                    j = rng.randrange(len(s))
                    s = s[:j] + rng.choice('ab01-.Z:') + s[j + 1:]
                elif r < .55 and s:
                    s = s[:rng.randrange(len(s))]
            try:
                _los_ends(tree, s, 0, [3000])
            except _TooMany:
                continue            # exponentially many ways of matching: not a case for an eager matcher
            mo = cp.match(s)
            nmatch += mo is not None
            cases.append(('(%s, %s, %s)' % (term, gtext(s), rx_want(mo, groups)),
                          're.match(%r, %r) -> %r' % (p, s, mo and (mo.end(), mo.groups()))))
            check.count(('rxg', p, s))
    lib.correspond(check, 'regex_generic', RX_IMPORTS, RX_TYPE, RX_OKB, cases, shard=150, show=RX_SHOW)
    check.extra['regex_generic_matches'] = nmatch
    # (b)
    pats = RX.patterns(lib.REPO)
    dts = c08.dt_literals(check, tier)
    durs = c08.dur_literals(check, tier)
    uu = uuid_literals(check, tier)
    streams = {
        'rx_DATE_PATTERN': [s[:12] for s in dts] + ['2020-01-05', '2020-1-05', '20200-01-05', ''],
        'rx_TIME_PATTERN': [s[11:] for s in dts if len(s) > 11] + ['12:00:00.', '12:00:00.5x', '12:00:00.55.5', '1:00:00'],
        'rx_OFFSET_PATTERN': [s[19:] for s in dts if len(s) > 19] + ['+02:00', '-14:00x', '+2:00', 'Z', '+02:0', '+0200'],
        'rx_DATETIME_PATTERN': dts,
        'rx_DateTime_local': dts, 'rx_DateTime_utc': dts, 'rx_DateTime_offset': dts,
        'rx_Date_offset': [s[:10] + s[19:] for s in dts if len(s) >= 19] + ['2020-01-05Z', '2020-01-05+02:00', '2020-01-05', '2020-01-05ZZ',
                                                                             '2020-01-05+02:00Z', '2020-01-05Z+02:00', '2020-01-05+02:00x'],
        'rx_inbase_date': [s[:10] for s in dts],
        'rx_inbase_time': [s[11:] for s in dts if len(s) > 11],
        'rx_inbase_duration': durs,
        'rx_UUID_PATTERN': uu,
    }
    for name, pat, flags in pats:
        term, groups = RX.to_coq(pat, flags)
        cp = re.compile(pat, flags)
        cs = []
        seen = set()
        for s in streams.get(name, dts):
            if s in seen or any(ord(ch) > 127 and ch.isdigit() for ch in s):
                continue            # non-ASCII decimal digits: outside the modelled universe (stated restriction)
            seen.add(s)
            mo = cp.match(s)
            cs.append(('(%s, %s, %s)' % (name, gtext(s), rx_want(mo, groups)),
                       '%s.match(%r) -> %r' % (name, s, mo and (mo.end(), mo.groupdict()))))
            check.count(('rxs', name, s))
        lib.correspond(check, 'regex_' + name, RX_IMPORTS, RX_TYPE, RX_OKB, cs, show=RX_SHOW)
    check.sample({'family': 'regex', 'generated pattern cases': len(cases), 'of which match': nmatch,
                  'spyne patterns': [p[0] for p in pats]})


# ------------------------------------------------------------------ direct oracles asked for by the second review
def oracle_fraction_in_lex(check, tier, observe, xsd_ok):
    """every xs:dateTime / xs:time literal with 1..9 fraction digits that denotes a whole number of
    microseconds (digits beyond the sixth are zeros), with Z / numeric offset / no zone, is read as
    exactly that instant: '.5' is 500000 microseconds, '.003' is 3000"""
    import datetime as D
    from spyne.protocol import ProtocolBase
    from spyne.protocol.soap import Soap11
    from spyne.model.primitive import DateTime, Time
    rng = check.rng
    prots = (('base', ProtocolBase()), ('soap', Soap11()))
    fracs = ['5', '05', '003', '0007', '00001', '000001', '5000000', '12345600', '123456000', '9', '99', '999', '9999', '99999',
             '999999', '1', '10', '100', '250', '2500']
    for k in range(1, 10):
        for _ in range(2 if tier == 'quick' else 40):
            head = ''.join(rng.choice('0123456789') for _ in range(min(k, 6)))
            fracs.append(head + '0' * (k - len(head)))
    zones = [('', None), ('Z', 0), ('+02:00', 120), ('-04:49', -289), ('+14:00', 840), ('-00:30', -30), ('+00:00', 0)]
    for fr in fracs:
        us = int((fr + '000000')[:6])
        y, mo, d = rng.choice([(2020, 5, 17), (1, 1, 1), (9999, 12, 31), (2000, 2, 29)])
        hh, mi, ss = rng.choice([(10, 20, 7), (0, 0, 0), (23, 59, 59), (12, 0, 44)])
        for zt, zm in zones:
            lit = '%04d-%02d-%02dT%02d:%02d:%02d.%s%s' % (y, mo, d, hh, mi, ss, fr, zt)
            if not xsd_ok('dateTime', lit):
                continue
            want = D.datetime(y, mo, d, hh, mi, ss, us, None if zm is None else D.timezone(D.timedelta(minutes=zm)))
            for nm, pr in prots:
                o = observe(pr.from_unicode, DateTime, lit)
                check.count(('fraclex', nm, lit))
                ok = o[0] == 'ok' and o[1].replace(tzinfo=None) == want.replace(tzinfo=None) and \
                    o[1].utcoffset() == want.utcoffset()
                if not ok:
                    check.fail('C08|DateTime|in_lex|fraction-digits', 'xs:dateTime literal %r read as %r, denotes %r'
                               % (lit, o, want), {'type': 'DateTime', 'text': lit, 'protocol': nm})
        lit = '%02d:%02d:%02d.%s' % (hh, mi, ss, fr)
        if xsd_ok('time', lit):
            o = observe(prots[0][1].from_unicode, Time, lit)
            check.count(('fraclex', 'time', lit))
            if o != ('ok', D.time(hh, mi, ss, us)):
                check.fail('C08|Time|in_lex|fraction-digits', 'xs:time literal %r read as %r, denotes %r'
                           % (lit, o, D.time(hh, mi, ss, us)), {'type': 'Time', 'text': lit})
        for zt in ('Z', '+02:00'):
            # a zone designator is legal in xs:time; Spyne's Time is naive: the fields must still be exact
            lit2 = lit + zt
            if xsd_ok('time', lit2):
                o = observe(prots[0][1].from_unicode, Time, lit2)
                check.count(('fraclex', 'time', lit2))
                if o[0] != 'ok' or (o[1].hour, o[1].minute, o[1].second, o[1].microsecond) != (hh, mi, ss, us):
                    check.fail('C08|Time|in_lex|fraction-digits', 'xs:time literal %r read as %r, its fields are %r'
                               % (lit2, o, (hh, mi, ss, us)), {'type': 'Time', 'text': lit2})


def oracle_custom_binary_encoding(check, tier, observe, xsd_ok):
    """a ByteArray customised with its own encoding keeps it behind every protocol, whatever the
    protocol's default binary encoding is: on write AND on read (a hex text whose length is a
    multiple of four is also valid base64, so a reader that prefers the protocol's default returns
    wrong bytes silently)"""
    from lxml import etree
    from spyne.protocol import ProtocolBase
    from spyne.protocol.xml import XmlDocument
    from spyne.protocol.soap import Soap11
    from spyne.protocol.json import JsonDocument
    from spyne.protocol.http import HttpRpc
    from spyne.model.binary import ByteArray, BINARY_ENCODING_BASE64, BINARY_ENCODING_HEX, BINARY_ENCODING_URLSAFE_BASE64
    rng = check.rng
    base = ProtocolBase()
    encs = {'base64': BINARY_ENCODING_BASE64, 'hex': BINARY_ENCODING_HEX, 'urlsafe_base64': BINARY_ENCODING_URLSAFE_BASE64}
    prots = []
    for name, mk in (('XmlDocument', XmlDocument), ('Soap11', Soap11), ('JsonDocument', JsonDocument), ('HttpRpc', HttpRpc)):
        try:
            prots.append((name, mk()))
        except Exception:       # a protocol that cannot be built in this environment is not driven
            continue
    blobs = [b'\xfb\xff\xbf\x00', b'ab', b'abcd', b'\x00\x00', b'\xde\xad\xbe\xef', b'\xfb\xff', b'\xff' * 6, b'a', b'abc', b'',
             b'\xfb\xf0\x3e\x3f', bytes(range(16))]
    for _ in range(10 if tier == 'quick' else 300):
        blobs.append(bytes(rng.randrange(256) for _ in range(rng.choice([1, 2, 3, 4, 6, 8, 10]))))
    for ename, enc in encs.items():
        T = ByteArray(encoding=ename)
        for pname, pr in prots:
            for b in blobs:
                want = base.to_unicode(ByteArray, [b], enc)
                check.count(('binenc', ename, pname, b))
                w = observe(pr.to_unicode, T, [b], pr.binary_encoding)
                if w != ('ok', want):
                    check.fail('C08|ByteArray|custom-encoding|%s|write' % ename,
                               'ByteArray(encoding=%r) behind %s (default %s): %r written %r, its own encoding gives %r'
                               % (ename, pname, getattr(pr.binary_encoding, '__name__', pr.binary_encoding), b, w, want),
                               {'encoding': ename, 'protocol': pname, 'bytes': list(b)})
                    continue
                if b == b'':
                    continue
                readers = [('from_unicode', lambda s: pr.from_unicode(T, s, pr.binary_encoding))]
                if pname in ('XmlDocument', 'Soap11'):
                    def via_element(s, pr=pr):
                        el = etree.Element('v')
                        el.text = s
                        return pr.from_element(None, T, el)
                    readers.append(('from_element', via_element))
                for rn, rd in readers:
                    r = observe(rd, want)
                    if r[0] != 'ok' or b''.join(r[1]) != b:
                        check.fail('C08|ByteArray|custom-encoding|%s|read' % ename,
                                   'ByteArray(encoding=%r) behind %s (default %s): its text %r read by %s as %r, denotes %r'
                                   % (ename, pname, getattr(pr.binary_encoding, '__name__', pr.binary_encoding), want, rn, r, b),
                                   {'encoding': ename, 'protocol': pname, 'bytes': list(b), 'text': want})


def oracle_plus_sign_integers(check, tier, observe, xsd_ok, int_types):
    """XSD allows an explicit '+' on xs:integer and every derived type: such a literal, within the
    value space, is read as its value under soft validation too, as element text and as attribute"""
    from lxml import etree
    from spyne.protocol.xml import XmlDocument
    from spyne.model.primitive import number as P
    from spyne.model.complex import ComplexModel, XmlAttribute
    xml = XmlDocument(validator='soft')
    for tn in int_types:
        T = getattr(P, tn)
        mb, xb = T.Attributes.min_bound, T.Attributes.max_bound
        lo = 1 if tn == 'PositiveInteger' else (0 if tn == 'UnsignedInteger' else mb)
        cands = [1, 5, 127]
        if xb is not None:
            cands += [xb, xb - 1]
        else:
            cands += [2147483647, 10 ** 30]
        if lo is not None and lo <= 0:
            cands.append(0)
        C = type('C08Plus' + tn, (ComplexModel,), {'__namespace__': 'tns', 'a': XmlAttribute(T), 'e': T})
        C.resolve_namespace(C, 'tns')
        for n in cands:
            if xb is not None and n > xb:
                continue
            lit = '+%d' % n
            if not xsd_ok(T.__type_name__, lit):
                continue
            check.count(('plus', tn, n))
            el = etree.Element('v')
            el.text = lit
            o = observe(xml.from_element, None, T, el)
            if o != ('ok', n):
                check.fail('C08|%s|in_lex|plus-sign|element' % tn, '%s: element text %r (a valid xs:%s) read as %r under soft validation'
                           % (tn, lit, T.__type_name__, o), {'type': tn, 'text': lit, 'where': 'element'})
            doc = etree.fromstring('<C08Plus%s xmlns="tns" a="%s"><e>%s</e></C08Plus%s>' % (tn, lit, lit, tn))
            o = observe(xml.from_element, None, C, doc)
            got = (o[1].a, o[1].e) if o[0] == 'ok' else o
            if got != (n, n):
                check.fail('C08|%s|in_lex|plus-sign|attribute' % tn, '%s: attribute / child element %r (a valid xs:%s) read as %r under soft validation'
                           % (tn, lit, T.__type_name__, got), {'type': tn, 'text': lit, 'where': 'attribute'})
