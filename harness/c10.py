"""C10 — hostile or malformed requests end in a client fault, never a crash."""
import os, sys, json, copy, subprocess, binascii, time
import lib
from lib import gz, gtext, glist, gbool, gopt
import c10_drive as D
import c10_gen as G
import c10_universe as U

THEOREMS = [
    'C10_syntax_xml', 'C10_syntax_soap', 'C10_syntax_json', 'C10_syntax_yaml_refuted', 'C10_syntax_yaml_partial',
    'C10_syntax_msgpack', 'C10_leaf_total', 'C10_xml_total', 'C10_soap_total', 'C10_dict_total',
    'C10_dict_fuel_sufficient', 'C10_xml_wsgi_total', 'C10_soap_wsgi_total', 'C10_dict_wsgi_total',
    'C10_fault_means_not_called', 'C10_get_out_object_guard', 'C10_wsgi_charset', 'C10_binary_total',
]

# what each parser library may raise, as assumed by the theorems (C10/Proofs.v XML_FIRST,
# C10/ProofsDict.v JSON_RAISES / YAML_RAISES / MSGPACK_RAISES); every library failure met by the
# harness is checked against it
LIB_RAISES = {
    'xml': ('EXMLSyntaxError', 'EValueError'), 'soap11': ('EXMLSyntaxError', 'EValueError'),
    'soap12': ('EXMLSyntaxError', 'EValueError'),
    'json': ('EValueError', 'EJSONDecodeError', 'EUnicodeDecodeError', 'ERecursionError'),
    'yaml': ('EYAMLError', 'EMarkedYAMLError', 'EScannerError', 'EParserError', 'EComposerError', 'EConstructorError',
             'EReaderError', 'EValueError', 'EUnicodeDecodeError'),
    'msgpack': ('EValueError', 'EMsgpackExtraData', 'EMsgpackFormatError', 'EMsgpackStackError', 'EUnicodeDecodeError'),
}


# ------------------------------------------------------------------ replay format
def req_record(req):
    r = dict(req)
    r['body_hex'] = binascii.hexlify(r.pop('body')).decode('ascii')
    return r

def req_from_record(r):
    r = dict(r)
    r['body'] = binascii.unhexlify(r.pop('body_hex'))
    return r


def input_shape(req, verdict):
    """a coarse tag of the input, for the failures that are pinned to one input shape (library
    defects listed as known findings); empty for everything else"""
    kind, detail = verdict
    if req['protocol'] == 'mprpc' and req.get('bare'):
        return '|bare-method'
    if D.in_proto(req['protocol']) == 'yaml' and kind == 'crash' and detail.endswith('protocol/yaml.py:create_in_document'):
        for tag in (b'!!timestamp', b'!!bool'):
            if tag in req['body']:
                return '|explicit-tag-%s-on-a-scalar-of-another-kind' % tag.decode()
    return ''


def violation_key(req, verdict):
    kind, detail = verdict
    # the site is in the detail; the protocol named is the INPUT protocol (the output protocol of a
    # cross configuration shows in the site when it matters)
    return 'C10|%s|%s|%s%s' % (kind, detail, D.in_proto(req['protocol']), input_shape(req, verdict))


def check_request(check, sv, which, req, origin):
    """drive one request against the real implementation and judge it; returns the observation"""
    obs = D.observe(sv, which, req)
    check.count((which, req['protocol'], req.get('validator'), req.get('transport', 'server'), req['body'],
                 req.get('ctype', ''), req.get('method'), req.get('path'), req.get('qs'), str(req.get('extra'))))
    v = D.judge(req['protocol'], obs, req.get('transport', 'server'))
    if v is not None:
        what = ('%s request over %s (validator=%s, %s, service=%s): %s; body %r' % (
            origin, req['protocol'], req.get('validator'), req.get('transport', 'server'), which, obs.short(),
            req['body'][:160]))
        rec = req_record(req)
        rec.update(service=which, origin=origin, observed=obs.short(), faultstring=obs.faultstring)
        check.fail(violation_key(req, v), what, rec)
    return obs


# ------------------------------------------------------------------ the direct oracle
def requests_for(rng, proto, body, validators=None, wsgi_p=0.35):
    out = []
    for v in (validators or D.validators(proto)):
        out.append(dict(protocol=proto, validator=v, transport='server', body=body))
        if rng.random() < wsgi_p:
            out.append(dict(protocol=proto, validator=v, transport='wsgi', body=body))
    return out


def structured_bodies(rng, desc, n_mut, allow_bare=True):
    """one logical request rendered (and mutated) for every protocol: [(proto, body, origin)]"""
    out = []
    m, args = G.gen_request(rng, desc)
    while not allow_bare and isinstance(args, G.Bare):
        m, args = G.gen_request(rng, desc)
    bare = isinstance(args, G.Bare)
    doc = G.doc_of(m, args)
    try:
        for _ in range(n_mut):
            doc = G.mutate_doc(rng, doc)
    except Exception:
        doc = G.doc_of(m, args)
    for p in ('json', 'yaml', 'msgpack'):
        d = G.msgpack_top(doc) if p == 'msgpack' and rng.random() < .85 else doc
        b = G.render_dict(p, d)
        if b is not None:
            out.append((p, b, 'structured(%d mutations)' % n_mut))
            # the same request with an XML-family output protocol
            for cp in D.CROSS:
                if D.in_proto(cp) == p and rng.random() < .5:
                    out.append((cp, b, 'structured(%d mutations), cross output' % n_mut))
    # msgpack-rpc
    try:
        import msgpack
        mm = m
        a = {'x': args.value} if bare else args
        call = [0, 1, mm, [doc.get(mm, doc)] if isinstance(doc, dict) and rng.random() < .5 else list(a.values())]
        if n_mut and rng.random() < .5:
            call = G.setp(call, rng.choice(G.paths(call)), copy.deepcopy(rng.choice(G.JUNK)))
        out.append(('mprpc', msgpack.packb(call, use_bin_type=True),
                    'structured(%d mutations)%s' % (n_mut, ' bare' if bare else '')))
    except Exception:
        pass
    from lxml import etree
    for p, ns in (('xml', None), ('soap11', G.S11), ('soap12', G.S12)):
        try:
            root = G.render_xml(desc, m, args, ns)
            for _ in range(n_mut):
                root = G.mutate_xml(rng, root, desc)
            b = etree.tostring(root)
        except Exception:
            continue
        if n_mut and rng.random() < .08:
            eb = G.with_entity(b, rng.choice(['t:' + m, 'o', 'arr', 'inner', 'e:Body', m]))
            if eb:
                b = eb
        out.append((p, b, 'structured(%d mutations)' % n_mut))
    # HttpRpc: query string
    try:
        if bare:
            raise ValueError('no flat form for a bare argument here')
        qs = G.render_qs(m, args if n_mut == 0 else (doc.get(m) if isinstance(doc, dict) and isinstance(doc.get(m), dict) else args))
        if n_mut and rng.random() < .3:
            qs = (qs + '&' if qs else '') + rng.choice(G.QS_JUNK)
        out.append(('http', (m, qs), 'structured(%d mutations)' % n_mut))
    except Exception:
        pass
    return out


def oracle_campaign(check, sv, which, desc):
    rng = check.rng
    quick = check.tier == 'quick'
    n_struct = 140 if quick else 2500
    stats = {}
    spent = {}
    def run(req, origin):
        t0 = time.time()
        obs = check_request(check, sv, which, req, origin)
        o = origin.replace(', cross output', '').split('(')[0]
        n, t = spent.get(o, (0, 0.0))
        spent[o] = (n + 1, t + time.time() - t0)
        k = (req['protocol'], obs.kind if obs.kind != 'fault' else 'fault:' + str(obs.code))
        stats[k] = stats.get(k, 0) + 1
        return obs
    # 1. structured stream
    for it in range(n_struct):
        n_mut = rng.choice([0, 1, 1, 1, 2, 2, 3])
        for p, b, origin in structured_bodies(rng, desc, n_mut):
            if p == 'http':
                m, qs = b
                for v in (None, 'soft'):
                    run(dict(protocol='http', validator=v, transport='wsgi', body=b'', method='GET', path='/' + m, qs=qs,
                             ctype=None), origin)
                continue
            for req in requests_for(rng, p, b):
                if origin.endswith(' bare'):
                    req['bare'] = True
                run(req, origin)
            # byte-level damage of the same request
            if rng.random() < (.25 if quick else .5):
                for tb in G.truncations(rng, b, 3 if quick else 12) + [G.corrupt(rng, b) for _ in range(2)]:
                    for req in requests_for(rng, p, tb, validators=(rng.choice(D.validators(p)),), wsgi_p=.25):
                        if origin.endswith(' bare'):
                            req['bare'] = True
                        run(req, 'truncated/corrupted')
    # 1b. every leaf member x every hostile literal of its kind (and the general junk), at its place
    #     in an otherwise valid request: the boundary cases of the leaf readers, end to end
    idx = G.field_index(desc)
    cls_fields = dict(desc['classes'])
    from lxml import etree

    def at_place(base_m, path, multi, lit, origin, vs, some=False):
        """the literal at its place in an otherwise valid request, in every protocol that can carry it (with
        [some]: in one dict protocol and one XML protocol drawn by rng, and HttpRpc)"""
        args = G.gen_value_for_method(rng, desc, base_m, path)
        args2 = G.put_at(copy.deepcopy(args), path, [lit] if multi else lit)
        doc = {base_m: args2}
        big = isinstance(lit, str) and len(lit) > 5000
        dps = ('json', 'yaml', 'msgpack')
        xps = (('xml', None), ('soap11', G.S11))
        if some:
            dps, xps = (rng.choice(dps),), (rng.choice(xps),)
        for p in dps:
            b = G.render_dict(p, G.msgpack_top(doc) if p == 'msgpack' else doc)
            if b is not None:
                for v in vs:
                    run(dict(protocol=p, validator=v, transport='server', body=b), origin)
                for cp in D.CROSS:
                    if D.in_proto(cp) == p and ((isinstance(lit, str) and not big) or rng.random() < .2):
                        run(dict(protocol=cp, validator=rng.choice((None, 'soft')), transport='server', body=b),
                            origin + ', cross output')
        if isinstance(lit, (str, int, float, bool)) or lit is None:
            for p, ns in xps:
                try:
                    b = etree.tostring(G.render_xml(desc, base_m, args2, ns))
                except Exception:
                    continue
                for v in ((None, 'soft') if len(vs) > 1 else vs):
                    run(dict(protocol=p, validator=v, transport='server', body=b), origin)
                if p == 'xml' and len(vs) > 1 and origin != 'leaf sweep':
                    run(dict(protocol=p, validator='lxml', transport='server', body=b), origin)
            if isinstance(lit, str):
                try:
                    qs = G.render_qs(base_m, args2)
                except Exception:
                    return
                for v in (('soft', None) if origin != 'leaf sweep' else ('soft',)):
                    run(dict(protocol='http', validator=v, transport='wsgi', body=b'', method='GET',
                             path='/' + base_m, qs=qs, ctype=None), origin)

    for m, params in desc['methods']:
        targets = []      # (path in args, kind)
        def walk(owner_fields, pre, depth):
            for fn, fty, kw, kind in owner_fields:
                t = fty
                path = pre + (fn,)
                multi = kw.get('max_occurs', 1) != 1
                if t[0] == 'arr':
                    t = t[1]
                    multi = True
                k = 'enum' if t[0] == 'enum' else t[1] if t[0] == 'leaf' else None
                if k is not None:
                    targets.append((path, k, multi))
                elif t[0] == 'ref' and depth > 0:
                    walk(cls_fields[t[1]], path + ((0,) if multi else ()), depth - 1)
        walk([(pn, ty, {}, 'elem') for pn, ty in params], (), 2)
        for path, k, multi in targets:
            lits = list(G.KIND_JUNK.get(k, [])) + G.GENERAL_JUNK
            if quick:
                lits = list(G.KIND_JUNK.get(k, [])) + rng.sample(G.GENERAL_JUNK, 4)
            for lit in lits:
                at_place(m, path, multi, lit, 'leaf sweep', (None, 'soft'))
            # length as a dimension: 1, 99, 100, 101, 1000, 70000 characters
            for lit in G.long_literals(rng, k, every=not quick):
                # quick: binary parameters in every protocol with every validator, binary members of a nested object
                # with every validator in one protocol of each family, the other kinds in one of each
                binary = G.is_binary_kind(k)
                full = not quick or (binary and len(path) == 1)
                vs = (None, 'soft') if (full or binary) else (rng.choice((None, 'soft')),)
                at_place(m, path, multi, lit, 'leaf sweep, length %d' % len(lit), vs, some=not full)
    # 1c. the same for the single argument of every bare method
    from lxml import etree as _et
    for m, ty in desc.get('bare', []):
        t, multi = (ty[1], True) if ty[0] == 'arr' else (ty, False)
        k = 'enum' if t[0] == 'enum' else t[1] if t[0] == 'leaf' else None
        lits = (list(G.KIND_JUNK.get(k, [])) if k else []) + (G.GENERAL_JUNK if not quick else rng.sample(G.GENERAL_JUNK, 8))
        n_short = len(lits)
        if k:
            lits += G.long_literals(rng, k, every=not quick)
        for li, lit in enumerate(lits):
            val = [lit] if multi else lit
            # quick: the long literals of the non-binary kinds in one dict protocol and one XML protocol
            some = quick and li >= n_short and not G.is_binary_kind(k)
            for p in ((rng.choice(('json', 'yaml', 'msgpack')),) if some else ('json', 'yaml', 'msgpack') + D.CROSS):
                ip = D.in_proto(p)
                b = G.render_dict(ip, G.msgpack_top({m: val}) if ip == 'msgpack' else {m: val})
                if b is not None:
                    for v in (None, 'soft'):
                        run(dict(protocol=p, validator=v, transport='server', body=b), 'bare argument sweep')
            if isinstance(lit, (str, int, float, bool)) or lit is None:
                xps = (('xml', None), ('soap11', G.S11), ('soap12', G.S12))
                for p, ns in ((rng.choice(xps),) if some else xps):
                    try:
                        b = _et.tostring(G.render_xml(desc, m, G.Bare(val, ty), ns))
                    except Exception:
                        continue
                    for v in D.validators(p):
                        run(dict(protocol=p, validator=v, transport='server', body=b), 'bare argument sweep')
    # 2. the corpus, every validator, both entry points
    for p, bodies in G.CORPUS.items():
        for b in bodies:
            for v in D.validators(p):
                run(dict(protocol=p, validator=v, transport='server', body=b), 'corpus')
            run(dict(protocol=p, validator=None, transport='wsgi', body=b), 'corpus')
            for cp in D.CROSS:
                if D.in_proto(cp) == p:
                    run(dict(protocol=cp, validator='soft', transport='server', body=b), 'corpus, cross output')
    for b in G.CORPUS_MPRPC_BARE:
        for v in (None, 'soft'):
            run(dict(protocol='mprpc', validator=v, transport='server', body=b, bare=True), 'corpus')
    # 3. every prefix of one valid request per protocol (thorough: of several)
    for rep in range(1 if quick else 6):
        m, args = G.gen_request(rng, desc)
        for p, b, _ in structured_bodies(rng, desc, 0, allow_bare=False):
            if p == 'http':
                continue
            step = max(1, len(b) // (60 if quick else 100000))
            for i in range(0, len(b), step):
                run(dict(protocol=p, validator=rng.choice(D.validators(p)), transport='server', body=b[:i]), 'prefix')
    # 4. random bytes
    for _ in range(60 if quick else 1500):
        b = G.random_bytes(rng, rng.choice([1, 2, 3, 8, 40, 200]))
        p = rng.choice([x for x in D.PROTOCOLS if x != 'http'])
        run(dict(protocol=p, validator=rng.choice(D.validators(p)), transport=rng.choice(['server', 'wsgi']), body=b), 'random bytes')
    # 5. transport-level variations
    valid = {}
    for p, b, _ in structured_bodies(rng, desc, 0, allow_bare=False):
        valid[p] = b
    for p in D.PROTOCOLS:
        if p == 'http' or p not in valid:
            continue
        for var in G.WSGI_VARIANTS:
            req = dict(protocol=p, validator=None, transport='wsgi', body=valid[p])
            req.update(var)
            run(req, 'transport variation')
    # 5b. the grammar of the Content-Type header: parameter spellings (token, quoted, RFC 2231 extended and
    #     continued, duplicated, case, junk), every kind of codec name, multipart wrappings
    for p in D.PROTOCOLS:
        if p == 'http' or p not in valid:
            continue
        for ct in G.content_types(rng, p, quick):
            run(dict(protocol=p, validator=None, transport='wsgi', body=valid[p], ctype=ct), 'content-type grammar')
    for p in ('soap11', 'soap12'):
        if p in valid:
            for mb in G.multipart_bodies(valid[p]):
                for ct in [c for c in G.CONTENT_TYPE_JUNK if c.lower().startswith('multipart')]:
                    run(dict(protocol=p, validator=None, transport='wsgi', body=mb, ctype=ct), 'multipart')
    for hdr, vals in (('HTTP_SOAPACTION', ['', '"', '"zz"', '\xff', 'a' * 20000, '"{tns}h"', 'h']),
                      ('HTTP_ACCEPT', ['', '*/*; q=x', '\xff', ';;;']), ('HTTP_COOKIE', ['a', 'a=b; c', '=;=', '\xff=\x00']),
                      ('HTTP_HOST', ['', ':', 'x:y:z', '[::1]:80', '\xff']),
                      ('HTTP_CONTENT_TYPE', ['text/xml; charset=hex']), ('REQUEST_METHOD', ['', 'post', 'OPTIONS', 'P\x00ST'])):
        for p in ('xml', 'soap11', 'json'):
            if p in valid:
                for val in vals:
                    run(dict(protocol=p, validator=None, transport='wsgi', body=valid[p], extra={hdr: val}), 'header variation')
    for path in ['/', '', '/zz', '/f/g', '//', '/f/', '/%7Btns%7Df', '/{tns}f', '/{other}f', '/\xff']:
        run(dict(protocol='http', validator=None, transport='wsgi', body=b'', method='GET', path=path, qs='', ctype=None),
            'transport variation')
    for qs in G.QS_JUNK:
        for m in ('f', 'g'):
            run(dict(protocol='http', validator='soft', transport='wsgi', body=b'', method='GET', path='/' + m, qs=qs,
                     ctype=None), 'query string')
    check.extra['oracle_seconds_%s' % which] = dict((o, '%d requests, %.1fs' % nt) for o, nt in sorted(spent.items()))
    if os.environ.get('C10_TIMING'):
        for o, nt in sorted(spent.items()):
            sys.stderr.write('%-40s %6d requests %6.1fs\n' % ((o,) + nt))
    check.extra['oracle_outcomes'] = dict(('%s %s' % k, n) for k, n in sorted(stats.items()))


def get_out_object_probe(check, sv, which):
    """a transport that calls get_out_object although in_error is set must not reach the user function"""
    from spyne.server import ServerBase
    from spyne.context import MethodContext
    probes = [('xml', b'<g xmlns="tns"><i>abc</i></g>'), ('soap11', G.env11('<g xmlns="tns"><i>abc</i></g>')),
              ('json', b'{"g": {"i": "abc"}}'), ('yaml', b'g: {i: abc}'), ('msgpack', b'\x81\xc4\x01g\x81\xa1i\xa3abc'),
              ('json', b'{"g": {"dt": "2020-13-45T00:00:00"}}')]
    for proto, body in probes:
        del sv.calls[:]
        srv = ServerBase(sv.app(which, proto, None))
        ctx = MethodContext(srv, MethodContext.SERVER)
        ctx.in_string = [body]
        ctx, = srv.generate_contexts(ctx)[:1]
        if not ctx.in_error:
            srv.get_in_object(ctx)
        check.count(('get_out_object-probe', proto, body))
        if not ctx.in_error:
            continue
        try:
            srv.get_out_object(ctx)
        except Exception:
            pass
        oe = getattr(ctx, 'out_error', None)
        if oe is not None and not D.is_client(getattr(oe, 'faultcode', None)):
            check.fail('C10|server-fault|get_out_object-with-in_error-set|%s' % proto,
                       'get_out_object went on to process_request although in_error was %s: the answer became %s'
                       % (ctx.in_error, oe),
                       {'protocol': proto, 'validator': None, 'transport': 'server+get_out_object',
                        'body_hex': binascii.hexlify(body).decode('ascii'), 'service': which})
        if sv.calls:
            check.fail('C10|called+fault|get_out_object-with-in_error-set|%s' % proto,
                       'get_out_object ran the user function %s for a request whose in_error is %s' % (sv.calls, ctx.in_error),
                       {'protocol': proto, 'validator': None, 'transport': 'server+get_out_object',
                        'body_hex': binascii.hexlify(body).decode('ascii'), 'service': which})


YAML_DEEP = 60000

def yaml_deep_nesting(check):
    """a document nested some 10^4 levels deep takes the interpreter down inside libyaml's
    composer (C stack): run in a child process"""
    code = ('import sys, logging; logging.disable(logging.CRITICAL); sys.path.insert(0, %r); sys.path.insert(0, %r)\n'
            'import c10_drive as D\nsv = D.Services()\nn = %d\n'
            'o = D.drive_server(sv, "rich", "yaml", None, b"[" * n + b"]" * n)\nprint("OBS", o.short())\n'
            % (lib.REPO, os.path.dirname(os.path.abspath(__file__)), YAML_DEEP))
    p = subprocess.run(['timeout', '120', sys.executable, '-W', 'ignore', '-c', code], stdout=subprocess.PIPE,
                       stderr=subprocess.PIPE, text=True, env=dict(os.environ, PYTHONHASHSEED='0'))
    check.count(('yaml-deep', YAML_DEEP))
    if p.returncode != 0 and 'OBS' not in p.stdout:
        check.fail('C10|process-death|yaml|libyaml-composer|nesting>=%d' % YAML_DEEP,
                   'a YAML request nested %d levels deep kills the interpreter (exit status %d) inside '
                   'yaml.CSafeLoader' % (YAML_DEEP, p.returncode),
                   {'protocol': 'yaml', 'validator': None, 'transport': 'server', 'body_repr': "b'[' * %d + b']' * %d" % (YAML_DEEP, YAML_DEEP)})
    elif 'OBS crash' in p.stdout or 'fault Server' in p.stdout:
        check.fail('C10|crash|yaml-deep-nesting|yaml', 'deeply nested YAML: %s' % p.stdout.strip(),
                   {'protocol': 'yaml', 'body_repr': "b'[' * %d + b']' * %d" % (YAML_DEEP, YAML_DEEP)})


def leaf_correspondence(check, sv):
    """Leaf.v readers against the real from_unicode of XmlDocument / Soap11, per primitive kind"""
    import c10_universe
    rng = check.rng
    table = coq_class_table()
    leaf = c10_universe._leaf_classes()
    from spyne.model.enum import Enum
    Color = Enum(*c10_universe.ENUM_VALUES, type_name='Color')
    kinds = [('int', '(LInt (Fin 1024))'), ('text', 'LText'), ('bool', 'LBool'), ('datetime', 'LDateTime'), ('date', 'LDate'),
             ('time', 'LTime'), ('duration', 'LDur'), ('bytes', '(LBytes BDefault)'), ('b64', '(LBytes BBase64)'),
             ('urlsafe', '(LBytes BUrl)'), ('hex', '(LBytes BHex)'), ('enum', '(LEnum %s)' % glist([gtext(v) for v in c10_universe.ENUM_VALUES]))]
    texts = [t for t in G.XML_JUNK_TEXT if t] + [str(v) if not isinstance(v, str) else v for vs in G.VALID_LEAF.values() for v in vs
                                                 if not isinstance(v, (dict, bytes))]
    texts += ['2020-01-02T03:04:05+14:00', '2020-01-02T03:04:05-23:59', '2020-01-02T03:04:05+24:00', '2020-02-29', '2021-02-29',
              '2020-02-30Z', '2020-04-31+01:00', '23:59:60', '00:00:00.0000001', '2020-01-02 03:04:05', '2020-1-2', 'P1Y2M3DT4H5M6.7S',
              '-PT0S', 'YQ==', 'YQ=', 'Y', '+5', '-', '1' * 1025, 'True', 'TRUE', 'green ', 'redx']
    texts = sorted(set(t for t in texts if t and all(ord(c) < 128 for c in t)))
    # length as a dimension (up to 1000 characters as Gallina literals); non-ASCII text for the binary decoders
    def longs(kn):
        ls = [t for t in G.long_literals(rng, kn) if 0 < len(t) <= 1000]
        if G.is_binary_kind(kn):
            ls += [t for t in G.KIND_JUNK.get(kn, []) if t] + ['\u00e9', 'YQ\u00e9==', '\ud800', 'YWJj\ud800', '6\u0663', 'A' * 100, 'A' * 104 + '=']
        else:
            ls = [t for t in ls if all(ord(c) < 128 for c in t)]
        return ls
    cases = []
    for soap in (False, True):
        prot = sv.app('model', 'soap11' if soap else 'xml', None).in_protocol
        for kn, gk in kinds:
            cls = Color if kn == 'enum' else leaf[kn]
            for s in texts + longs(kn if kn != 'enum' else 'enum'):
                try:
                    if kn in ('bytes', 'b64', 'urlsafe', 'hex'):
                        prot.from_unicode(cls, s, prot.binary_encoding)
                    elif kn == 'enum':
                        prot.enum_base_from_bytes(cls, s)
                    else:
                        prot.from_unicode(cls, s)
                    exp = 'None'
                except Exception as e:
                    names = ['%s.%s' % (c.__module__, c.__qualname__) for c in type(e).__mro__]
                    exp = '(Some (%s, %s))' % (g_exc(names, table), gtext(getattr(e, 'faultcode', '') or ''))
                cases.append(('(%s, %s, %s, %s)' % (gbool(soap), gk, gtext(s), exp), '%s %s %r -> %s' % ('soap' if soap else 'xml', kn, s, exp[:40])))
                check.count(('leaf', soap, kn, s))
    lib.correspond(check, 'leaf_readers', IMPORTS + 'Open Scope Z_scope.', 'bool * lkind * text * option (pyexn * text)',
                   '(fun c => match c with (soap, k, s, e) => oclass_eqb (res_class (read_leaf soap g_inbase_enum_member k s)) e end)',
                   cases, show='(fun c : bool * lkind * text * option (pyexn * text) => match c with (soap, k, s, e) => res_class (read_leaf soap g_inbase_enum_member k s) end)')


def run(check):
    check.rule = ('the modelled application (two classes, five methods: every modelled primitive kind, ByteArray in all four encodings, nesting, arrays, '
                  'repeated members, an XML attribute, mandatory / non-nillable members) and a richer one for the direct oracle '
                  '(adds Decimal, Double, Uuid, bounded integers, pattern/length facets, File, AnyDict, AnyXml); binary members, '
                  'parameters and bare arguments in every encoding (protocol default, base64, url-safe base64, hex; ByteArray and '
                  'File; HttpRpc decodes url-safe base64 by default); a request '
                  'is a valid call of a random method with 0..3 structure-aware mutations (leaf corruption, deletion, duplication, '
                  'unknown members, wrong value kinds, wrong nesting, xsi:nil / xsi:type / id / href attributes, entity '
                  'references), rendered for XmlDocument, Soap11, Soap12, JsonDocument, YamlDocument, MessagePackDocument, '
                  'MessagePackRpc and HttpRpc (GET), plus truncations at every/sampled prefixes, byte corruption, random bytes, a '
                  'fixed corpus of parser-defeating inputs, WSGI header variations and a Content-Type grammar stream (parameters as '
                  'token / quoted-string / RFC 2231 extended and continued / duplicated / junk, some 50 codec names incl. non-text and '
                  'failing codecs, multipart/related wrappings); wrapped and BARE methods (primitive, Array, class arguments); '
                  'hostile literals incl. characters XML cannot carry, also with an XML-family OUTPUT protocol behind a JSON / YAML / '
                  'MessagePack input; LENGTH as a dimension of the leaf sweep: malformed literals of 1, 99, 100, 101, 1000 and 70000 '
                  'characters for every leaf kind and every binary encoding at every place (member, parameter, array item, bare '
                  'argument) over every protocol incl. HttpRpc GET; values nested deeper than the recursion limit where a leaf, an '
                  'array or an object belongs; SwA attachments whose envelope has no message element or whose Content-ID / '
                  'Content-Location carry quotes or non-ASCII bytes; every validator setting (None, soft, and '
                  'lxml for the XML family), through ServerBase and through WsgiApplication.  A case is distinct by (service, '
                  'protocol, validator, transport, body, transport parameters)')
    check.trusted = list(lib.COMMON_TRUSTED) + [
        'translator harness/translate/reqpipe.py (the try/except clauses, guards, raise statements and call skeletons of the '
        'request-decoding pipeline, the exception class hierarchy and the Fault CODEs -> Gen/ReqPipe.v)',
        'translator harness/translate/numtypes.py (validate_string of Integer -> Gen/NumTypes.v)',
        'harness/c10_universe.py: the introspection that renders the built Spyne application (interface.classes, '
        'service_method_map, member Attributes) and parsed documents (lxml trees, json/yaml/msgpack values) as Gallina terms',
        'the C08 models of the regular expressions, strptime, int(), base64 and duration arithmetic (coq/C08, tied by C08\'s '
        'own correspondence) on which the leaf readers of C10/Leaf.v are built',
        'the direct oracle harness/c10_drive.py:judge (the property as a predicate on one observation)',
    ]
    check.assumptions = [
        'parser libraries are oracles: lxml raises XMLSyntaxError (ValueError only for str input with an encoding '
        'declaration); json.loads raises ValueError subclasses or RecursionError; yaml.load raises the YAMLError family or '
        'ValueError; msgpack.unpackb raises ValueError subclasses.  Every library failure met in a run is checked against these '
        'sets; PyYAML\'s AttributeError / KeyError on explicit !!timestamp / !!bool tags are known findings '
        '(C10_syntax_yaml_refuted); a crash inside C code (libyaml stack overflow on ~10^4 levels of nesting) is a known finding',
        'the theorems quantify over ALL documents and ALL well-formed applications of the modelled universe: default-facet '
        'Integer, Unicode, Boolean, DateTime, Date, Time, Duration, ByteArray(base64), enumerations, ComplexModel classes '
        'without inheritance, Array, repeated members, XmlAttribute; Decimal, Double, Uuid, bounded integers, facets, AnyDict, '
        'AnyXml, File, inheritance, SOAP headers and href/id resolution, MessagePackRpc and HttpRpc are decided by the direct '
        'oracle only',
        'the response side (fault serialisation, HTTP status) is observed by the oracle, not modelled (C09, C13)',
        'time and memory are outside the model',
    ]
    sv = D.Services()
    if not os.environ.get('C10_ONLY_ORACLE'):          # development switch
        check.regen(['reqpipe', 'numtypes'])
        check.check_sources()
        check.prove('Props.C10', THEOREMS)
        ok, log = lib.build(['C10/Corr.vo'])
        if not ok:
            check.log(log[-3000:])
            check.broken.append(('build', 'C10/Corr.vo', log[-400:]))
        leaf_correspondence(check, sv)
        correspondence(check, sv)
    if not os.environ.get('C10_SKIP_ORACLE'):      # development switch
        oracle_campaign(check, sv, 'rich', U.RICH_DESC)
        get_out_object_probe(check, sv, 'rich')
        yaml_deep_nesting(check)
    lib.flush_correspondences(check)
    return check.finish()


def replay(check, path):
    """re-run exactly the recorded request against the implementation under VERIF_REPO"""
    r = json.load(open(path))
    print(json.dumps(r, indent=1)[:4000])
    rp = r.get('replay', {})
    sv = D.Services()
    which = rp.get('service', 'rich')
    if rp.get('transport') == 'server+get_out_object':
        class _C(object):
            def count(self, *a): pass
            def fail(self, key, what, replay): print('now: VIOLATES', key, '|', what)
        get_out_object_probe(_C(), sv, which)
        return 0
    if 'body_hex' in rp:
        keep = ('protocol', 'validator', 'transport', 'body_hex', 'method', 'ctype', 'path', 'qs', 'extra', 'clen')
        req = req_from_record(dict((k, v) for k, v in rp.items() if k in keep))
        obs = D.observe(sv, which, req)
        v = D.judge(req['protocol'], obs, req.get('transport', 'server'))
        print('now:', obs.short(), '|', 'VIOLATES the property: %s' % (v,) if v else 'satisfies the property')
    elif 'body_repr' in rp:
        class _C(object):
            def count(self, *a): pass
            def fail(self, key, what, replay): print('now: VIOLATES', key, '|', what)
        yaml_deep_nesting(_C())
    elif 'broken' in rp:
        print('no failing input was found; the broken obligations / correspondences are listed above')
    return 0


# ------------------------------------------------------------------ model vs implementation
IMPORTS = 'From SpyneV Require Import C10.Corr.\n'

def coq_class_table():
    from translate import reqpipe
    return dict(('%s.%s' % (m, q), c) for m, q, c in reqpipe.CLASS_NAMES)


def g_exc(names, table):
    """the Coq constructor of an exception given the qualified names of its MRO"""
    if isinstance(names, str):
        names = [names]
    for n in names:
        n = n.replace('lxml.etree.XMLSyntaxError', 'lxml.etree.XMLSyntaxError')
        if n in table:
            return table[n]
    return 'EException'


def g_outcome(obs, term, table):
    if obs.kind == 'ok':
        if len(obs.called) != 1:
            return None
        return '(Called %d%%nat)' % term.method_cls[obs.called[0]]
    if obs.kind == 'fault':
        return '(Answered %s %s)' % (g_exc(obs.fcls, table), gtext(obs.code or ''))
    return '(Escaped %s [])' % g_exc(obs.mro or [], table)


def lib_parse_xml(prot, body, soap):
    """what the parser library does with the bytes, with the protocol's own parser settings"""
    from lxml import etree
    parser = etree.XMLParser(**prot.parser_kwargs)
    try:
        if soap:
            root, ids = etree.XMLID(body, parser)
        else:
            root = etree.fromstring(body, parser=parser)
        return root, None
    except Exception as e:
        return None, ['%s.%s' % (c.__module__, c.__qualname__) for c in type(e).__mro__]


def soap_body_elt(root, ns):
    if not isinstance(root.tag, str) or root.tag != '{%s}Envelope' % ns:
        return None
    bodies = [c for c in root if isinstance(c.tag, str) and c.tag == '{%s}Body' % ns]
    if not bodies:
        return None
    for c in bodies[0]:
        if isinstance(c.tag, str):
            return c
    return None


def xml_case(sv, term, table, proto, validator, body, wsgi=False):
    """-> (coq case text, description) or None when the request is outside the modelled universe"""
    app = sv.app('model', proto, validator)
    prot = app.in_protocol
    soap = proto != 'xml'
    root, exc = lib_parse_xml(prot, body, soap)
    if root is None:
        first = '(LibRaise %s)' % g_exc(exc, table)
        LIB_SEEN.append((proto, g_exc(exc, table), exc[0], body))
        verdict = None
    else:
        if soap and U.has_ids(root):
            return None
        try:
            first = '(LibOk %s)' % U.g_xnode(root)
        except U.Unmodelled:
            return None
        if len(first) > 60000:
            return None
        verdict = None
        if validator == 'lxml':
            elt = root if not soap else soap_body_elt(root, G.S11 if proto == 'soap11' else G.S12)
            if elt is not None:
                try:
                    verdict = bool(prot.validation_schema.validate(elt))
                except Exception:
                    verdict = False
    obs = D.drive_server(sv, 'model', proto, validator, body)
    exp = g_outcome(obs, term, table)
    if exp is None:
        return None
    soft = gbool(validator == 'soft')
    sch = gopt(verdict, gbool)
    desc = '%s validator=%s %r -> %s' % (proto, validator, body[:200], obs.short())
    if not soap:
        t = '(KXml %s (mkxreq %s (LibRaise EException) %s) %s)' % (soft, first, sch, exp)
        if wsgi:
            wobs = D.observe(sv, 'model', dict(protocol=proto, validator=validator, transport='wsgi', body=body,
                                               ctype='text/xml'))
            wexp = g_outcome_wsgi(wobs, term, table)
            if wexp is not None:
                return [(t, desc), ('(KXmlW %s (mkxreq %s (LibRaise EException) %s) %s)' % (soft, first, sch, wexp),
                                    'wsgi ' + desc + ' / ' + wobs.short())]
    else:
        t = '(KSoap %s %s (mksreq None %s (LibRaise EException) %s) %s)' % (
            'NS_SOAP11' if proto == 'soap11' else 'NS_SOAP12', soft, first, sch, exp)
    return [(t, desc)]


def g_outcome_wsgi(obs, term, table):
    if obs.kind == 'ok':
        if len(obs.called) != 1:
            return None
        return '(Called %d%%nat)' % term.method_cls[obs.called[0]]
    if obs.kind == 'fault':
        return '(Answered EFault %s)' % gtext(obs.code or '')
    return '(Escaped %s [])' % g_exc(obs.mro or [obs.exc], table)


def lib_parse_dict(prot, proto, body):
    """-> (doc, None, None) | (None, decode exception, None) | (None, None, load exception)"""
    def names(e):
        return ['%s.%s' % (c.__module__, c.__qualname__) for c in type(e).__mro__]
    try:
        if proto == 'json':
            import json as _json
            return _json.loads(body), None, None
        if proto == 'yaml':
            import yaml
            try:
                s = body.decode('UTF-8')
            except Exception as e:
                return None, names(e), None
            return yaml.load(s, **prot.in_kwargs), None, None
        import msgpack
        return msgpack.unpackb(body), None, None
    except Exception as e:
        return None, None, names(e)


def dict_case(sv, term, table, proto, validator, body, wsgi=False):
    app = sv.app('model', proto, validator)
    prot = app.in_protocol
    doc, dexc, lexc = lib_parse_dict(prot, proto, body)
    key = ''
    if dexc is not None:
        rq = '(mkdreq (Some %s) (LibRaise EException))' % g_exc(dexc, table)
        LIB_SEEN.append((proto, g_exc(dexc, table), dexc[0], body))
    elif lexc is not None:
        rq = '(mkdreq None (LibRaise %s))' % g_exc(lexc, table)
        LIB_SEEN.append((proto, g_exc(lexc, table), lexc[0], body))
    else:
        try:
            rq = '(mkdreq None (LibOk %s))' % U.g_jv(doc)
        except (U.Unmodelled, RecursionError):
            return None
        if len(rq) > 60000:
            return None
        if isinstance(doc, dict) and len(doc) == 1:
            (k, _), = doc.items()
            if not isinstance(k, (str, bytes)):
                key = '%s' % (k,)
            elif isinstance(k, bytes) and proto != 'msgpack':
                key = '%s' % (k,)
    obs = D.drive_server(sv, 'model', proto, validator, body)
    exp = g_outcome(obs, term, table)
    if exp is None:
        return None
    P = {'json': 'PJson', 'yaml': 'PYaml', 'msgpack': 'PMsgpack'}[proto]
    t = '(KDict %s %s %s %s %s)' % (P, gbool(validator == 'soft'), rq, gtext(key), exp)
    desc = '%s validator=%s %r -> %s' % (proto, validator, body[:200], obs.short())
    out = [(t, desc)]
    if wsgi:
        wobs = D.observe(sv, 'model', dict(protocol=proto, validator=validator, transport='wsgi', body=body))
        wexp = g_outcome_wsgi(wobs, term, table)
        if wexp is not None:
            out.append(('(KDictW %s %s %s %s %s)' % (P, gbool(validator == 'soft'), rq, gtext(key), wexp),
                        'wsgi ' + desc + ' / ' + wobs.short()))
    return out


LIB_SEEN = []

CASE_PRELUDE = '''
Inductive kase :=
| KXml (soft : bool) (rq : xml_request) (exp : outcome)
| KSoap (ns : text) (soft : bool) (rq : soap_request) (exp : outcome)
| KDict (P : dproto) (soft : bool) (rq : dict_request) (key : text) (exp : outcome)
| KXmlW (soft : bool) (rq : xml_request) (exp : outcome)
| KDictW (P : dproto) (soft : bool) (rq : dict_request) (key : text) (exp : outcome)
| KXmlC (cl : codec_lookup) (rq : xml_request) (exp : outcome).
Definition run_kase (k : kase) : outcome :=
  match k with
  | KXml soft rq _ => xml_server soft app0 rq
  | KSoap ns soft rq _ => soap_server ns soft app0 rq
  | KDict P soft rq key _ => dict_server (fmt_const key) P soft app0 40 rq
  | KXmlW soft rq _ => xml_wsgi soft app0 (Ret tt) rq
  | KDictW P soft rq key _ => dict_wsgi (fmt_const key) P soft app0 40 (Ret tt) rq
  | KXmlC cl rq _ => xml_wsgi false app0 (reconstruct_wsgi_request cl) rq
  end.
Definition kase_ok (k : kase) : bool :=
  match k with
  | KXml _ _ e | KSoap _ _ _ e | KDict _ _ _ _ e => outcome_eqb (run_kase k) e
  | KXmlW _ _ e | KDictW _ _ _ _ e | KXmlC _ _ e => outcome_code_eqb (run_kase k) e
  end.
'''


def model_bodies(check, quick):
    """[(proto, body)] for the modelled application: the structured stream, byte damage, the corpus"""
    rng = check.rng
    out = []
    n = 70 if quick else 900
    for it in range(n):
        n_mut = rng.choice([0, 1, 1, 1, 2, 2, 3])
        for p, b, _ in structured_bodies(rng, U.MODEL_DESC, n_mut):
            if p in ('http', 'mprpc') or '>' in p:
                continue
            out.append((p, b))
            if rng.random() < .15:
                out.extend((p, tb) for tb in G.truncations(rng, b, 2))
                out.append((p, G.corrupt(rng, b)))
    for p in ('xml', 'soap11', 'soap12', 'json', 'yaml', 'msgpack'):
        for b in G.CORPUS[p]:
            if len(b) < 20000:
                out.append((p, b))
    out.extend(binary_bodies(rng, U.MODEL_DESC, quick))
    return out


def binary_bodies(rng, desc, quick):
    """every binary member / parameter / bare argument of the description x literals of every length up to 1000
    characters, malformed and well-formed, as text and as a byte string (YAML !!binary, the bin type of msgpack),
    for every protocol of the model"""
    from lxml import etree
    places = []
    for m, params in desc['methods']:
        for pn, ty in params:
            if ty[0] == 'leaf' and G.is_binary_kind(ty[1]):
                places.append((m, (pn,), ty[1], None))
            elif ty[0] == 'ref':
                for fn, fty, kw, kind in dict(desc['classes'])[ty[1]]:
                    if fty[0] == 'leaf' and G.is_binary_kind(fty[1]):
                        places.append((m, (pn, fn), fty[1], None))
    for m, ty in desc.get('bare', []):
        if ty[0] == 'leaf' and G.is_binary_kind(ty[1]):
            places.append((m, (), ty[1], ty))
    out = []
    for m, path, k, bare_ty in places:
        lits = [t for t in G.long_literals(rng, k, every=not quick) if len(t) <= 1000] + list(G.KIND_JUNK.get(k, [])) \
            + list(G.VALID_LEAF.get(k, [])) + ['\ud800', 'YWJj\ud800' * 30, b'', b'abc', b'YWJj', b'6162', b'\xff', b'A' * 101,
                                              b'zz' * 60, None, 5, True, [], {}]
        if quick:
            lits = rng.sample(lits, 5)
        for lit in lits:
            if bare_ty is not None:
                args, doc = G.Bare(lit, bare_ty), {m: lit}
            else:
                args = G.put_at(G.gen_value_for_method(rng, desc, m, path), path, lit)
                doc = {m: args}
            for p in ('json', 'yaml', 'msgpack'):
                b = G.render_dict(p, G.msgpack_top(doc) if p == 'msgpack' else doc)
                if b is not None:
                    out.append((p, b))
            if isinstance(lit, str) or lit is None:
                for p, ns in (('xml', None), ('soap11', G.S11)):
                    try:
                        out.append((p, etree.tostring(G.render_xml(desc, m, args, ns))))
                    except Exception:
                        pass
    return out


def correspondence(check, sv):
    table = coq_class_table()
    term = U.AppTerm(sv.app('model', 'xml', None))
    prelude = IMPORTS + 'Open Scope Z_scope.\nDefinition app0 : app :=\n%s.\n%s' % (term.term(), CASE_PRELUDE)
    check.extra['model_app'] = {'classes': len(term.order), 'registry': len(term.registry), 'methods': len(term.methods)}
    quick = check.tier == 'quick'
    cases = {'xml': [], 'soap': [], 'dict': []}
    skipped = 0
    seen = set()
    for p, b in model_bodies(check, quick):
        for v in D.validators(p):
            if (p, v, b) in seen:
                continue
            seen.add((p, v, b))
            w = check.rng.random() < .3
            try:
                c = xml_case(sv, term, table, p, v, b, wsgi=w) if p in D.XML_FAMILY else dict_case(sv, term, table, p, v, b, wsgi=w)
            except RecursionError:
                c = None
            if c is None:
                skipped += 1
                continue
            cases['xml' if p == 'xml' else 'soap' if p in D.XML_FAMILY else 'dict'].extend(c)
            check.count(('corr', p, v, b))
    # the charset parameter of Content-Type: what codecs.lookup does with the name, against the answer
    import codecs
    body = b'<h xmlns="tns"/>'
    root, _ = lib_parse_xml(sv.app('model', 'xml', None).in_protocol, body, False)
    first = '(LibOk %s)' % U.g_xnode(root)
    for name in G.CODECS:
        try:
            info = codecs.lookup(name)
            cl = '(CLFound %s)' % gbool(getattr(info, '_is_text_encoding', True))
        except Exception as e:
            cl = '(CLRaise %s)' % g_exc(['%s.%s' % (c.__module__, c.__qualname__) for c in type(e).__mro__], table)
        wobs = D.observe(sv, 'model', dict(protocol='xml', validator=None, transport='wsgi', body=body,
                                           ctype='text/xml; charset=%s' % name))
        wexp = g_outcome_wsgi(wobs, term, table)
        if wexp is not None and ';' not in name and '"' not in name and name == name.strip() and name:
            cases['xml'].append(('(KXmlC %s (mkxreq %s (LibRaise EException) None) %s)' % (cl, first, wexp),
                                 'charset=%r -> %s' % (name[:40], wobs.short())))
            check.count(('charset', name))
    check.extra['correspondence_skipped_outside_universe'] = skipped
    # the library assumptions of the theorems, against what the libraries did in this run
    seen = {}
    for proto, coq, name, body in LIB_SEEN:
        seen.setdefault((proto, coq, name), body)
    outside = [(k, b) for k, b in seen.items() if k[1] not in LIB_RAISES[k[0]]]
    check.extra['library_exceptions_seen'] = sorted('%s: %s (%s)' % k for k in seen)
    for (proto, coq, name), body in outside:
        if proto == 'yaml' and (b'!!timestamp' in body or b'!!bool' in body):
            continue          # the two PyYAML defects listed as known findings (C10_syntax_yaml_refuted)
        check.mismatch('library-assumption', '%s raised %s (%s) for %r: outside the set the theorems assume'
                       % (proto, name, coq, body[:120]))
    for name, cs in cases.items():
        lib.correspond(check, 'pipeline_' + name, prelude, 'kase', 'kase_ok', cs, shard=150,
                       show='run_kase')
    check.sample({'correspondence': dict((k, len(v)) for k, v in cases.items()),
                  'example': cases['xml'][0][1] if cases['xml'] else None})
