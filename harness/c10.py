"""C10 — hostile or malformed requests end in a client fault, never a crash."""
import os, sys, json, copy, subprocess, binascii
import lib
from lib import gz, gtext, glist, gbool, gopt
import c10_drive as D
import c10_gen as G
import c10_universe as U

THEOREMS = [
    'C10_syntax_xml', 'C10_syntax_soap', 'C10_syntax_json', 'C10_syntax_yaml', 'C10_syntax_msgpack',
    'C10_leaf_total', 'C10_xml_total', 'C10_soap_total', 'C10_dict_total', 'C10_dict_fuel_sufficient',
    'C10_xml_wsgi_total', 'C10_soap_wsgi_total', 'C10_dict_wsgi_total',
    'C10_fault_means_not_called', 'C10_get_out_object_guard',
]


# ------------------------------------------------------------------ replay format
def req_record(req):
    r = dict(req)
    r['body_hex'] = binascii.hexlify(r.pop('body')).decode('ascii')
    return r

def req_from_record(r):
    r = dict(r)
    r['body'] = binascii.unhexlify(r.pop('body_hex'))
    return r


def input_shape(req, verdict):
    """a coarse tag of the input, for the failures that are pinned to one input shape (library
    defects listed as known findings); empty for everything else"""
    kind, detail = verdict
    if req['protocol'] == 'yaml' and kind == 'crash' and detail.endswith('protocol/yaml.py:create_in_document'):
        for tag in (b'!!timestamp', b'!!bool'):
            if tag in req['body']:
                return '|explicit-tag-%s-on-a-scalar-of-another-kind' % tag.decode()
    return ''


def violation_key(req, verdict):
    kind, detail = verdict
    return 'C10|%s|%s|%s%s' % (kind, detail, req['protocol'], input_shape(req, verdict))


def check_request(check, sv, which, req, origin):
    """drive one request against the real implementation and judge it; returns the observation"""
    obs = D.observe(sv, which, req)
    check.count((which, req['protocol'], req.get('validator'), req.get('transport', 'server'), req['body'],
                 req.get('ctype', ''), req.get('method'), req.get('path'), req.get('qs'), str(req.get('extra'))))
    v = D.judge(req['protocol'], obs, req.get('transport', 'server'))
    if v is not None:
        what = ('%s request over %s (validator=%s, %s, service=%s): %s; body %r' % (
            origin, req['protocol'], req.get('validator'), req.get('transport', 'server'), which, obs.short(),
            req['body'][:160]))
        rec = req_record(req)
        rec.update(service=which, origin=origin, observed=obs.short(), faultstring=obs.faultstring)
        check.fail(violation_key(req, v), what, rec)
    return obs


# ------------------------------------------------------------------ the direct oracle
def requests_for(rng, proto, body, validators=None, wsgi_p=0.35):
    out = []
    for v in (validators or D.validators(proto)):
        out.append(dict(protocol=proto, validator=v, transport='server', body=body))
        if rng.random() < wsgi_p:
            out.append(dict(protocol=proto, validator=v, transport='wsgi', body=body))
    return out


def structured_bodies(rng, desc, n_mut):
    """one logical request rendered (and mutated) for every protocol: [(proto, body, origin)]"""
    out = []
    m, args = G.gen_request(rng, desc)
    doc = {m: copy.deepcopy(args)}
    try:
        for _ in range(n_mut):
            doc = G.mutate_doc(rng, doc)
    except Exception:
        doc = {m: copy.deepcopy(args)}
    for p in ('json', 'yaml', 'msgpack'):
        d = G.msgpack_top(doc) if p == 'msgpack' and rng.random() < .85 else doc
        b = G.render_dict(p, d)
        if b is not None:
            out.append((p, b, 'structured(%d mutations)' % n_mut))
    # msgpack-rpc
    try:
        import msgpack
        (mm, a), = {m: args}.items()
        call = [0, 1, mm, [doc.get(mm, doc)] if isinstance(doc, dict) and rng.random() < .5 else list(a.values())]
        if n_mut and rng.random() < .5:
            call = G.setp(call, rng.choice(G.paths(call)), copy.deepcopy(rng.choice(G.JUNK)))
        out.append(('mprpc', msgpack.packb(call, use_bin_type=True), 'structured(%d mutations)' % n_mut))
    except Exception:
        pass
    from lxml import etree
    for p, ns in (('xml', None), ('soap11', G.S11), ('soap12', G.S12)):
        try:
            root = G.render_xml(desc, m, args, ns)
            for _ in range(n_mut):
                root = G.mutate_xml(rng, root, desc)
            b = etree.tostring(root)
        except Exception:
            continue
        if n_mut and rng.random() < .08:
            eb = G.with_entity(b, rng.choice(['t:' + m, 'o', 'arr', 'inner', 'e:Body', m]))
            if eb:
                b = eb
        out.append((p, b, 'structured(%d mutations)' % n_mut))
    # HttpRpc: query string
    try:
        qs = G.render_qs(m, args if n_mut == 0 else (doc.get(m) if isinstance(doc, dict) and isinstance(doc.get(m), dict) else args))
        if n_mut and rng.random() < .3:
            qs = (qs + '&' if qs else '') + rng.choice(G.QS_JUNK)
        out.append(('http', (m, qs), 'structured(%d mutations)' % n_mut))
    except Exception:
        pass
    return out


def oracle_campaign(check, sv, which, desc):
    rng = check.rng
    quick = check.tier == 'quick'
    n_struct = 140 if quick else 2500
    stats = {}
    def run(req, origin):
        obs = check_request(check, sv, which, req, origin)
        k = (req['protocol'], obs.kind if obs.kind != 'fault' else 'fault:' + str(obs.code))
        stats[k] = stats.get(k, 0) + 1
        return obs
    # 1. structured stream
    for it in range(n_struct):
        n_mut = rng.choice([0, 1, 1, 1, 2, 2, 3])
        for p, b, origin in structured_bodies(rng, desc, n_mut):
            if p == 'http':
                m, qs = b
                for v in (None, 'soft'):
                    run(dict(protocol='http', validator=v, transport='wsgi', body=b'', method='GET', path='/' + m, qs=qs,
                             ctype=None), origin)
                continue
            for req in requests_for(rng, p, b):
                run(req, origin)
            # byte-level damage of the same request
            if rng.random() < (.25 if quick else .5):
                for tb in G.truncations(rng, b, 3 if quick else 12) + [G.corrupt(rng, b) for _ in range(2)]:
                    for req in requests_for(rng, p, tb, validators=(rng.choice(D.validators(p)),), wsgi_p=.25):
                        run(req, 'truncated/corrupted')
    # 2. the corpus, every validator, both entry points
    for p, bodies in G.CORPUS.items():
        for b in bodies:
            for v in D.validators(p):
                run(dict(protocol=p, validator=v, transport='server', body=b), 'corpus')
            run(dict(protocol=p, validator=None, transport='wsgi', body=b), 'corpus')
    # 3. every prefix of one valid request per protocol (thorough: of several)
    for rep in range(1 if quick else 6):
        m, args = G.gen_request(rng, desc)
        for p, b, _ in structured_bodies(rng, desc, 0):
            if p == 'http':
                continue
            step = max(1, len(b) // (60 if quick else 100000))
            for i in range(0, len(b), step):
                run(dict(protocol=p, validator=rng.choice(D.validators(p)), transport='server', body=b[:i]), 'prefix')
    # 4. random bytes
    for _ in range(60 if quick else 1500):
        b = G.random_bytes(rng, rng.choice([1, 2, 3, 8, 40, 200]))
        p = rng.choice([x for x in D.PROTOCOLS if x != 'http'])
        run(dict(protocol=p, validator=rng.choice(D.validators(p)), transport=rng.choice(['server', 'wsgi']), body=b), 'random bytes')
    # 5. transport-level variations
    valid = {}
    for p, b, _ in structured_bodies(rng, desc, 0):
        valid[p] = b
    for p in D.PROTOCOLS:
        if p == 'http' or p not in valid:
            continue
        for var in G.WSGI_VARIANTS:
            req = dict(protocol=p, validator=None, transport='wsgi', body=valid[p])
            req.update(var)
            run(req, 'transport variation')
    for path in ['/', '', '/zz', '/f/g', '//', '/f/', '/%7Btns%7Df', '/{tns}f', '/{other}f', '/\xff']:
        run(dict(protocol='http', validator=None, transport='wsgi', body=b'', method='GET', path=path, qs='', ctype=None),
            'transport variation')
    for qs in G.QS_JUNK:
        for m in ('f', 'g'):
            run(dict(protocol='http', validator='soft', transport='wsgi', body=b'', method='GET', path='/' + m, qs=qs,
                     ctype=None), 'query string')
    check.extra['oracle_outcomes'] = dict(('%s %s' % k, n) for k, n in sorted(stats.items()))


YAML_DEEP = 60000

def yaml_deep_nesting(check):
    """a document nested some 10^4 levels deep takes the interpreter down inside libyaml's
    composer (C stack): run in a child process"""
    code = ('import sys, logging; logging.disable(logging.CRITICAL); sys.path.insert(0, %r); sys.path.insert(0, %r)\n'
            'import c10_drive as D\nsv = D.Services()\nn = %d\n'
            'o = D.drive_server(sv, "rich", "yaml", None, b"[" * n + b"]" * n)\nprint("OBS", o.short())\n'
            % (lib.REPO, os.path.dirname(os.path.abspath(__file__)), YAML_DEEP))
    p = subprocess.run(['timeout', '120', sys.executable, '-W', 'ignore', '-c', code], stdout=subprocess.PIPE,
                       stderr=subprocess.PIPE, text=True, env=dict(os.environ, PYTHONHASHSEED='0'))
    check.count(('yaml-deep', YAML_DEEP))
    if p.returncode != 0 and 'OBS' not in p.stdout:
        check.fail('C10|process-death|yaml|libyaml-composer|nesting>=%d' % YAML_DEEP,
                   'a YAML request nested %d levels deep kills the interpreter (exit status %d) inside '
                   'yaml.CSafeLoader' % (YAML_DEEP, p.returncode),
                   {'protocol': 'yaml', 'validator': None, 'transport': 'server', 'body_repr': "b'[' * %d + b']' * %d" % (YAML_DEEP, YAML_DEEP)})
    elif 'OBS crash' in p.stdout or 'fault Server' in p.stdout:
        check.fail('C10|crash|yaml-deep-nesting|yaml', 'deeply nested YAML: %s' % p.stdout.strip(),
                   {'protocol': 'yaml', 'body_repr': "b'[' * %d + b']' * %d" % (YAML_DEEP, YAML_DEEP)})


def run(check):
    check.rule = 'TODO'
    check.regen(['pipeline', 'numtypes'])
    sv = D.Services()
    oracle_campaign(check, sv, 'rich', U.RICH_DESC)
    yaml_deep_nesting(check)
    return check.finish()


def replay(check, path):
    r = json.load(open(path))
    print(json.dumps(r, indent=1)[:3000])
    rp = r.get('replay', {})
    if 'body_hex' in rp:
        sv = D.Services()
        req = req_from_record(dict((k, v) for k, v in rp.items() if k not in ('service', 'origin', 'observed', 'faultstring')))
        obs = D.observe(sv, rp.get('service', 'rich'), req)
        print('now:', obs.short(), '| judged:', D.judge(req['protocol'], obs, req.get('transport', 'server')))
    return 0
