"""Dict-document vocabulary for C02 (JsonDocument, YamlDocument, MessagePackDocument,
MessagePackRpc): type universes with the primitives these protocols distinguish, rendered
as real Spyne classes AND as Gallina terms of Wire.Dict; neutral values; document printers;
the *reference* codec (the documented conventions, written independently of the Coq text
and of Spyne's code) used by the direct oracle; drivers of the real implementation.

Universe description (extends harness/universe.py):
  desc = {'classes': [{'name', 'parent', 'fields': [{'name','ty','min','max','nillable'}]}]}
  TY = ('prim', KIND, customized: bool[, empty_is_none: bool]) | ('ref', cid) | ('arr', TY)
  KIND in int | text | bool | double | decimal | bytes
Neutral values:
  ('none',) ('int', z) ('text', s) ('bool', b) ('double', f) ('decimal', D) ('bytes', b)
  ('obj', cid, [vals]) ('list', [vals]) ('raw', python document node)
Every random choice comes from the rng passed in."""
import re
import struct, decimal, json
from lib import gz, gtext, glist, gbool, gopt
import universe as UV


def gz(n):
    """Z literal; big numbers in hexadecimal (Coq reads a decimal numeral in quadratic time)"""
    n = int(n)
    a = hex(-n if n < 0 else n) if not (-(1 << 62) < n < (1 << 62)) else str(-n if n < 0 else n)
    return '(-%s)' % a if n < 0 else a

KINDS = ('int', 'text', 'bool', 'double', 'decimal', 'bytes')
PROTOS = ('json', 'yaml', 'msgpack')
TNS = 'urn:c02'

INT_POOL = [0, 1, -1, 7, 255, -128, 2 ** 31, -2 ** 31, 2 ** 63 - 1, 2 ** 63, -2 ** 63, -2 ** 63 - 1,
            2 ** 64 - 1, 2 ** 64, 10 ** 30, -10 ** 30, 10 ** 300, -(10 ** 1000) + 1]
TEXT_POOL = ['', 'a', 'hello', 'x y', ' lead', 'trail ', '<&>"\'', 'üñï', '中文', '0', 'true',
             'None', 'a\nb', '\U0001f600', '퟿', '\U0010ffff', '\x7f\x80', '߿ࠀ', '￿\U00010000',
             'null', '1.5', '~', '- x', 'k: v', '2020-01-01']
DOUBLE_POOL = [0.0, -0.0, 1.0, -1.0, 1.5, 0.1, 1e300, -1e-300, 5e-324, 2.0 ** 53, 2.0 ** 53 + 2, 1e22, 123456.789, 3.0]
DEC_POOL = ['0', '-0', '1', '-1', '1.10', '0.001', '1E+400', '-1E-400', '0E+3', '0.000001', '1E-7', '12E1',
            '123456789012345678901234567890.123456789', '0.00', '1E+1', '100', '-5.5E-10', '9' * 60, '0.' + '1' * 50]


# ------------------------------------------------------------------ configurations
def all_cfgs():
    out = []
    for p in PROTOS:
        for iw in (True, False):
            for aslist in (False, True):
                for poly in (False, True):
                    for soft in (False, True):
                        out.append({'proto': p, 'iw': iw, 'list': aslist, 'poly': poly, 'soft': soft})
    return out


def cfg_name(c):
    return '%s/iw=%d/as=%s/poly=%d/%s' % (c['proto'], c['iw'], 'list' if c['list'] else 'dict', c['poly'],
                                          'soft' if c['soft'] else 'none')


def g_cfg(c, rpc=False):
    return '(mkcfg %s %s %s %s %s)' % ('PMsgpackRpc' if rpc else {'json': 'PJson', 'yaml': 'PYaml', 'msgpack': 'PMsgpack'}[c['proto']],
                                       gbool(c['iw']), gbool(c['list']), gbool(c['poly']), gbool(c['soft']))


def make_protocol(c, rpc=False, validator=True):
    from spyne.protocol.json import JsonDocument
    from spyne.protocol.yaml import YamlDocument
    from spyne.protocol.msgpack import MessagePackDocument, MessagePackRpc
    P = {'json': JsonDocument, 'yaml': YamlDocument, 'msgpack': MessagePackRpc if rpc else MessagePackDocument}[c['proto']]
    kw = dict(ignore_wrappers=c['iw'], complex_as=list if c['list'] else dict, polymorphic=c['poly'])
    if validator and c['soft']:
        kw['validator'] = 'soft'
    p = P(**kw)
    _watch_decimal_reader(p)
    return p


# Decimal(repr(float)) is the one leaf conversion the model leaves out (a float in a Decimal slot; only ever a
# non-conformant document): the reader is observed, and a case in which it was handed a float is not compared
UNMODELLED = [0]


def _watch_decimal_reader(p):
    from spyne.model.primitive import Decimal
    for tab in (p._from_unicode_handlers, p._from_bytes_handlers):
        h = tab.get(Decimal)
        if h is None or getattr(h, '_c02_watched', False):
            continue

        def w(cls, value, *a, _h=h, **kw):
            if isinstance(value, float):
                UNMODELLED[0] += 1
            return _h(cls, value, *a, **kw)
        w.__name__ = getattr(h, '__name__', 'w')
        w._c02_watched = True
        tab[Decimal] = w


def unmodelled(fn, *args):
    """run fn(*args); -> (result, True if the run left the modelled region)"""
    UNMODELLED[0] = 0
    r = fn(*args)
    return r, UNMODELLED[0] > 0


# ------------------------------------------------------------------ universes
def gen_universe(rng, n_classes=4, max_fields=4):
    base = UV.gen_universe(rng, n_classes=n_classes, max_fields=max_fields, namespaces=(TNS,), allow_attr=False,
                           name_prefix='K')
    classes = []
    for ci, c in enumerate(base['classes']):
        fields = []
        for f in c['fields']:
            fields.append({'name': f['name'], 'ty': _retype(rng, f['ty']), 'min': f['min'], 'max': f['max'],
                           'nillable': f['nillable']})
        # arrays are single-occurrence members; nested arrays now and then
        for f in fields:
            if f['ty'][0] == 'arr':
                f['max'] = 1
                if rng.random() < 0.25:
                    f['ty'] = ('arr', f['ty'])
        classes.append({'name': c['name'], 'parent': c['parent'], 'fields': fields})
    return {'classes': classes}


EIN_P = 0.2


def _prim(rng, customized):
    """a primitive member / item type; now and then customized with the documented option empty_is_none=True"""
    if rng.random() < EIN_P:
        return ('prim', rng.choice(KINDS), True, True)
    return ('prim', rng.choice(KINDS), customized)


def is_ein(ty):
    return ty[0] == 'prim' and len(ty) > 3 and bool(ty[3])


def _retype(rng, ty):
    if ty[0] == 'prim':
        return _prim(rng, True)
    if ty[0] == 'arr':
        return ('arr', _retype(rng, ty[1]) if ty[1][0] != 'prim' else _prim(rng, False))
    return ty


def flat_fields(desc, cid):
    c = desc['classes'][cid]
    base = flat_fields(desc, c['parent']) if c['parent'] is not None else []
    return base + c['fields']


def subclasses(desc, cid):
    return UV.subclasses(desc, cid)


def is_multi(f):
    return f['max'] is None or f['max'] > 1


def build_spyne(desc):
    """-> list of Spyne classes (index = cid)"""
    from spyne.model.complex import ComplexModel, ComplexModelMeta
    out = []
    for c in desc['classes']:
        ti = []
        for f in c['fields']:
            ti.append((f['name'], field_type(out, f)))
        base = ComplexModel if c['parent'] is None else out[c['parent']]
        out.append(ComplexModelMeta(str(c['name']), (base,), {'__namespace__': TNS, '_type_info': ti}))
    return out


def spyne_type(classes, ty):
    from spyne.model.complex import Array
    from spyne.model.primitive import Integer, Unicode, Boolean, Double, Decimal
    from spyne.model.binary import ByteArray
    prim = {'int': Integer, 'text': Unicode, 'bool': Boolean, 'double': Double, 'decimal': Decimal, 'bytes': ByteArray}
    if ty[0] == 'prim':
        return prim[ty[1]](empty_is_none=True) if is_ein(ty) else prim[ty[1]]
    if ty[0] == 'ref':
        return classes[ty[1]]
    return Array(spyne_type(classes, ty[1]))


def field_type(classes, f):
    """the member type of field / parameter / result description f"""
    t = spyne_type(classes, f['ty'])
    kw = {}
    if f['min'] != 0:
        kw['min_occurs'] = f['min']
    if not f['nillable']:
        kw['nillable'] = False
    if f['max'] != 1:
        kw['max_occurs'] = 'unbounded' if f['max'] is None else f['max']
    if kw or (f['ty'][0] == 'prim' and f['ty'][2]):
        t = t.customize(**kw)
    return t


# ------------------------------------------------------------------ values
def gen_leaf(rng, kind):
    r = rng.random()
    if kind == 'int':
        if r < 0.5:
            return ('int', rng.choice(INT_POOL))
        bits = rng.choice([4, 8, 16, 32, 62, 63, 64, 65, 100])
        return ('int', rng.randint(-(2 ** bits), 2 ** bits))
    if kind == 'bool':
        return ('bool', r < 0.5)
    if kind == 'text':
        if r < 0.5:
            return ('text', rng.choice(TEXT_POOL))
        n = rng.randint(0, 8)
        return ('text', ''.join(_rand_char(rng) for _ in range(n)))
    if kind == 'double':
        if r < 0.5:
            return ('double', rng.choice(DOUBLE_POOL))
        bits = rng.getrandbits(64)
        f = struct.unpack('>d', struct.pack('>Q', bits))[0]
        if f != f or f in (float('inf'), float('-inf')):
            f = 2.5
        return ('double', f)
    if kind == 'decimal':
        if r < 0.5:
            return ('decimal', decimal.Decimal(rng.choice(DEC_POOL)))
        digits = ''.join(rng.choice('0123456789') for _ in range(rng.randint(1, 30)))
        return ('decimal', decimal.Decimal((rng.randint(0, 1), tuple(int(ch) for ch in digits.lstrip('0') or '0'),
                                            rng.choice([0, 0, -1, -2, -7, -30, 1, 5, 40, -400, 400]))))
    if kind == 'bytes':
        if r < 0.3:
            return ('bytes', rng.choice([b'', b'\x00', b'\xff\xfe', b'ab', b'abc', b'abcd', b'\x00\xff\xfb\xef\xbe']))
        return ('bytes', bytes(rng.getrandbits(8) for _ in range(rng.randint(0, 20))))
    raise ValueError(kind)


FALSY = {'int': [0], 'double': [0.0, -0.0], 'bool': [False], 'decimal': ['0', '-0', '0E+3', '0.00']}


def gen_leaf_ein(rng, kind):
    """a conformant value of a primitive with empty_is_none=True: often the falsy boundary value of the kind (0, 0.0,
    False, Decimal('0'): they are NOT empty), never the empty text / byte string (which the option reads as None)"""
    if kind in FALSY and rng.random() < 0.5:
        v = rng.choice(FALSY[kind])
        return (kind, decimal.Decimal(v) if kind == 'decimal' else v)
    while True:
        v = gen_leaf(rng, kind)
        if v[1] not in ('', b''):
            return v


ASCII_ALPHABET = 'abcXYZ 0123456789.-+eE:/'


def _rand_char(rng):
    """letters only outside ASCII (no Unicode digit or white space: a text that lands in a number slot
    through a mutation must stay inside what the int()/Decimal() models read); no '_' and no letters
    that could spell nan / inf"""
    r = rng.random()
    if r < 0.5:
        return rng.choice(ASCII_ALPHABET)
    if r < 0.65:
        return chr(rng.randint(0xc0, 0xff))        # Latin-1 letters (2-byte UTF-8)
    if r < 0.75:
        return chr(rng.randint(0x400, 0x4ff))      # Cyrillic (2-byte)
    if r < 0.9:
        return chr(rng.randint(0x4e00, 0x9fff))    # CJK (3-byte)
    return chr(rng.randint(0x1f600, 0x1f64f))      # emoticons (4-byte)


def gen_value(rng, desc, ty, depth, poly, full=False):
    """a non-None conformant value of declared type ty; full: every member populated (recursively)"""
    if ty[0] == 'prim':
        if is_ein(ty):
            return gen_leaf_ein(rng, ty[1])
        return gen_leaf(rng, ty[1])
    if ty[0] == 'arr':
        n = 0 if depth <= 0 else rng.randint(0, 3)
        return ('list', [gen_value(rng, desc, ty[1], depth - 1, poly, full) for _ in range(n)])
    cid = ty[1]
    if poly and depth > 0 and rng.random() < 0.6:
        # (below depth 0 only the declared class: its references go to earlier classes, so this ends)
        cid = rng.choice(subclasses(desc, cid))
    return ('obj', cid, [gen_field_value(rng, desc, f, depth - 1, poly, full) for f in flat_fields(desc, cid)])


def gen_field_value(rng, desc, f, depth, poly, full=False):
    """a conformant value of member f (may be None where the declaration allows it, unless full)"""
    if is_multi(f):
        if f['min'] == 0 and not full and rng.random() < 0.25:
            return ('none',)
        hi = f['min'] + 3 if f['max'] is None else f['max']
        n = rng.randint(f['min'], max(hi, f['min']))
        if depth <= 0 and f['ty'][0] == 'ref':
            n = f['min']
        return ('list', [gen_value(rng, desc, f['ty'], depth, poly, full) for _ in range(n)])
    may_none = f['min'] == 0 or f['nillable']
    if may_none and not full and (rng.random() < 0.25 or (depth <= 0 and f['ty'][0] == 'ref')):
        return ('none',)
    if may_none and not full and depth < -2 and f['ty'][0] == 'ref':
        return ('none',)
    return gen_value(rng, desc, f['ty'], depth, poly, full)


def to_native(desc, classes, v, share=None, chunks=None, iters=True):
    """neutral value -> Spyne natives.  share: None -> every object value becomes its own instance (a tree);
    a dict -> equal object values become ONE instance (a DAG: the same instance wherever the value recurs,
    across calls with the same dict too); share['hits'] counts the reuses"""
    k = v[0]
    if k == 'none':
        return None
    if k == 'bytes':
        # (an iterator can be read once: never inside an instance that may be written twice)
        return chunked(chunks, v[1], iters and share is None)
    if k in ('int', 'text', 'bool', 'double', 'decimal', 'raw'):
        return v[1]
    if k == 'list':
        return [to_native(desc, classes, x, share, chunks, iters) for x in v[1]]
    cid = v[1]
    key = None
    if share is not None:
        key = repr(jsonable(v))
        if key in share:
            share['hits'] = share.get('hits', 0) + 1
            return share[key]
    kw = {}
    for f, x in zip(flat_fields(desc, cid), v[2]):
        kw[f['name']] = to_native(desc, classes, x, share, chunks, iters)
    inst = classes[cid](**kw)
    if share is not None:
        share[key] = inst
    return inst


def chunked(rng, b, iters=True):
    """a ByteArray value is a sequence of byte chunks; the value is their concatenation.  rng None: the one-chunk
    list.  Else a random rendering: a list / tuple / iterator of chunks cut anywhere (so chunk lengths are not
    multiples of 3), with empty chunks, no chunk at all for the empty value, or the plain byte string."""
    if rng is None:
        return [b]
    r = rng.random()
    if r < 0.1:
        return [b]
    if r < 0.17:
        return b
    cuts = sorted(rng.randint(0, len(b)) for _ in range(rng.randint(0, 4)))
    parts = [b[i:j] for i, j in zip([0] + cuts, cuts + [len(b)])]
    if rng.random() < 0.3:
        parts.insert(rng.randint(0, len(parts)), b'')
    if not b and rng.random() < 0.5:
        parts = []
    r = rng.random()
    if r < 0.45:
        return parts
    if r < 0.9 or not iters:
        return tuple(parts)
    return iter(parts)      # consumed once: only where the value is serialized once


def share_values(rng, vals, p=0.6):
    """rewrites values so that object values recur: with probability p an object is replaced by an earlier,
    finished object value of the same class (a sibling member, an earlier array item, something inside a
    sibling's subtree, something in an earlier value of the list; never an ancestor, so no cycle).  Replacing
    an object by one of its own class keeps the value conformant."""
    pool = {}

    def go(v):
        if v[0] == 'list':
            return ('list', [go(x) for x in v[1]])
        if v[0] != 'obj':
            return v
        cands = pool.get(v[1])
        if cands and rng.random() < p:
            return rng.choice(cands)
        nv = ('obj', v[1], [go(x) for x in v[2]])
        pool.setdefault(v[1], []).append(nv)
        return nv
    return [go(v) for v in vals]


def class_id(classes, cls):
    for i, c in enumerate(classes):
        k = cls
        while k is not None:
            if k is c:
                return i
            k = getattr(k, '__orig__', None)
    return None


def generic(desc, classes, o):
    """native Python object -> neutral form, by its Python type only"""
    if o is None:
        return ('none',)
    if isinstance(o, bool):
        return ('bool', o)
    if isinstance(o, int):
        return ('int', o)
    if isinstance(o, float):
        return ('double', o)
    if isinstance(o, str):
        return ('text', o)
    if isinstance(o, decimal.Decimal):
        return ('decimal', o)
    if isinstance(o, (bytes, bytearray)):
        return ('raw', bytes(o))
    if isinstance(o, (list, tuple)):
        return ('list', [generic(desc, classes, x) for x in o])
    if isinstance(o, dict):
        return ('raw', o)
    cid = class_id(classes, type(o)) if hasattr(type(o), '_type_info') else None
    if cid is None:
        return ('other', type(o).__name__, repr(o)[:60])
    return ('obj', cid, [from_native(desc, classes, f, getattr(o, f['name'], None), member=True)
                         for f in flat_fields(desc, cid)])


def from_native(desc, classes, f_or_ty, o, member=False):
    """native value observed in a slot of the given member description / type -> neutral form.
    The slot type only decides how a sequence of byte strings is read (ByteArray value)."""
    ty = f_or_ty['ty'] if member else f_or_ty
    multi = member and is_multi(f_or_ty)
    if o is None:
        return ('none',)
    if multi:
        if isinstance(o, (list, tuple)):
            return ('list', [from_native(desc, classes, ty, x) for x in o])
        return generic(desc, classes, o)
    if ty[0] == 'prim' and ty[1] == 'bytes' and isinstance(o, (list, tuple)) and \
            all(isinstance(x, (bytes, bytearray)) for x in o):
        return ('bytes', b''.join(bytes(x) for x in o))
    if ty[0] == 'arr' and isinstance(o, (list, tuple)):
        return ('list', [from_native(desc, classes, ty[1], x) for x in o])
    return generic(desc, classes, o)


def val_eq(a, b):
    """equality of neutral values: floats by bit pattern, Decimals by (sign, digits, exponent)"""
    if a[0] != b[0]:
        return False
    k = a[0]
    if k == 'double':
        return struct.pack('>d', a[1]) == struct.pack('>d', b[1])
    if k == 'decimal':
        return a[1].as_tuple() == b[1].as_tuple()
    if k == 'list':
        return len(a[1]) == len(b[1]) and all(val_eq(x, y) for x, y in zip(a[1], b[1]))
    if k == 'obj':
        return a[1] == b[1] and len(a[2]) == len(b[2]) and all(val_eq(x, y) for x, y in zip(a[2], b[2]))
    if k == 'raw':
        return doc_eq(a[1], b[1])
    return a == b


def doc_eq(a, b):
    if type(a) is not type(b):
        if isinstance(a, (list, tuple)) and isinstance(b, (list, tuple)):
            pass
        else:
            return False
    if isinstance(a, float):
        return struct.pack('>d', a) == struct.pack('>d', b)
    if isinstance(a, (list, tuple)):
        return len(a) == len(b) and all(doc_eq(x, y) for x, y in zip(a, b))
    if isinstance(a, dict):
        return len(a) == len(b) and all(doc_eq(k1, k2) and doc_eq(v1, v2)
                                        for (k1, v1), (k2, v2) in zip(a.items(), b.items()))
    return a == b


def first_diff(a, b, path='$'):
    """where two neutral values differ: (path, kind of a, kind of b)"""
    if a[0] != b[0]:
        return (path, a[0], b[0])
    k = a[0]
    if k == 'list':
        if len(a[1]) != len(b[1]):
            return (path, 'list[%d]' % len(a[1]), 'list[%d]' % len(b[1]))
        for i, (x, y) in enumerate(zip(a[1], b[1])):
            d = first_diff(x, y, path + '[]')
            if d:
                return d
        return None
    if k == 'obj':
        if a[1] != b[1] or len(a[2]) != len(b[2]):
            return (path, 'obj#%d' % a[1], 'obj#%d' % b[1])
        for i, (x, y) in enumerate(zip(a[2], b[2])):
            d = first_diff(x, y, path + '.m')
            if d:
                return d
        return None
    if not val_eq(a, b):
        return (path, k, k + "'")
    return None


def jsonable(v):
    """neutral value -> JSON-serialisable (for replay files)"""
    k = v[0]
    if k == 'double':
        return ['double', v[1].hex()]
    if k == 'decimal':
        return ['decimal', str(v[1])]
    if k == 'bytes':
        return ['bytes', v[1].hex()]
    if k == 'list':
        return ['list', [jsonable(x) for x in v[1]]]
    if k == 'obj':
        return ['obj', v[1], [jsonable(x) for x in v[2]]]
    if k == 'raw':
        return ['raw', repr(v[1])]
    return list(v)


def unjsonable(j):
    k = j[0]
    if k == 'double':
        return ('double', float.fromhex(j[1]))
    if k == 'decimal':
        return ('decimal', decimal.Decimal(j[1]))
    if k == 'bytes':
        return ('bytes', bytes.fromhex(j[1]))
    if k == 'list':
        return ('list', [unjsonable(x) for x in j[1]])
    if k == 'obj':
        return ('obj', j[1], [unjsonable(x) for x in j[2]])
    return tuple(j)


# ------------------------------------------------------------------ Gallina rendering
def g_ext(v):
    if v is None:
        return 'PosInf'
    if isinstance(v, (float, decimal.Decimal)):
        if v == decimal.Decimal('inf'):
            return 'PosInf'
        if v == decimal.Decimal('-inf'):
            return 'NegInf'
    return '(Fin %s)' % gz(int(v))


def g_kind(T, kind):
    """lkind of the real Spyne class T (max_str_len is read from the class)"""
    if kind == 'int':
        return '(KInt %s)' % g_ext(T.Attributes.max_str_len)
    if kind == 'decimal':
        return '(KDecimal %s)' % g_ext(T.Attributes.max_str_len)
    return {'text': 'KText', 'bool': 'KBool', 'double': 'KDouble', 'bytes': 'KBytes'}[kind]


def g_prim(T, kind):
    """DPrim / DPrimE (empty_is_none) of the real Spyne class T"""
    return '(%s %s)' % ('DPrimE' if T.Attributes.empty_is_none else 'DPrim', g_kind(T, kind))


def g_dty(ty, T):
    """dty of description ty whose real Spyne class is T"""
    if ty[0] == 'prim':
        return g_prim(T, ty[1])
    if ty[0] == 'ref':
        return '(DRef %d%%nat)' % ty[1]
    inner, = T._type_info.values()
    return '(DArr %s)' % g_dty(ty[1], inner)


def g_field(f, T):
    """dfield; occurrence attributes are read back from the real member class T"""
    A = T.Attributes
    mx = A.max_occurs
    mx = None if mx == decimal.Decimal('inf') or mx == float('inf') else int(mx)
    return '(mkdf %s %s %s %s %s)' % (gtext(f['name']), g_dty(f['ty'], T), gz(int(A.min_occurs)), gopt(mx, gz),
                                      gbool(bool(A.nillable)))


def g_universe(desc, classes):
    rows = []
    for c, K in zip(desc['classes'], classes):
        rows.append('(mkdc %s %s %s)' % (gtext(c['name']), gopt(c['parent'], lambda p: '%d%%nat' % p),
                                         glist([g_field(f, K._type_info[f['name']]) for f in c['fields']])))
    return glist(rows)


def float_bits(f):
    return struct.unpack('>Q', struct.pack('>d', f))[0]


def g_dec(d):
    t = d.as_tuple()
    if not isinstance(t.exponent, int):
        raise ValueError('special Decimal outside the modelled universe: %r' % d)
    return '(mkdec %s %s %s)' % (gbool(bool(t.sign)), gz(int(''.join(str(x) for x in t.digits) or '0')), gz(t.exponent))


def g_val(v):
    k = v[0]
    if k == 'none':
        return 'DNone'
    if k == 'int':
        return '(DLeaf (LInt %s))' % gz(v[1])
    if k == 'text':
        return '(DLeaf (LText %s))' % gtext(v[1])
    if k == 'bool':
        return '(DLeaf (LBool %s))' % gbool(v[1])
    if k == 'double':
        return '(DLeaf (LDouble %s))' % gz(float_bits(v[1]))
    if k == 'decimal':
        return '(DLeaf (LDecimal %s))' % g_dec(v[1])
    if k == 'bytes':
        return '(DLeaf (LBytes %s))' % gtext(v[1])
    if k == 'list':
        return '(DList %s)' % glist([g_val(x) for x in v[1]])
    if k == 'obj':
        return '(DObj %d%%nat %s)' % (v[1], glist([g_val(x) for x in v[2]]))
    if k == 'raw':
        return '(DRaw %s)' % g_doc(v[1])
    raise ValueError('value outside the modelled universe: %r' % (v,))


def in_universe(v):
    k = v[0]
    if k == 'other':
        return False
    if k == 'decimal':
        return isinstance(v[1].as_tuple().exponent, int)
    if k == 'list':
        return all(in_universe(x) for x in v[1])
    if k == 'obj':
        return all(in_universe(x) for x in v[2])
    if k == 'raw':
        return doc_in_universe(v[1])
    return True


def g_doc(d):
    if d is None:
        return 'JNull'
    if isinstance(d, bool):
        return '(JBool %s)' % gbool(d)
    if isinstance(d, int):
        return '(JInt %s)' % gz(d)
    if isinstance(d, float):
        return '(JFlt %s)' % gz(float_bits(d))
    if isinstance(d, str):
        return '(JStr %s)' % gtext(d)
    if isinstance(d, (bytes, bytearray)):
        return '(JBytes %s)' % gtext(bytes(d))
    if isinstance(d, (list, tuple)):
        return '(JList %s)' % glist([g_doc(x) for x in d])
    if isinstance(d, dict):
        return '(JMap %s)' % glist(['(%s, %s)' % (g_doc(k), g_doc(v)) for k, v in d.items()])
    raise ValueError('document node outside the modelled universe: %r' % type(d))


def doc_in_universe(d):
    if d is None or isinstance(d, (bool, int, float, str, bytes, bytearray)):
        return True
    if isinstance(d, (list, tuple)):
        return all(doc_in_universe(x) for x in d)
    if isinstance(d, dict):
        return all(doc_in_universe(k) and doc_in_universe(v) for k, v in d.items())
    return False


EXN = {'ValueError': 'ValueError', 'TypeError': 'TypeError', 'AttributeError': 'AttributeError',
       'KeyError': 'KeyError', 'IndexError': 'IndexError', 'OverflowError': 'OverflowError',
       'Error': 'BinasciiError', 'InvalidOperation': 'InvalidOperation',
       'UnicodeDecodeError': 'UnicodeError', 'UnicodeEncodeError': 'UnicodeError',
       'AssertionError': 'AssertionError'}


def observe(fn, *args):
    """-> ('ok', result) | ('vfault',) | ('crash', coq exn name, python class name)"""
    from spyne.error import ValidationError
    from spyne.model.fault import Fault
    try:
        return ('ok', fn(*args))
    except ValidationError:
        return ('vfault',)
    except Fault as e:
        return ('crash', 'OtherExn', 'Fault:' + str(e.faultcode))
    except Exception as e:
        return ('crash', EXN.get(type(e).__name__, 'OtherExn'), type(e).__name__)


def g_out(o, f):
    if o[0] == 'ok':
        return '(Ok %s)' % f(o[1])
    if o[0] == 'vfault':
        return 'VFault'
    return '(Crash %s)' % o[1]


# ------------------------------------------------------------------ signatures
def gen_sig(rng, desc, name, n_params=None, n_results=None):
    """a method signature over the universe: parameters / results are member descriptions"""
    def slot(nm):
        r = rng.random()
        if r < 0.45 or not desc['classes']:
            ty = _prim(rng, rng.random() < 0.5)
        elif r < 0.8:
            ty = ('ref', rng.randrange(len(desc['classes'])))
        else:
            inner = _prim(rng, False) if rng.random() < 0.5 else ('ref', rng.randrange(len(desc['classes'])))
            ty = ('arr', inner)
            if rng.random() < 0.2:
                ty = ('arr', ty)
        f = {'name': nm, 'ty': ty, 'min': 0, 'max': 1, 'nillable': True}
        if ty[0] != 'arr' and rng.random() < 0.15:
            f['max'] = rng.choice([None, 2, 4])
        elif rng.random() < 0.15:
            f['min'] = 1
            if rng.random() < 0.5:
                f['nillable'] = False
        if ty[0] == 'prim' and (f['min'], f['max'], f['nillable']) != (0, 1, True):
            f['ty'] = ('prim', ty[1], True) + tuple(ty[3:])
        return f
    np_ = rng.choice([0, 1, 1, 2, 3, 4]) if n_params is None else n_params
    nr = rng.choice([0, 1, 1, 1, 2, 3]) if n_results is None else n_results
    params = [slot('p%d' % i) for i in range(np_)]
    if nr == 1:
        results = [slot(name + 'Result')]
    else:
        results = [slot('%sResult%d' % (name, i)) for i in range(nr)]
    return {'name': name, 'params': params, 'results': results}


def build_service(desc, classes, sigs, calls, returns):
    """a ServiceBase with one @rpc method per signature; every call is appended to `calls`
    as (name, args tuple); the method returns returns[name] (a tuple of native values)"""
    from spyne.service import ServiceBase
    from spyne.decorator import rpc
    ns = {}
    for s in sigs:
        ptypes = [field_type(classes, p) for p in s['params']]
        rtypes = [field_type(classes, r) for r in s['results']]
        argn = ', '.join(p['name'] for p in s['params'])
        src = ('def %s(ctx%s):\n'
               '    calls.append((%r, (%s)))\n'
               '    r = returns[%r]\n'
               '    return r[0] if len(r) == 1 else (None if len(r) == 0 else tuple(r))\n') % (
                   s['name'], (', ' + argn) if argn else '', s['name'],
                   (argn + ',') if argn else '', s['name'])
        env = {'calls': calls, 'returns': returns}
        exec(src, env)
        kw = {}
        if len(rtypes) == 1:
            kw['_returns'] = rtypes[0]
        elif rtypes:
            kw['_returns'] = rtypes
        ns[s['name']] = rpc(*ptypes, **kw)(env[s['name']])
    return type('Svc', (ServiceBase,), ns)


def message_classes(app, s):
    d = app.interface.service_method_map['{%s}%s' % (TNS, s['name'])][0]
    return d.in_message, d.out_message


def g_sig(s, in_message, out_message):
    ps = [g_field(p, in_message._type_info[p['name']]) for p in s['params']]
    rs = [g_field(r, out_message._type_info[r['name']]) for r in s['results']]
    return '(mksig %s %s %s %s)' % (gtext(in_message.get_type_name()), gtext(out_message.get_type_name()),
                                    glist(ps), glist(rs))


# ------------------------------------------------------------------ the reference codec (documented conventions)
# Independent of Spyne's serializer: objects are maps from member name to value (members that
# are None are left out; a member that must occur is sent as null) or positional lists of all
# members; with ignore_wrappers=False every object is wrapped in a single-key map named after
# its class; arrays and repeated members are lists; numbers and booleans are native; decimals
# are their string form; bytes are base64 text (JSON, YAML) or msgpack bin; integers that
# msgpack cannot carry natively (outside -2^63 .. 2^64-1) travel as decimal text.
def ref_leaf_enc(c, kind, v, style):
    import base64
    x = v[1]
    if kind in ('bool', 'double'):
        return x
    if kind == 'int':
        if c['proto'] == 'msgpack' and not (-2 ** 63 <= x < 2 ** 64):
            return _mp_text(str(x), style)
        return x
    if kind == 'text':
        return _mp_text(x, style) if c['proto'] == 'msgpack' else x
    if kind == 'decimal':
        return _mp_text(str(x), style) if c['proto'] == 'msgpack' else str(x)
    if kind == 'bytes':
        return x if c['proto'] == 'msgpack' else base64.b64encode(x).decode('ascii')
    raise ValueError(kind)


def _mp_text(s, style):
    return s.encode('utf8') if style.get('text') == 'bin' else s


def ref_key(c, name, style):
    if c['proto'] == 'msgpack' and style.get('key') == 'bin':
        return name.encode('utf8')
    return name


def ref_enc(c, desc, ty, v, style):
    if v[0] == 'none':
        return None
    if ty[0] == 'prim':
        return ref_leaf_enc(c, ty[1], v, style)
    if ty[0] == 'arr':
        return [ref_enc(c, desc, ty[1], x, style) for x in v[1]]
    cid = v[1]
    body = ref_members(c, desc, flat_fields(desc, cid), v[2], style)
    if c['iw']:
        return body
    return {ref_key(c, desc['classes'][cid]['name'], style): body}


def ref_member(c, desc, f, x, style):
    if x[0] == 'none':
        return None
    if is_multi(f):
        return [ref_enc(c, desc, f['ty'], y, style) for y in x[1]]
    return ref_enc(c, desc, f['ty'], x, style)


def ref_members(c, desc, fields, vals, style):
    if c['list']:
        return [ref_member(c, desc, f, x, style) for f, x in zip(fields, vals)]
    d = {}
    for f, x in zip(fields, vals):
        if x[0] == 'none' and f['min'] <= 0:
            continue
        d[ref_key(c, f['name'], style)] = ref_member(c, desc, f, x, style)
    return d


def ref_request(c, desc, s, args, style):
    return {ref_key(c, s['name'], style): ref_members(c, desc, s['params'], args, style)}


class RefDecodeError(Exception):
    pass


def ref_leaf_dec(c, kind, d):
    import base64
    if kind == 'bool':
        if isinstance(d, bool):
            return ('bool', d)
    elif kind == 'double':
        if isinstance(d, float):
            return ('double', d)
        if isinstance(d, int) and not isinstance(d, bool):
            return ('double', float(d))
    elif kind == 'int':
        if isinstance(d, int) and not isinstance(d, bool):
            return ('int', d)
        if c['proto'] == 'msgpack' and isinstance(d, (str, bytes)):
            s = d.decode('ascii') if isinstance(d, bytes) else d
            return ('int', int(s))
    elif kind == 'text':
        if isinstance(d, str):
            return ('text', d)
        if c['proto'] == 'msgpack' and isinstance(d, bytes):
            return ('text', d.decode('utf8'))
    elif kind == 'decimal':
        if isinstance(d, str):
            return ('decimal', decimal.Decimal(d))
        if c['proto'] == 'msgpack' and isinstance(d, bytes):
            return ('decimal', decimal.Decimal(d.decode('ascii')))
    elif kind == 'bytes':
        if c['proto'] == 'msgpack':
            if isinstance(d, bytes):
                return ('bytes', d)
        elif isinstance(d, str):
            # strictly (RFC 4648): alphabet only, padding at the end only, and the text is the encoding of what
            # it decodes to
            if not re.match(r'^(?:[A-Za-z0-9+/]{4})*(?:[A-Za-z0-9+/]{2}==|[A-Za-z0-9+/]{3}=)?$', d):
                raise RefDecodeError('bytes leaf carried as text that is not one base64 encoding: %r' % d[:60])
            b = base64.b64decode(d, validate=True)
            if base64.b64encode(b).decode('ascii') != d:
                raise RefDecodeError('bytes leaf carried as non-canonical base64: %r' % d[:60])
            return ('bytes', b)
    raise RefDecodeError('%s leaf carried as %r' % (kind, type(d).__name__))


def _name(k):
    if isinstance(k, bytes):
        return k.decode('utf8')
    if isinstance(k, str):
        return k
    raise RefDecodeError('key %r' % (k,))


def ref_dec(c, desc, ty, d):
    if d is None:
        return ('none',)
    if ty[0] == 'prim':
        return ref_leaf_dec(c, ty[1], d)
    if ty[0] == 'arr':
        if not isinstance(d, (list, tuple)):
            raise RefDecodeError('array carried as %s' % type(d).__name__)
        return ('list', [ref_dec(c, desc, ty[1], x) for x in d])
    cid = ty[1]
    if not c['iw']:
        if not isinstance(d, dict) or len(d) != 1:
            raise RefDecodeError('object without its single class-name key')
        (k, d), = d.items()
        nm = _name(k)
        cands = [i for i in subclasses(desc, cid) if desc['classes'][i]['name'] == nm]
        if not cands:
            raise RefDecodeError('class name %r is not %s or a subclass' % (nm, desc['classes'][cid]['name']))
        if cands[0] != cid and not c['poly']:
            raise RefDecodeError('subclass %r in a non-polymorphic document' % nm)
        cid = cands[0]
    return ('obj', cid, ref_members_dec(c, desc, flat_fields(desc, cid), d))


def ref_member_dec(c, desc, f, d):
    if d is None:
        return ('none',)
    if is_multi(f):
        if not isinstance(d, (list, tuple)):
            raise RefDecodeError('repeated member carried as %s' % type(d).__name__)
        return ('list', [ref_dec(c, desc, f['ty'], x) for x in d])
    return ref_dec(c, desc, f['ty'], d)


def ref_members_dec(c, desc, fields, d):
    if c['list']:
        if not isinstance(d, (list, tuple)) or len(d) != len(fields):
            raise RefDecodeError('positional form with %s entries for %d members' % (
                len(d) if isinstance(d, (list, tuple)) else type(d).__name__, len(fields)))
        return [ref_member_dec(c, desc, f, x) for f, x in zip(fields, d)]
    if not isinstance(d, dict):
        raise RefDecodeError('object carried as %s' % type(d).__name__)
    names = {}
    for k, x in d.items():
        nm = _name(k)
        if nm in names:
            raise RefDecodeError('duplicate member %r' % nm)
        names[nm] = x
    known = set(f['name'] for f in fields)
    for nm in names:
        if nm not in known:
            raise RefDecodeError('unknown member %r' % nm)
    return [ref_member_dec(c, desc, f, names[f['name']]) if f['name'] in names else ('none',) for f in fields]


def ref_response_dec(c, desc, s, d, out_name):
    """the decoded list of return values of signature s from response document d"""
    rs = s['results']
    if c['iw'] and len(rs) == 1:
        return [ref_member_dec(c, desc, rs[0], d)]
    if not c['iw'] and not c['list']:
        if not isinstance(d, dict) or len(d) != 1:
            raise RefDecodeError('response without its single message-name key')
        (k, d), = d.items()
        if _name(k) != out_name:
            raise RefDecodeError('response message named %r, expected %r' % (_name(k), out_name))
    elif not c['iw']:
        if not isinstance(d, dict) or len(d) != 1:
            raise RefDecodeError('response without its single message-name key')
        (k, d), = d.items()
        if _name(k) != out_name:
            raise RefDecodeError('response message named %r, expected %r' % (_name(k), out_name))
    return ref_members_dec(c, desc, rs, d)


# ------------------------------------------------------------------ wire libraries (oracles)
def dumps(c, d):
    if c['proto'] == 'json':
        return json.dumps(d).encode('utf8')
    if c['proto'] == 'yaml':
        import yaml
        return yaml.safe_dump(d, allow_unicode=True, sort_keys=False).encode('utf8')
    import msgpack
    return msgpack.packb(d, use_bin_type=True)


def loads(c, b):
    if c['proto'] == 'json':
        return json.loads(b.decode('utf8'))
    if c['proto'] == 'yaml':
        import yaml
        return yaml.safe_load(b.decode('utf8'))
    import msgpack
    return msgpack.unpackb(b, raw=False, strict_map_key=False)


def wire_ok(c, d):
    """can the library carry document d unchanged?  (a case where it cannot says nothing about Spyne)"""
    try:
        return doc_eq(loads(c, dumps(c, d)), _listify(d))
    except Exception:
        return False


def _listify(d):
    if isinstance(d, tuple):
        return [_listify(x) for x in d]
    if isinstance(d, list):
        return [_listify(x) for x in d]
    if isinstance(d, dict):
        return {k: _listify(v) for k, v in d.items()}
    return d
