"""C12 — concurrent requests do not interfere; lazy WSDL is built once, served whole.

Tie between coq/C12/Model.v and the real code:

* harness/translate/conctext.py regenerates the access skeletons of the eight shared-state functions
  (coq/Gen/ConcText.v); Props/C12.v proves that they are the skeletons the model mirrors and that on
  every path through them the model's step function performs exactly those accesses;
* a deterministic scheduler (one baton: only the thread holding it runs) drives real threads against
  ONE pair of applications (SOAP 1.1 + lxml validation, JSON + soft validation) / protocol / memoize
  instances.  Switch points are (a) every access to a shared variable of the model (hooks installed
  from outside: attribute watchers on the WsgiApplication and Wsdl11 instances, recording dictionaries
  for _attrcache, _sortcache and memoize.memo, a proxy around the XMLSchema validator, baton-aware lock
  proxies) and (b) `sys.settrace` line/return events inside the shared-state code or all of spyne/;
* every run records the global sequence of shared accesses (thread, kind, values); the Coq model
  replays the same sequence of thread identifiers and must produce exactly the same accesses, values,
  blocking behaviour and per-thread results (correspondence);
* the direct oracle compares what every caller received (status, headers, body bytes) with what the
  same request gets when it is processed alone on a fresh application, counts the executions of
  build_interface_document, and watches attribute writes to the shared application / transport /
  protocol / interface objects.
"""
import os, sys, io, json, threading, itertools, weakref, hashlib, time
import lib
from lib import gz, glist, gbool

THEOREMS = ['C12_built_once', 'C12_prebuilt_never_rebuilt', 'C12_served_whole', 'C12_no_interference', 'C12_schedule_independent',
            'C12_steps_bounded', 'C12_no_deadlock', 'C12_all_served',
            'C12_memo_transparent', 'C12_attrs_transparent', 'C12_sort_transparent', 'C12_errlog_isolated', 'C12_validator_error_isolated',
            'C12_mutual_exclusion', 'C12_text_is_model_text', 'C12_text_paths', 'C12_state_writers_pinned',
            'C12_exact_cache_transparent', 'C12_fallback_cache_refuted',
            'C12_pinned_wsdl_refuted', 'C12_pinned_attrs_refuted', 'C12_pinned_errlog_refuted']

TNS = 'c12.tns'

# event codes shared with coq/C12/Corr.v
RD_APP, RD_B, WR_APP, ACQ_W, BUILD, WR_B, REL_W = 1, 2, 3, 4, 5, 6, 7
ACQ_V, VALIDATE, RD_LOG, REL_V = 8, 9, 10, 11
C_GET, C_PUB, C_UPD1, C_UPD2, C_USE = 12, 13, 14, 15, 16
M_IN, M_ACQ, M_SET, M_REL, M_GET = 17, 18, 20, 21, 22
S_GET, S_SET = 23, 24


class Abort(BaseException):
    pass


# ------------------------------------------------------------------ scheduler
class Sched(object):
    """One baton.  `chooser(sched, cur, enabled, kind) -> tid` decides at every switch point."""

    def __init__(self, chooser, line_files=None, line_funcs=None, max_points=200000):
        self.cv = threading.Condition()
        self.cur = None
        self.status = {}          # tid -> 'ready' | 'done'
        self.pending_lock = {}    # tid -> LockProxy it is about to acquire
        self.ident = {}           # thread ident -> tid
        self.trace = []           # (tid, code, a, b)
        self.decisions = []       # (enabled tuple, chosen, cur, kind)
        self.chooser = chooser
        self.abort = None
        self.results = {}
        self.line_funcs = line_funcs      # None | set of (file suffix, function name) | 'ALL'
        self.max_points = max_points
        self.builds = 0
        self.shared_writes = []   # (tid, class name, attribute)
        self.published = {}       # id(attr dict) -> [key id, number of updates seen]
        self.active = False

    # -- identity
    def me(self):
        return self.ident.get(threading.get_ident())

    def enabled(self):
        out = []
        for t in sorted(self.status):
            if self.status[t] != 'ready':
                continue
            lk = self.pending_lock.get(t)
            if lk is not None and lk.owner is not None and lk.owner != t:
                continue
            out.append(t)
        return out

    def record(self, code, a=0, b=0):
        t = self.me()
        if t is not None:
            # values are integers by construction; anything else (a mutated implementation storing None or
            # an object) is recorded as -7 so that the case is still printable and simply disagrees
            a = a if isinstance(a, int) else -7
            b = b if isinstance(b, int) else -7
            self.trace.append((t, code, a, b))

    def _handover(self, tid, kind):
        """called with cv held by thread tid (or by a finishing thread): pick who runs next"""
        en = self.enabled()
        if not en:
            if all(s == 'done' for s in self.status.values()):
                self.cur = None
                self.cv.notify_all()
                return None
            self.abort = 'deadlock: no thread enabled, status=%r' % (self.status,)
            self.cv.notify_all()
            raise Abort()
        if len(self.decisions) > self.max_points:
            self.abort = 'too many switch points'
            self.cv.notify_all()
            raise Abort()
        nxt = self.chooser(self, tid, en, kind)
        if nxt not in en:
            self.abort = 'chooser picked disabled thread %r (enabled %r)' % (nxt, en)
            self.cv.notify_all()
            raise Abort()
        self.decisions.append((tuple(en), nxt, tid, kind))
        return nxt

    def point(self, kind, lock=None):
        """a switch point reached by the running thread"""
        tid = self.me()
        if tid is None or not self.active:
            return
        with self.cv:
            if self.abort:
                raise Abort()
            if lock is not None:
                self.pending_lock[tid] = lock
            nxt = self._handover(tid, kind)
            if nxt != tid:
                self.cur = nxt
                self.cv.notify_all()
                while self.cur != tid and not self.abort:
                    self.cv.wait(20)
                    if self.cur != tid and not self.abort and not self._alive():
                        self.abort = 'scheduler stalled'
                if self.abort:
                    raise Abort()
            if lock is not None:
                self.pending_lock.pop(tid, None)

    def _alive(self):
        return True

    # -- running
    def run(self, bodies, timeout=60):
        """bodies: {tid: callable}.  Returns when every thread has finished (or on abort)."""
        threads = {}
        started = threading.Semaphore(0)

        def runner(tid, fn):
            self.ident[threading.get_ident()] = tid
            started.release()
            try:
                with self.cv:
                    while self.cur != tid and not self.abort:
                        self.cv.wait(20)
                    if self.abort:
                        raise Abort()
                if self.line_funcs is not None:
                    sys.settrace(self._global_trace)
                try:
                    res = ('ok', fn())
                finally:
                    sys.settrace(None)
            except Abort:
                res = ('abort', self.abort)
            except BaseException as e:   # the harness body is expected to catch what the code raises
                import traceback
                res = ('exc', type(e).__name__, traceback.format_exc()[-800:])
            self.results[tid] = res
            with self.cv:
                self.status[tid] = 'done'
                self.pending_lock.pop(tid, None)
                if not self.abort:
                    try:
                        nxt = self._handover(tid, 'exit')
                        self.cur = nxt
                    except Abort:
                        pass
                self.cv.notify_all()

        for tid, fn in bodies.items():
            self.status[tid] = 'ready'
        for tid, fn in bodies.items():
            th = threading.Thread(target=runner, args=(tid, fn), daemon=True)
            threads[tid] = th
            th.start()
        for _ in bodies:
            started.acquire()
        with self.cv:
            self.active = True
            try:
                self.cur = self._handover(None, 'start')
            except Abort:
                pass
            self.cv.notify_all()
        deadline = time.time() + timeout
        for th in threads.values():
            th.join(max(0.1, deadline - time.time()))
        if any(th.is_alive() for th in threads.values()):
            with self.cv:
                self.abort = self.abort or 'timeout'
                self.cv.notify_all()
            for th in threads.values():
                th.join(5)
        self.active = False
        return self.results

    # -- line-level switch points
    def _global_trace(self, frame, event, arg):
        if event != 'call':
            return None
        co = frame.f_code
        if self.line_funcs == 'ALL':
            if '/spyne/' in co.co_filename and co.co_name != '<module>':
                return self._local_trace
            return None
        fn = co.co_filename
        for suffix, name in self.line_funcs:
            if co.co_name == name and fn.endswith(suffix):
                return self._local_trace
        return None

    def _local_trace(self, frame, event, arg):
        if event == 'line' or event == 'return':
            self.point('line')
        return self._local_trace


class LockProxy(object):
    """threading.Lock semantics under the baton: a thread that would block yields instead."""

    def __init__(self, sched, acq_code, rel_code, reentrant=False, silent=False):
        self.sched, self.owner = sched, None
        self.acq_code, self.rel_code = acq_code, rel_code
        self.reentrant, self.depth, self.silent = reentrant, 0, silent
        self.real = threading.RLock() if reentrant else threading.Lock()

    def acquire(self, blocking=True, timeout=-1):
        s = self.sched
        tid = s.me()
        if tid is None or not s.active:
            return self.real.acquire(blocking, timeout)
        if self.reentrant and self.owner == tid:
            self.depth += 1
            return True
        s.point('acq', lock=self)
        assert self.owner is None, 'lock proxy: granted while held'
        self.owner = tid
        self.depth = 1
        if not self.silent:
            s.record(self.acq_code)
        return True

    def release(self):
        s = self.sched
        tid = s.me()
        if tid is None or not s.active:
            return self.real.release()
        if self.owner != tid:
            raise RuntimeError('release of a lock not held')
        if self.reentrant and self.depth > 1:
            self.depth -= 1
            return
        s.point('rel')
        self.owner = None
        self.depth = 0
        if not self.silent:
            s.record(self.rel_code)

    def locked(self):
        return self.owner is not None or self.real.locked()

    def __enter__(self):
        self.acquire()
        return self

    def __exit__(self, *a):
        self.release()
        return False


# ------------------------------------------------------------------ choosers
def default_policy(cur, enabled):
    return cur if cur in enabled else enabled[0]

class Scripted(object):
    """follow `prefix` (a list of thread ids, one per switch point), then run without preemption"""
    def __init__(self, prefix):
        self.prefix = list(prefix)
        self.diverged = False
    def __call__(self, sched, cur, enabled, kind):
        i = len(sched.decisions)
        if i < len(self.prefix):
            if self.prefix[i] in enabled:
                return self.prefix[i]
            self.diverged = True
        return default_policy(cur, enabled)

class RandomChooser(object):
    def __init__(self, rng, p_switch):
        self.rng, self.p = rng, p_switch
    def __call__(self, sched, cur, enabled, kind):
        if cur in enabled and (len(enabled) == 1 or self.rng.random() >= self.p):
            return cur
        others = [t for t in enabled if t != cur] or enabled
        return self.rng.choice(others)

class OrderChooser(object):
    """no interleaving at all: the threads run to completion one after the other, in the given order
    (a request history on one application)"""
    def __init__(self, order):
        self.order = list(order)
    def __call__(self, sched, cur, enabled, kind):
        for t in self.order:
            if t in enabled:
                return t
        return enabled[0]

class AccessScript(object):
    """`script` names the thread that performs each successive SHARED ACCESS (the model's
    notion of a schedule).  A thread that has not yet reached its first access point is
    let run up to it (thread-local code) and then through it; line-level points never switch."""
    def __init__(self, script):
        self.script = list(script)
        self.i = 0
        self.parked = set()      # threads waiting at an access point
        self.grant = None        # thread chosen while it was not parked yet
        self.diverged = False
    def __call__(self, sched, cur, enabled, kind):
        if kind == 'line':
            return default_policy(cur, enabled)
        if cur is not None and kind != 'exit':
            if self.grant == cur:
                self.grant = None
                if cur in enabled:
                    return cur       # its access was already scheduled
                self.diverged = True  # ... but it is an acquire of a held lock
            self.parked.add(cur)
        while self.i < len(self.script):
            t = self.script[self.i]
            self.i += 1
            if t in enabled:
                if t in self.parked:
                    self.parked.discard(t)
                else:
                    self.grant = t
                return t
            self.diverged = True
        t = default_policy(cur, enabled)
        if t in self.parked:
            self.parked.discard(t)
        else:
            self.grant = t
        return t


# ------------------------------------------------------------------ instrumentation
def enc_opt(v):
    return -1 if v is None else v

def watch_attrs(sched, obj, table, yield_after_writes=False):
    """table: {attribute name: (read code, write code, value encoder)}; swaps obj.__class__
    for a subclass whose attribute access on those names is a switch point + recorded event"""
    base = type(obj)

    class Watched(base):
        def __getattribute__(self, name):
            if name in table and sched.active and sched.me() is not None:
                rd, wr, enc = table[name]
                sched.point('acc')
                v = base.__getattribute__(self, name)
                sched.record(rd, enc(v))
                return v
            return base.__getattribute__(self, name)

        def __setattr__(self, name, value):
            if name in table and sched.active and sched.me() is not None:
                rd, wr, enc = table[name]
                sched.point('acc')
                sched.record(wr, enc(value))
            elif sched.active and sched.me() is not None:
                sched.shared_writes.append((sched.me(), base.__name__, name))
                if yield_after_writes:
                    # every other field the document builder assigns: after the write, a switch point that is
                    # not part of the recorded access sequence (another thread may look at the builder while it is
                    # half way through)
                    base.__setattr__(self, name, value)
                    sched.point('acc')
                    return
            base.__setattr__(self, name, value)

    Watched.__name__ = base.__name__
    Watched.__qualname__ = base.__qualname__
    Watched.__module__ = base.__module__
    obj.__class__ = Watched


def monitor_writes(sched, obj):
    """record every attribute write to a shared object made by a scheduled thread"""
    watch_attrs(sched, obj, {})


class TracedCache(weakref.WeakKeyDictionary):
    """_attrcache / _sortcache replacement: get and __setitem__ are switch points.
    mode 'attrs': get records (C_GET, key, hit?), the stored dictionary is remembered so that later
    updates of it count as shared accesses; mode 'sort': get records (S_GET, key, value read or -1)"""
    def __init__(self, sched, keyid, encval, mode='attrs'):
        weakref.WeakKeyDictionary.__init__(self)
        self.s, self.keyid, self.encval, self.mode = sched, keyid, encval, mode

    def get(self, k, d=None):
        s = self.s
        if s.active and s.me() is not None and self.keyid(k) is not None:
            s.point('acc')
            v = weakref.WeakKeyDictionary.get(self, k, d)
            if self.mode == 'attrs':
                s.record(C_GET, self.keyid(k), 0 if v is None else 1)
            else:
                s.record(S_GET, self.keyid(k), -1 if v is None else self.encval(self.keyid(k), v))
            return v
        return weakref.WeakKeyDictionary.get(self, k, d)

    def __setitem__(self, k, v):
        s = self.s
        if s.active and s.me() is not None and self.keyid(k) is not None:
            s.point('acc')
            if self.mode == 'attrs':
                s.record(C_PUB, self.keyid(k), self.encval(self.keyid(k), v))
                s.published[id(v)] = [self.keyid(k), 0, v]
            else:
                s.record(S_SET, self.keyid(k), self.encval(self.keyid(k), v))
        weakref.WeakKeyDictionary.__setitem__(self, k, v)


class TracedMemo(dict):
    def __init__(self, sched):
        dict.__init__(self)
        self.s = sched

    @staticmethod
    def kid(key):
        return key[0][0]

    def __contains__(self, key):
        s = self.s
        if s.active and s.me() is not None:
            s.point('acc')
            r = dict.__contains__(self, key)
            s.record(M_IN, self.kid(key), 1 if r else 0)
            return r
        return dict.__contains__(self, key)

    def __setitem__(self, key, v):
        s = self.s
        if s.active and s.me() is not None:
            s.point('acc')
            s.record(M_SET, self.kid(key), enc_opt(v))
        dict.__setitem__(self, key, v)

    def get(self, key, d=None):
        s = self.s
        if s.active and s.me() is not None:
            s.point('acc')
            v = dict.get(self, key, d)
            s.record(M_GET, self.kid(key), enc_opt(v))
            return v
        return dict.get(self, key, d)


class SchemaProxy(object):
    """stands in for protocol.validation_schema: validate() and .error_log are switch points"""
    def __init__(self, sched, real, errid):
        self._s, self._real, self._errid = sched, real, errid

    def validate(self, payload):
        s = self._s
        s.point('acc')
        try:
            r = self._real.validate(payload)
        except Exception:
            s.record(VALIDATE, -1)      # validate() itself raised (XMLSchemaValidateError)
            raise
        s.record(VALIDATE, 1 if r else 0)
        return r

    @property
    def error_log(self):
        s = self._s
        s.point('acc')
        log = self._real.error_log
        s.record(RD_LOG, self._errid(str(log.last_error)))
        return log

    def __getattr__(self, name):
        return getattr(self._real, name)


XERR = 77

def errid(text):
    """which payload produced this libxml error text (payload i carries an element bad<i>)"""
    import re
    if text == 'None':
        return -1
    if 'Internal error' in text:    # XMLSchemaValidateError / the SCHEMAV_INTERNAL entry it leaves in the log
        return XERR
    m = re.search(r'bad(\d+)', text)
    return int(m.group(1)) if m else -2


# ------------------------------------------------------------------ the application under test
N_KEYS = 6

def base_val(k): return 10 * k
def has_prot(k): return k % 2 == 1
def mf(k): return 7 * k + 3

PERMS = list(itertools.permutations('abc'))

STALE = (0, 4)     # sort classes that get a fourth field AFTER their list was cached (start-up)

def encsort(k, items):
    """the list sort_fields returned (or the cache entry (fti, list) it stored) for sort class k, as
    100k + index of the order of its first three field names (+ 50 when the appended field 'd' follows)"""
    if isinstance(items, tuple) and len(items) == 2 and isinstance(items[1], list):
        items = items[1]
    names = tuple(n for n, _ in items)
    if len(names) == 4 and names[3] == 'd' and names[:3] in PERMS:
        return 100 * k + PERMS.index(names[:3]) + 50
    return 100 * k + (PERMS.index(names) if names in PERMS else 9)

def stale_setup(w):
    """start-up history of the STALE classes: a protocol sorts their fields, then the class gets another field
    (append_field drops the memoized flat type info): the request threads find a list cached for a field
    table the class no longer has"""
    from spyne import Unicode
    for k in STALE:
        w.in_prot.sort_fields(w.skeys[k])
        w.skeys[k].append_field('d', Unicode(order=3))


class World(object):
    """one fresh Application + WsgiApplication + the unit-level shared objects"""
    pass


MARKER = b'<!--c12-document-built-handler-->'

def make_world(sched, instrument=True, validator='lxml', monitor=True, pre=False, need='jxy', fail_at=None):
    from spyne import Application, rpc, ServiceBase, Unicode, Integer, ComplexModel, Array, Fault
    from spyne.protocol.soap import Soap11
    from spyne.protocol.xml import XmlDocument
    from spyne.server.wsgi import WsgiApplication
    from spyne.util.memo import memoize
    w = World()
    in_prot = Soap11(validator=validator)
    out_prot = Soap11()

    class Item(ComplexModel):
        __namespace__ = TNS
        name = Unicode(pa={Soap11: dict(sub_name='label')})
        qty = Integer

    class Box(ComplexModel):
        __namespace__ = TNS
        owner = Unicode
        items = Array(Item)

    class Svc(ServiceBase):
        @rpc(Unicode, Integer, _returns=Unicode)
        def echo(ctx, s, n):
            return u'%s*%d' % (s, n or 0)

        @rpc(Integer, Integer, _returns=Integer)
        def add(ctx, a, b):
            return (a or 0) + (b or 0)

        @rpc(Unicode, _returns=Unicode)
        def boom(ctx, code):
            raise Fault('Client.Boom%s' % code, 'boom %s' % code)

        @rpc(Unicode, Integer, _returns=Box)
        def box(ctx, owner, n):
            return Box(owner=owner, items=[Item(name=u'%s-%d' % (owner, i), qty=i) for i in range(n or 0)])

        @rpc(Box, _returns=Integer)
        def count(ctx, b):
            return sum((i.qty or 0) for i in (b.items or []))

        # the response depends on a protocol attribute of the return type (get_cls_attrs of the
        # OUT protocol): with incomplete attributes the brackets are missing
        @rpc(Unicode, _returns=Unicode(pa={Soap11: dict(str_format=u'[{0}]')}))
        def tag(ctx, s):
            return s

    app = Application([Svc], TNS, name='C12App', in_protocol=in_prot, out_protocol=out_prot)
    wsgi = WsgiApplication(app)
    w.app, w.wsgi, w.in_prot, w.out_prot = app, wsgi, in_prot, out_prot

    if 'j' in need:
        # a second application on the JSON protocols (soft validation): its responses go through
        # sort_fields / get_cls_attrs of the out protocol (the member order of JItem is a protocol attribute)
        from spyne.protocol.json import JsonDocument

        class JItem(ComplexModel):
            __namespace__ = TNS + '.j'
            name = Unicode(order=0, pa={JsonDocument: dict(order=2)})
            qty = Integer(order=1)
            note = Unicode(order=2, pa={JsonDocument: dict(order=0)})

        class JBox(ComplexModel):
            __namespace__ = TNS + '.j'
            owner = Unicode
            items = Array(JItem)

        class JBase(ComplexModel):
            __namespace__ = TNS + '.j'
            a = Unicode
            b = Integer

        class JChild(JBase):
            __namespace__ = TNS + '.j'
            c = Unicode

        class JTags(ComplexModel):       # a repeated member with a list default
            __namespace__ = TNS + '.j'
            t = Unicode(max_occurs='unbounded', default=['base'])

        class JSvc(ServiceBase):
            @rpc(Unicode, Integer, _returns=JBox)
            def jbox(ctx, owner, n):
                return JBox(owner=owner, items=[JItem(name=u'%s-%d' % (owner, i), qty=i, note=u'n%d' % i)
                                                for i in range(n or 0)])

            @rpc(Integer(ge=0), _returns=Integer)
            def jsq(ctx, a):
                return (a or 0) * (a or 0)

            @rpc(JBox, _returns=Unicode(pa={JsonDocument: dict(str_format=u'<{0}>')}))
            def jsum(ctx, b):
                return u'%s:%d' % (b.owner, sum((i.qty or 0) for i in (b.items or [])))

            @rpc(Unicode, _returns=Unicode)
            def jboom(ctx, code):
                raise Fault('Client.JBoom%s' % code, 'jboom %s' % code)

            # parameter types related by inheritance, also sent in positional (array) form
            @rpc(JBase, _returns=Unicode)
            def jpar(ctx, p):
                return u'%s|%s' % (p.a, p.b)

            @rpc(JChild, _returns=Unicode)
            def jchi(ctx, p):
                return u'%s|%s|%s' % (p.a, p.b, p.c)

            @rpc(JTags, _returns=Unicode)
            def jtags(ctx, x):
                return u','.join(x.t or [])

        w.j_in, w.j_out = JsonDocument(validator='soft'), JsonDocument()
        w.japp = Application([JSvc], TNS + '.j', name='C12JsonApp', in_protocol=w.j_in, out_protocol=w.j_out)
        w.jwsgi = WsgiApplication(w.japp)

    if 'x' in need:
        # a third application: SOAP 1.1 with SOFT validation (no schema is built at start-up, so everything the WSDL
        # build fills lazily is still empty when the first RPC arrives), types in a second namespace, polymorphic
        # responses (xsi:type), parameter types related by inheritance, a repeated member with a list default
        class XItem(ComplexModel):
            __namespace__ = TNS + '.x2'
            name = Unicode

        class XBase(ComplexModel):
            __namespace__ = TNS + '.x'
            a = Unicode
            b = Integer

        class XChild(XBase):
            __namespace__ = TNS + '.x2'
            c = Unicode

        class XSvc(ServiceBase):
            @rpc(Unicode, _returns=XItem)
            def xget(ctx, s):
                return XItem(name=s)

            @rpc(Unicode, _returns=XBase)
            def xpoly(ctx, kind):
                return XChild(a=u'a', b=1, c=u'c') if kind == 'c' else XBase(a=u'a', b=2)

            @rpc(XBase, _returns=Unicode)
            def xpar(ctx, p):
                return u'%s|%s' % (p.a, p.b)

            @rpc(XChild, _returns=Unicode)
            def xchi(ctx, p):
                return u'%s|%s|%s' % (p.a, p.b, p.c)

        w.x_in, w.x_out = Soap11(validator='soft'), Soap11(polymorphic=True)
        w.xapp = Application([XSvc], TNS + '.x', name='C12SoftApp', in_protocol=w.x_in, out_protocol=w.x_out)
        w.xwsgi = WsgiApplication(w.xapp)

    if 'y' in need:
        # a fourth, tiny one for the XML deserializer and a repeated member with a list default (its schema cannot be
        # written - the emitter has no literal for a list default - so this application is never asked for its WSDL)
        class YTags(ComplexModel):
            __namespace__ = TNS + '.y'
            t = Unicode(max_occurs='unbounded', default=['base'])

        class YSvc(ServiceBase):
            @rpc(YTags, _returns=Unicode)
            def ytags(ctx, x):
                return u','.join(x.t or [])

        w.yapp = Application([YSvc], TNS + '.y', name='C12ListDefaultApp', in_protocol=Soap11(validator='soft'),
                             out_protocol=Soap11())
        w.ywsgi = WsgiApplication(w.yapp)

    # handlers of the documented `wsdl_document_built` event change the tree: a document served without their
    # change was published before it was complete
    def _mark(doc):
        from lxml import etree as _et
        doc.root_elt.append(_et.Comment(MARKER[4:-3].decode()))
    for _w in [wsgi] + ([w.xwsgi] if 'x' in need else []):
        _w.doc.wsdl11.event_manager.add_listener('wsdl_document_built', _mark)
    # the documented way of pinning the URL: build the WSDL at start-up, after the transport exists
    # a first build that fails at a chosen point (the requester gets 500; the lock is released); the next
    # request builds again on the same builder and must serve the whole document
    if fail_at:
        b11 = wsgi.doc.wsdl11
        state = {'armed': True}
        def once(orig):
            def f(*a, **k):
                if state['armed']:
                    state['armed'] = False
                    raise RuntimeError('c12: injected failure of the WSDL build (%s)' % fail_at)
                return orig(*a, **k)
            return f
        if fail_at == 'before':          # before the binding phase: the first port type
            b11.add_port_type = once(b11.add_port_type)
        elif fail_at == 'middle':        # in the binding phase
            b11.add_bindings_for_methods = once(b11.add_bindings_for_methods)
        else:                            # after it: a document_built listener
            def boom(doc):
                if state['armed']:
                    state['armed'] = False
                    raise RuntimeError('c12: injected failure of the WSDL build (after)')
            b11.event_manager.add_listener('document_built', boom)
    w.pre = pre
    if pre:
        wsgi.doc.wsdl11.build_interface_document('http://%s/svc' % URL_HOST)
    w.wsdl11 = wsgi.doc.wsdl11
    # unit-level keys: classes with / without protocol specific attributes
    w.keys = []
    for k in range(N_KEYS):
        if has_prot(k):
            T = Unicode.customize(pa={Soap11: dict(sub_name='c'), in_prot: dict(min_len=7)})
        else:
            T = Unicode.customize(max_len=100 + k)
        w.keys.append(T)
    w.keyid = {T: i for i, T in enumerate(w.keys)}
    # sort_fields keys: class k has fields a, b, c whose `order` attributes put them in the (k mod 6)-th
    # permutation; odd classes use negative orders; classes 2 and 3 declare the REVERSE order in their plain
    # attributes and the real one as a protocol attribute, so the sorted list depends on complete attributes
    w.skeys = []
    for k in range(N_KEYS):
        target = PERMS[k % 6]
        fields = []
        for name in 'abc':
            j = target.index(name)
            o = j - 3 if k % 2 == 1 else j
            if k in (2, 3):
                ro = (2 - j) - 3 if k % 2 == 1 else (2 - j)
                fields.append((name, Unicode(order=ro, pa={Soap11: dict(order=o)})))
            else:
                fields.append((name, Unicode(order=o)))
        w.skeys.append(ComplexModel.produce(TNS + '.sort', 'SortKey%d' % k, fields))
    w.skeyid = {T: i for i, T in enumerate(w.skeys)}
    w.memo = memoize(lambda k: mf(k))
    try:
        memoize.registry.remove(w.memo)
    except ValueError:
        pass
    w.seen_docs = {}
    if not instrument:
        stale_setup(w)
        return w

    def encval(k, attr):
        return 10 * k + (1 if attr.get('sub_name') == 'c' else 0) + (2 if attr.get('min_len') == 7 else 0)
    w.encval = encval

    def encdoc(v):
        if v is None:
            return -1
        return w.docid(v)

    def docid(b):
        h = hashlib.md5(b).hexdigest()
        if h not in w.seen_docs:
            w.seen_docs[h] = b
        return w.docnames.get(h, 99)
    w.docid = docid
    w.docnames = {}
    # locks
    wsgi._mtx_build_interface_document = LockProxy(sched, ACQ_W, REL_W)
    # the other applications' locks: same baton-aware semantics (a thread that would block yields instead of
    # blocking while it holds the baton), not part of the recorded access sequence
    for name in ('jwsgi', 'xwsgi', 'ywsgi'):
        if hasattr(w, name):
            getattr(w, name)._mtx_build_interface_document = LockProxy(sched, 0, 0, silent=True)
    for name in ('x_in', 'x_out', 'j_in', 'j_out', 'out_prot'):
        o = getattr(w, name, None)
        if o is not None and hasattr(o, '_validation_lock'):
            o._validation_lock = LockProxy(sched, 0, 0, silent=True)
    if hasattr(in_prot, '_validation_lock'):
        in_prot._validation_lock = LockProxy(sched, ACQ_V, REL_V)
    w.memo.lock = LockProxy(sched, M_ACQ, M_REL, reentrant=True)
    w.memo.memo = TracedMemo(sched)
    # caches
    in_prot._attrcache = TracedCache(sched, lambda c: w.keyid.get(c), encval)
    in_prot._sortcache = TracedCache(sched, lambda c: w.skeyid.get(c), encsort, mode='sort')
    stale_setup(w)
    # validator
    if in_prot.validation_schema is not None:
        in_prot.validation_schema = SchemaProxy(sched, in_prot.validation_schema, errid)
    # build counter
    orig_build = w.wsdl11.build_interface_document

    def build(url):
        sched.point('acc')
        sched.record(BUILD, sched.builds)
        sched.builds += 1
        return orig_build(url)
    w.wsdl11.build_interface_document = build
    # shared attributes of the double-checked lock
    watch_attrs(sched, wsgi, {'_wsdl': (RD_APP, WR_APP, encdoc)})
    watch_attrs(sched, w.wsdl11, {'_Wsdl11__wsdl': (RD_B, WR_B, encdoc)}, yield_after_writes=True)
    if monitor:
        shared = [app, in_prot, out_prot, app.interface, wsgi.doc, wsgi.doc.xml_schema]
        if 'j' in need:
            shared += [w.japp, w.j_in, w.j_out, w.japp.interface, w.jwsgi, w.jwsgi.doc]
        if 'x' in need:
            shared += [w.xapp, w.x_in, w.x_out, w.xapp.interface, w.xwsgi, w.xwsgi.doc, w.xwsgi.doc.wsdl11]
        if 'y' in need:
            shared += [w.yapp, w.yapp.in_protocol, w.yapp.out_protocol, w.yapp.interface, w.ywsgi]
        for o in shared:
            try:
                monitor_writes(sched, o)
            except TypeError:
                pass
    return w


_UPDATE_ORIG = []

def patch_update(sched):
    """DefaultAttrDict.update on an ALREADY PUBLISHED dictionary is a shared access"""
    from spyne.util import DefaultAttrDict
    if not _UPDATE_ORIG:
        _UPDATE_ORIG.append(DefaultAttrDict.update)
    orig = _UPDATE_ORIG[0]

    def update(self, d):
        ent = sched.published.get(id(self)) if sched.active else None
        if ent is not None and ent[2] is self and sched.me() is not None:
            sched.point('acc')
            sched.record(C_UPD1 if ent[1] == 0 else C_UPD2, ent[0])
            ent[1] += 1
        return orig(self, d)
    DefaultAttrDict.update = update

def unpatch_update():
    from spyne.util import DefaultAttrDict
    if _UPDATE_ORIG:
        DefaultAttrDict.update = _UPDATE_ORIG[0]


# ------------------------------------------------------------------ requests
URL_HOST = 'c12.example'

def soap(body_xml):
    return ('<?xml version="1.0" encoding="utf-8"?>'
            '<soap11env:Envelope xmlns:soap11env="http://schemas.xmlsoap.org/soap/envelope/" '
            'xmlns:tns="%s"><soap11env:Body>%s</soap11env:Body></soap11env:Envelope>' % (TNS, body_xml)).encode('utf8')

def req_body(r):
    """r: request descriptor (a JSON-able list) -> SOAP body bytes (or None for ?wsdl)"""
    kind = r[0]
    if kind == 'wsdl':
        return None
    if kind == 'echo':
        return soap('<tns:echo><tns:s>%s</tns:s><tns:n>%d</tns:n></tns:echo>' % (r[1], r[2]))
    if kind == 'add':
        return soap('<tns:add><tns:a>%d</tns:a><tns:b>%d</tns:b></tns:add>' % (r[1], r[2]))
    if kind == 'boom':
        return soap('<tns:boom><tns:code>%s</tns:code></tns:boom>' % r[1])
    if kind == 'box':
        return soap('<tns:box><tns:owner>%s</tns:owner><tns:n>%d</tns:n></tns:box>' % (r[1], r[2]))
    if kind == 'count':
        items = ''.join('<tns:Item><tns:name>i%d</tns:name><tns:qty>%d</tns:qty></tns:Item>' % (q, q) for q in r[2])
        return soap('<tns:count><tns:b><tns:owner>%s</tns:owner><tns:items>%s</tns:items></tns:b></tns:count>' % (r[1], items))
    if kind == 'tag':
        return soap('<tns:tag><tns:s>%s</tns:s></tns:tag>' % r[1])
    if kind == 'entity':       # an internal entity reference: stays in the tree, the validator raises
        return ('<?xml version="1.0" encoding="utf-8"?><!DOCTYPE e [<!ENTITY x "y">]>'
                '<soap11env:Envelope xmlns:soap11env="http://schemas.xmlsoap.org/soap/envelope/" xmlns:tns="%s">'
                '<soap11env:Body><tns:echo><tns:s>v%d&x;</tns:s><tns:n>1</tns:n></tns:echo></soap11env:Body>'
                '</soap11env:Envelope>' % (TNS, r[1])).encode('utf8')
    if kind == 'invalid':      # schema-invalid: unknown element bad<i> inside a known method
        return soap('<tns:echo><tns:bad%d>x</tns:bad%d></tns:echo>' % (r[1], r[1]))
    if kind == 'badint':       # schema-invalid: not an integer
        return soap('<tns:add><tns:a>bad%d</tns:a><tns:b>1</tns:b></tns:add>' % r[1])
    if kind == 'nomethod':
        return soap('<tns:nosuch%d/>' % r[1])
    if kind == 'garbage':
        return b'<not-xml %d' % r[1]
    # ---- JSON application
    if kind == 'jbox':
        return json.dumps({'jbox': {'owner': r[1], 'n': r[2]}}).encode('utf8')
    if kind == 'jsq':          # negative values fail soft validation (ge=0)
        return json.dumps({'jsq': {'a': r[1]}}).encode('utf8')
    if kind == 'jsum':
        return json.dumps({'jsum': {'b': {'owner': r[1], 'items': [{'name': 'i%d' % q, 'qty': q} for q in r[2]]}}}).encode('utf8')
    if kind == 'jbadtype':     # not an integer: Client.ValidationError naming THIS request's value
        return json.dumps({'jsq': {'a': 'bad%d' % r[1]}}).encode('utf8')
    if kind == 'jboom':
        return json.dumps({'jboom': {'code': r[1]}}).encode('utf8')
    if kind == 'jnomethod':
        return json.dumps({'jnosuch%d' % r[1]: {}}).encode('utf8')
    if kind == 'jgarbage':
        return b'{not-json %d' % r[1]
    if kind == 'jpar':         # r[3]: 'pos' = the object as a JSON array of its member values, 'dict' = as an object
        return json.dumps({'jpar': {'p': [r[1], r[2]] if r[3] == 'pos' else {'a': r[1], 'b': r[2]}}}).encode('utf8')
    if kind == 'jchi':
        return json.dumps({'jchi': {'p': [r[1], r[2], r[3]] if r[4] == 'pos' else
                                    {'a': r[1], 'b': r[2], 'c': r[3]}}}).encode('utf8')
    if kind == 'jtags':
        return json.dumps({'jtags': {'x': {'t': r[1]}}}).encode('utf8')
    # ---- soft-validation SOAP application
    if kind == 'xwsdl':
        return None
    if kind == 'ytags':
        return ('<?xml version="1.0" encoding="utf-8"?>'
                '<soap11env:Envelope xmlns:soap11env="http://schemas.xmlsoap.org/soap/envelope/" xmlns:y="%s">'
                '<soap11env:Body><y:ytags><y:x>%s</y:x></y:ytags></soap11env:Body></soap11env:Envelope>'
                % (TNS + '.y', ''.join('<y:t>%s</y:t>' % v for v in r[1]))).encode('utf8')
    if kind in ('xget', 'xpoly', 'xpar', 'xchi'):
        X, X2 = TNS + '.x', TNS + '.x2'
        if kind == 'xget':
            b = '<x:xget><x:s>%s</x:s></x:xget>' % r[1]
        elif kind == 'xpoly':
            b = '<x:xpoly><x:kind>%s</x:kind></x:xpoly>' % r[1]
        elif kind == 'xpar':
            b = '<x:xpar><x:p><x:a>%s</x:a><x:b>%d</x:b></x:p></x:xpar>' % (r[1], r[2])
        else:
            b = '<x:xchi><x:p><x:a>%s</x:a><x:b>%d</x:b><y:c>%s</y:c></x:p></x:xchi>' % (r[1], r[2], r[3])
        return ('<?xml version="1.0" encoding="utf-8"?>'
                '<soap11env:Envelope xmlns:soap11env="http://schemas.xmlsoap.org/soap/envelope/" '
                'xmlns:x="%s" xmlns:y="%s"><soap11env:Body>%s</soap11env:Body></soap11env:Envelope>'
                % (X, X2, b)).encode('utf8')
    raise ValueError(r)

def is_json(r):
    return r[0].startswith('j')

def needs(reqs):
    """which of the additional applications the requests address"""
    return ''.join(sorted(set(r[0][0] for r in reqs if r[0][0] in 'jxy' and r[0] not in ('jxy',))))

def is_soft(r):
    return r[0].startswith('x')

def call_wsgi(wsgi, r):
    """process one request in-process; returns (status, content-type, body bytes)"""
    if isinstance(wsgi, World):
        wsgi = wsgi.jwsgi if is_json(r) else wsgi.xwsgi if is_soft(r) else wsgi.ywsgi if r[0].startswith('y') else wsgi.wsgi
    body = req_body(r)
    env = {'SERVER_NAME': URL_HOST, 'SERVER_PORT': '80', 'wsgi.url_scheme': 'http', 'SCRIPT_NAME': '',
           'PATH_INFO': '/svc', 'HTTP_HOST': URL_HOST, 'wsgi.errors': io.StringIO(),
           'wsgi.multithread': True, 'wsgi.multiprocess': False, 'wsgi.run_once': False}
    if body is None:
        env.update({'REQUEST_METHOD': 'GET', 'QUERY_STRING': 'wsdl', 'wsgi.input': io.BytesIO(b'')})
    else:
        env.update({'REQUEST_METHOD': 'POST', 'QUERY_STRING': '',
                    'CONTENT_TYPE': 'application/json' if is_json(r) else 'text/xml; charset=utf-8',
                    'CONTENT_LENGTH': str(len(body)), 'wsgi.input': io.BytesIO(body)})
    got = {}

    def start_response(status, headers, exc_info=None):
        got['status'] = status
        got['ctype'] = dict((k.lower(), v) for k, v in headers).get('content-type')
        got['headers'] = sorted('%s: %s' % (k.lower(), v) for k, v in headers)
    it = wsgi(env, start_response)
    data = b''.join(it)
    if hasattr(it, 'close'):
        it.close()
    return (got.get('status'), got.get('ctype'), data, got.get('headers'))


def unit_body(w, sched, r):
    """thread body for a unit-level request descriptor"""
    kind = r[0]
    if kind == 'wsdl':
        def f():
            st, ct, data, hd = call_wsgi(w.wsgi, r)
            return ['wsdl', st, w.docid(data) if st.startswith('200') else -1, hashlib.md5(data).hexdigest(), hd,
                    MARKER in data]
        return f
    if kind == 'attrs':
        def f():
            out = []
            for k in r[1]:
                a = w.in_prot.get_cls_attrs(w.keys[k])
                sched.point('acc')
                v = w.encval(k, a)
                sched.record(C_USE, k, v)
                out.append(v)
            return ['vals', out]
        return f
    if kind == 'memo':
        def f():
            out = []
            for k in r[1]:
                out.append(enc_opt(w.memo(k)))
            return ['vals', out]
        return f
    if kind == 'sort':
        def f():
            out = []
            for k in r[1]:
                out.append(encsort(k, w.in_prot.sort_fields(w.skeys[k])))
            return ['vals', out]
        return f
    if kind == 'validate':
        from lxml import etree
        from spyne.error import Fault
        ok, i = r[1], r[2]
        if ok:
            xml = '<tns:echo xmlns:tns="%s"><tns:s>v%d</tns:s><tns:n>%d</tns:n></tns:echo>' % (TNS, i, i)
        else:
            xml = '<tns:echo xmlns:tns="%s"><tns:bad%d>x</tns:bad%d></tns:echo>' % (TNS, i, i)
        def f():
            payload = etree.fromstring(xml)
            try:
                w.in_prot.validate_document(payload)
                return ['valid']
            except Fault as e:
                fs = e.faultstring
                if isinstance(fs, bytes):
                    fs = fs.decode('ascii', 'replace')
                return ['fault', errid(str(fs))]
        return f
    if kind == 'validatex':     # an entity reference left in the tree: validate() raises XMLSchemaValidateError
        from lxml import etree
        from spyne.error import Fault
        xml = ('<!DOCTYPE e [<!ENTITY x "y">]><tns:echo xmlns:tns="%s"><tns:s>v%d&x;</tns:s><tns:n>1</tns:n></tns:echo>'
               % (TNS, r[1]))
        def f():
            payload = etree.fromstring(xml, parser=etree.XMLParser(resolve_entities=False))
            try:
                w.in_prot.validate_document(payload)
                return ['valid']
            except Fault as e:
                fs = e.faultstring
                if isinstance(fs, bytes):
                    fs = fs.decode('ascii', 'replace')
                return ['fault', errid(str(fs))]
        return f
    if kind in ('idle', 'prebuilt', 'failbuild'):
        return None
    # any other descriptor: a full WSGI request
    def f():
        st, ct, data, hd = call_wsgi(w, r)
        return ['http', st, ct, data.decode('utf8', 'replace'), hd]
    return f


# ------------------------------------------------------------------ sequential oracle
_ORACLE = {}

def oracle_docs():
    """document 0 = what the first sequential ?wsdl request builds; document 1 = what a second
    execution of build_interface_document on the same builder serialises"""
    if 'docs' not in _ORACLE:
        s = Sched(None)
        w = make_world(s, instrument=False)
        st, ct, d0, _h1 = call_wsgi(w.wsgi, ['wsdl'])
        st2, ct2, d0b, _h2 = call_wsgi(w.wsgi, ['wsdl'])
        w2 = make_world(s, instrument=False)
        st3, ct3, d0c, _h3 = call_wsgi(w2.wsgi, ['wsdl'])
        assert st.startswith('200') and d0 == d0b == d0c, 'sequential WSDL is not reproducible'
        w2.wsdl11.build_interface_document('http://%s/svc' % URL_HOST)
        d1 = w2.wsdl11.get_interface_document()
        _ORACLE['docs'] = (d0, d1)
    return _ORACLE['docs']

def alone(r):
    """the response the request gets when it is processed alone on a fresh application"""
    key = json.dumps(r)
    if key not in _ORACLE:
        s = Sched(None)
        w = make_world(s, instrument=False)
        kind = r[0]
        if kind == 'wsdl':
            st, ct, data, hd = call_wsgi(w.wsgi, r)
            res = ['wsdl', st, 0 if data == oracle_docs()[0] else 99, hashlib.md5(data).hexdigest(), hd, True]
        elif kind == 'attrs':
            def encval(k, attr):
                return 10 * k + (1 if attr.get('sub_name') == 'c' else 0) + (2 if attr.get('min_len') == 7 else 0)
            res = ['vals', [encval(k, w.in_prot.get_cls_attrs(w.keys[k])) for k in r[1]]]
        elif kind == 'memo':
            res = ['vals', [w.memo(k) for k in r[1]]]
        elif kind == 'sort':
            res = ['vals', [encsort(k, w.in_prot.sort_fields(w.skeys[k])) for k in r[1]]]
        else:
            w.encval = None
            res = unit_body(w, s, r)()
        _ORACLE[key] = res
    return _ORACLE[key]


# ------------------------------------------------------------------ one scheduled run
LINE_FUNCS_SHARED = [
    ('spyne/server/wsgi.py', 'handle_wsdl_request'), ('spyne/server/wsgi.py', '__call__'),
    ('spyne/interface/wsdl/wsdl11.py', 'get_interface_document'),
    ('spyne/interface/wsdl/wsdl11.py', 'build_interface_document'),
    ('spyne/protocol/_base.py', 'get_cls_attrs'), ('spyne/protocol/_base.py', 'sort_fields'),
    ('spyne/util/memo.py', '__call__'), ('spyne/util/cdict.py', '__getitem__'),
    ('spyne/protocol/xml.py', '__validate_lxml'), ('spyne/protocol/xml.py', '_XmlDocument__validate_lxml'),
]

def run_once(reqs, chooser, lines=None, monitor=True):
    """reqs: list of request descriptors (thread i runs reqs[i]).  Returns a dict."""
    d0, d1 = oracle_docs()
    pre = any(r[0] == 'prebuilt' for r in reqs)
    fail_at = ([r[1] for r in reqs if r[0] == 'failbuild'] or [None])[0]
    sched = Sched(chooser, line_funcs=lines)
    w = make_world(sched, monitor=monitor, pre=pre, need=needs(reqs), fail_at=fail_at)
    w.docnames = {hashlib.md5(d1).hexdigest(): 1, hashlib.md5(d0).hexdigest(): 0}   # equal bytes: document 0
    patch_update(sched)
    from spyne.util.memo import memoize
    saved_locks = [(m, m.lock) for m in memoize.registry if hasattr(m, 'lock')]
    for m, _ in saved_locks:
        m.lock = LockProxy(sched, 0, 0, reentrant=True, silent=True)
    try:
        bodies = {}
        for i, r in enumerate(reqs):
            b = unit_body(w, sched, r)
            if b is not None:
                bodies[i] = b
        results = sched.run(bodies)
    finally:
        unpatch_update()
        for m, lk in saved_locks:
            m.lock = lk
    return {'reqs': reqs, 'pre': pre, 'fail_at': fail_at, 'results': results, 'trace': list(sched.trace), 'decisions': sched.decisions,
            'builds': sched.builds, 'abort': sched.abort, 'writes': sorted(set(sched.shared_writes)),
            'diverged': getattr(chooser, 'diverged', False)}


# ------------------------------------------------------------------ exploration
def explore(check, reqs, lines, bound, budget, monitor=True):
    """iterative context bounding: every schedule with at most `bound` preemptions (a
    preemption = switching away from a thread that could have continued), as far as the
    budget goes; beyond the budget the frontier is sampled with check.rng.  Branch points AT a
    shared access, a lock operation, or the first line event after one (the shared state has
    just changed, or is just about to) are taken before the other line events.  A frontier
    entry is (decisions of the parent run, index, alternative thread, preemptions used): the
    prefix is only materialised when the entry is taken."""
    hot, cold = [(None, 0, None, 0)], []
    seen = set()
    n = 0
    while (hot or cold) and n < budget:
        frontier = hot if hot else cold
        if len(frontier) > 1 and n > 0:
            j = check.rng.randrange(len(frontier))
            frontier[j], frontier[-1] = frontier[-1], frontier[j]
        parent, i, alt, used = frontier.pop()
        prefix = [] if parent is None else parent[:i] + [alt]
        key = tuple(prefix)
        if key in seen:
            continue
        seen.add(key)
        r = run_once(reqs, Scripted(prefix), lines, monitor)
        r['lines'] = lines_name(lines)
        n += 1
        yield r
        dec = r['decisions']
        chosen = [d[1] for d in dec]
        h, c = [], []
        for i in range(len(prefix), len(dec)):
            en, ch, cur, kind = dec[i]
            if len(en) < 2:
                continue
            cost = 1 if cur in en else 0
            if used + cost > bound:
                continue
            is_hot = kind != 'line' or (i > 0 and dec[i - 1][3] != 'line' and dec[i - 1][1] == cur)
            for alt in en:
                if alt != ch:
                    (h if is_hot else c).append((chosen, i, alt, used + cost))
        if len(h) > MAX_BRANCH:             # very long runs: a seeded sample of the branch points
            h = check.rng.sample(h, MAX_BRANCH)
        if len(c) > MAX_BRANCH:
            c = check.rng.sample(c, MAX_BRANCH)
        hot.extend(h)
        cold.extend(c)

MAX_BRANCH = 400

def tidy():
    """between scenarios: every fresh world leaves its model classes behind in spyne's module-level cdict tables
    (they are never freed), and MethodContext.close() runs a full gc.collect() at most once a second - whose cost
    grows with the heap.  Moving what has survived so far to the permanent generation keeps that collection cheap
    without touching spyne."""
    import gc
    gc.collect()
    gc.freeze()

def lines_name(lines):
    return None if lines is None else ('ALL' if lines == 'ALL' else 'SHARED')

def lines_of(name):
    return None if name is None else ('ALL' if name == 'ALL' else LINE_FUNCS_SHARED)


# ------------------------------------------------------------------ oracle
# attribute writes to shared objects by request threads that are lazy, lock-guarded fills of
# the WSDL builder (everything build_interface_document / build_schema_nodes assigns)
ALLOWED_WRITES = {
    ('Wsdl11', '_Wsdl11__wsdl'), ('Wsdl11', 'root_elt'), ('Wsdl11', 'root_tree'), ('Wsdl11', 'schema_dict'),
    ('Wsdl11', 'url'), ('Wsdl11', 'service_elt'), ('Wsdl11', 'namespaces'), ('Wsdl11', 'complex_types'),
    ('Wsdl11', 'port_type_dict'), ('Wsdl11', 'binding_dict'), ('Wsdl11', 'service_elt_dict'),   # emptied by every build
    ('WsgiApplication', '_wsdl'),    # the un-instrumented applications: the lock-guarded lazy document itself
}

def req_kind(r):
    return r[0]

def canon_result(res):
    """thread result -> comparable value (None when the thread did not finish)"""
    if res is None or res[0] != 'ok':
        return None
    return res[1]

def judge(check, run):
    """the direct oracle on one scheduled run of the real code: exactly what C12 demands.
    Returns the list of failure keys."""
    reqs, results = run['reqs'], run['results']
    kinds = '+'.join(sorted(req_kind(r) for r in reqs))
    fails = []

    def fail(key, what, extra=None):
        rep = {'reqs': reqs, 'lines': run.get('lines'), 'decisions': [d[1] for d in run['decisions']],
               'n_switch_points': len(run['decisions']),
               'observed': {str(k): v for k, v in results.items()},
               'expected_alone': {str(i): alone(r) for i, r in enumerate(reqs) if r[0] not in ('idle', 'prebuilt', 'failbuild')},
               'builds': run['builds'], 'access_trace': run['trace'][:400]}
        if extra:
            rep.update(extra)
        check.fail(key, what, rep)
        fails.append(key)

    if run['abort']:
        if 'deadlock' in str(run['abort']):
            fail('C12|deadlock|%s' % kinds, 'threads dead-lock: %s' % run['abort'])
        else:
            check.mismatch('scheduler', 'run aborted: %s (requests %r)' % (run['abort'], reqs))
        return fails
    failing = run.get('fail_at')
    if run['builds'] > (2 if failing else 1):
        fail('C12|wsdl|built-%d-times' % run['builds'],
             'build_interface_document executed %d times for one WsgiApplication' % run['builds'])
    if run.get('pre') and run['builds'] > 0:
        fail('C12|wsdl|rebuilt-after-prebuild',
             'the WSDL had been built at start-up (wsgi_app.doc.wsdl11.build_interface_document(url)); a ?wsdl '
             'request built it again (%d more executions) on the already filled builder' % run['builds'])
    for i, r in enumerate(reqs):
        if r[0] in ('idle', 'prebuilt', 'failbuild'):
            continue
        res = results.get(i)
        exp = alone(r)
        if res is None or res[0] == 'abort':
            continue
        if res[0] == 'exc':
            fail('C12|%s|exception:%s' % (r[0], res[1]),
                 'request %r raised %s under concurrency (alone: %r): %s' % (r, res[1], exp, res[2][-300:]))
            continue
        got = res[1]
        if failing and r[0] == 'wsdl':
            # one requester ran the build that was made to fail: it answers 500; everybody else - in particular
            # the request that builds again on the same builder - must be served the whole document
            if got[1].startswith('500'):
                n500 = sum(1 for j, q in enumerate(reqs) if q[0] == 'wsdl' and results.get(j, (0,))[0] == 'ok'
                           and results[j][1][1].startswith('500'))
                if n500 > 1:
                    fail('C12|wsdl|more-than-one-500-after-one-failed-build',
                         '%d ?wsdl requesters answered 500 although only one build was made to fail' % n500)
                continue
            if got[:4] != exp[:4] or not got[5]:
                fail('C12|wsdl|document-after-failed-build-differs',
                     'the first build of the WSDL failed (%s the binding phase) and its requester got 500; ?wsdl '
                     'requester %d, served by a later build on the same builder, got status %s and %s instead of '
                     'the whole document of a never-failed application'
                     % ({'before': 'before', 'middle': 'in the middle of', 'after': 'after'}[failing], i, got[1],
                        'a different document (md5 %s)' % got[3]))
            continue
        if r[0] == 'sort':
            # independent of the implementation: the orders were assigned by the harness, so the list every
            # caller must get is known - all the fields the class has NOW, in the declared order
            ref = ['vals', [100 * k + k % 6 + (50 if k in STALE else 0) for k in r[1]]]
            if got != ref:
                fail('C12|sort|not-the-declared-order',
                     'sort_fields caller %d got %r; the fields the classes have now, in their declared order, are %r '
                     '(a list cached for an earlier field table, or a wrong order)' % (i, got, ref))
        if (r[0] == 'wsdl' and got[1].startswith('200') and not got[5]) or \
                (r[0] == 'xwsdl' and got[1].startswith('200') and MARKER.decode() not in got[3]):
            fail('C12|wsdl|published-before-document-built-handlers',
                 '?wsdl requester %d was served a document without the change made by the wsdl_document_built '
                 'handler: the document was published before it was complete' % i)
        if got != exp:
            if r[0] == 'wsdl':
                what = ('?wsdl requester %d received %s instead of the sequential document'
                        % (i, 'the document of a second build (no portType/service)' if got[2] == 1 else
                           'status %s / a different document (md5 %s)' % (got[1], got[3])))
                key = 'C12|wsdl|document-differs'
                if got[:4] == exp[:4]:
                    what = '?wsdl requester %d got the response headers %r; alone it gets %r' % (i, got[4], exp[4])
                    key = 'C12|wsdl|headers-differ'
            elif r[0] in ('validate', 'validatex'):
                what = ('schema validation fault of thread %d carries %s instead of its own error text (%r)'
                        % (i, "the text 'None'" if got == ['fault', -1] else 'another request\'s error text (%r)' % (got,), exp))
                key = 'C12|validate|fault-text-%s' % ('none' if got == ['fault', -1] else 'foreign' if got[0] == 'fault' else 'verdict')
            elif r[0] == 'attrs':
                what = 'get_cls_attrs caller %d observed attributes %r, alone it observes %r' % (i, got, exp)
                key = 'C12|attrs|incomplete-attributes'
            elif r[0] == 'memo':
                what = 'memoize caller %d got %r, alone it gets %r' % (i, got, exp)
                key = 'C12|memo|wrong-value'
            elif r[0] == 'sort':
                what = 'sort_fields caller %d got field orders %r, alone it gets %r' % (i, got, exp)
                key = 'C12|sort|wrong-order'
            else:
                what = ('request %r (thread %d, racing with %s) got status %r body %r; alone it gets status %r body %r'
                        % (r, i, kinds, got[1], got[3][:300], exp[1], exp[3][:300]))
                key = 'C12|http:%s|response-differs|%s' % (r[0], 'status' if got[1] != exp[1] else
                                                            'body' if got[3] != exp[3] else 'headers')
                if got[1:4] == exp[1:4]:
                    what = ('request %r (thread %d, racing with %s) got the response headers %r; alone it gets %r'
                            % (r, i, kinds, got[4], exp[4]))
            fail(key, what)
    for (tid, cls, attr) in run['writes']:
        if (cls, attr) not in ALLOWED_WRITES:
            fail('C12|shared-write|%s.%s' % (cls, attr),
                 'a request thread assigned %s.%s on an object shared by all threads (per-request data parked on '
                 'a shared object, or an unguarded lazy fill)' % (cls, attr), {'writer_thread': tid})
    return fails


# ------------------------------------------------------------------ correspondence cases
def coq_req(r):
    k = r[0]
    if k == 'wsdl':
        return 'RWsdl'
    if k == 'validate':
        return '(RValidate %s %s)' % (gbool(r[1]), gz(r[2]))
    if k == 'validatex':
        return '(RValidateX %s)' % gz(XERR)
    if k == 'attrs':
        return '(RAttrs %s)' % glist([gz(x) for x in r[1]])
    if k == 'memo':
        return '(RMemo %s)' % glist([gz(x) for x in r[1]])
    if k == 'sort':
        return '(RSort %s)' % glist([gz(x) for x in r[1]])
    return 'RIdle'

def coq_resp(r, res):
    v = canon_result(res)
    if v is None:
        return 'None'
    k = r[0]
    if k == 'wsdl':
        return '(Some (PWsdl %s))' % ('(Some %s)' % gz(v[2]) if v[1].startswith('200') else 'None')
    if k in ('validate', 'validatex'):
        if v[0] == 'valid':
            return '(Some PValid)'
        return '(Some (PFault %s))' % ('None' if v[1] == -1 else '(Some %s)' % gz(v[1]))
    if k in ('attrs', 'memo', 'sort'):
        return '(Some (PVals %s))' % glist([gz(x) for x in v[1]])
    return None

def coq_case(run):
    reqs = run['reqs']
    model_threads = set(i for i, r in enumerate(reqs) if coq_req(r) != 'RIdle')
    tr = [e for e in run['trace'] if e[0] in model_threads]
    res = []
    for i, r in enumerate(reqs):
        if i in model_threads:
            res.append('(%s, %s)' % (gz(i), coq_resp(r, run['results'].get(i))))
    return '(%s, %s, %s, %s, %s)' % (
        gbool(run.get('pre', False)), glist([coq_req(r) for r in reqs]),
        glist(['(%s, %s, %s, %s)' % tuple(gz(x) for x in e) for e in tr]),
        glist(res), gz(run['builds']))

IMPORTS = 'From SpyneV Require Import Base.Prelude C12.Model C12.Corr.'


# ------------------------------------------------------------------ scenarios
N_FIXED_UNIT = 16

def unit_scenarios(check, tier):
    rng = check.rng
    sc = [
        [['wsdl'], ['wsdl']],
        [['wsdl'], ['wsdl'], ['wsdl']],
        [['validate', False, 7], ['validate', True, 0]],
        [['validate', False, 7], ['validate', False, 8]],
        [['validate', False, 1], ['validate', True, 2], ['validate', False, 3]],
        [['attrs', [1]], ['attrs', [1]]],
        [['attrs', [1, 2, 1]], ['attrs', [2, 1]]],
        [['attrs', [3]], ['attrs', [3]], ['attrs', [3, 3]]],
        [['memo', [3, 3]], ['memo', [3]]],
        [['memo', [1, 2]], ['memo', [2, 1]], ['memo', [2]]],
        [['wsdl'], ['validate', False, 4], ['attrs', [1, 5]], ['memo', [2, 2]]],
        [['sort', [2, 2]], ['sort', [2]]],
        [['sort', [3, 4]], ['sort', [4, 3]], ['attrs', [3]]],
        [['validatex', 1], ['validate', False, 7]],
        [['validatex', 1], ['validate', True, 0], ['validatex', 2]],
        [['sort', [4, 0]], ['sort', [0, 4, 4]]],      # lists cached for an earlier field table
    ]
    n = 4 if tier == 'quick' else 40
    for _ in range(n):
        k = rng.randint(2, 4)
        s = []
        for _ in range(k):
            c = rng.random()
            if c < 0.3:
                s.append(['wsdl'])
            elif c < 0.5:
                s.append(['validate', rng.random() < 0.4, rng.randint(0, 9)])
            elif c < 0.55:
                s.append(['validatex', rng.randint(0, 9)])
            elif c < 0.75:
                s.append(['attrs', [rng.randrange(N_KEYS) for _ in range(rng.randint(1, 3))]])
            elif c < 0.88:
                s.append(['memo', [rng.randrange(4) for _ in range(rng.randint(1, 3))]])
            else:
                s.append(['sort', [rng.randrange(N_KEYS) for _ in range(rng.randint(1, 3))]])
        sc.append(s)
    return sc

def x_request(rng):
    """requests whose answer depends on lazily filled or class-keyed state: second-namespace and polymorphic
    responses around a ?wsdl of the same application, parameter types related by inheritance (XML, JSON object
    form and JSON positional form), repeated members with a list default"""
    c = rng.random()
    if c < 0.14:
        return ['xwsdl']
    if c < 0.28:
        return ['xget', rng.choice(['a', 'bb'])]
    if c < 0.4:
        return ['xpoly', rng.choice(['c', 'b'])]
    if c < 0.5:
        return ['xpar', rng.choice(['p', 'q']), rng.randint(0, 9)]
    if c < 0.6:
        return ['xchi', rng.choice(['p', 'q']), rng.randint(0, 9), rng.choice(['y', 'z'])]
    if c < 0.7:
        return ['jpar', rng.choice(['p', 'q']), rng.randint(0, 9), rng.choice(['pos', 'pos', 'dict'])]
    if c < 0.82:
        return ['jchi', rng.choice(['p', 'q']), rng.randint(0, 9), rng.choice(['y', 'z']), rng.choice(['pos', 'pos', 'dict'])]
    if c < 0.91:
        return ['jtags', [rng.choice(['a', 'b']) for _ in range(rng.randint(0, 2))]]
    return ['ytags', [rng.choice(['a', 'b']) for _ in range(rng.randint(0, 2))]]

def any_request(rng):
    c = rng.random()
    return http_request(rng) if c < 0.45 else json_request(rng) if c < 0.7 else x_request(rng)

# request histories: processed one after the other in EVERY order on one application (and interleaved, in the
# end-to-end pass), each response compared with the response of the same request on a fresh application
HISTORIES = [
    [['xget', 'a'], ['xwsdl'], ['xget', 'a']],
    [['xpoly', 'c'], ['xwsdl'], ['xpoly', 'b']],
    [['xpar', 'p', 1], ['xchi', 'q', 2, 'z']],
    [['jpar', 'p', 1, 'pos'], ['jchi', 'q', 2, 'z', 'pos']],
    [['jpar', 'p', 1, 'dict'], ['jchi', 'q', 2, 'z', 'pos'], ['jpar', 'r', 3, 'pos']],
    [['jtags', ['a']], ['jtags', ['a']], ['jtags', ['b']]],
    [['ytags', ['a']], ['ytags', ['a']]],
    [['prebuilt'], ['wsdl'], ['wsdl']],
    [['prebuilt'], ['wsdl'], ['echo', 'a', 1], ['wsdl']],
    [['failbuild', 'before'], ['wsdl'], ['wsdl']],
    [['failbuild', 'middle'], ['wsdl'], ['wsdl']],
    [['failbuild', 'after'], ['wsdl'], ['wsdl'], ['wsdl']],
    [['box', 'ann', 1], ['wsdl'], ['box', 'ann', 1]],
    [['count', 'ann', [1]], ['box', 'bob', 2], ['tag', 'p']],
    [['jbox', 'ann', 1], ['jsum', 'bob', [2]], ['jbox', 'ann', 1]],
]

def histories(check, tier):
    rng = check.rng
    sc = [list(h) for h in HISTORIES]
    for _ in range(4 if tier == 'quick' else 40):
        sc.append([any_request(rng) for _ in range(rng.randint(2, 4))])
    return sc

def orders(check, reqs):
    act = [i for i, r in enumerate(reqs) if r[0] not in ('idle', 'prebuilt', 'failbuild')]
    if len(act) <= 3:
        return [list(p) for p in itertools.permutations(act)]
    out = [act, act[::-1]]
    while len(out) < 8:
        p = act[:]
        check.rng.shuffle(p)
        if p not in out:
            out.append(p)
    return out

def json_request(rng):
    c = rng.random()
    if c < 0.3:
        return ['jbox', rng.choice(['ann', 'bob']), rng.randint(0, 3)]
    if c < 0.5:
        return ['jsq', rng.randint(-9, 9)]
    if c < 0.65:
        return ['jsum', rng.choice(['ann', 'bob']), [rng.randint(1, 9) for _ in range(rng.randint(0, 3))]]
    if c < 0.78:
        return ['jbadtype', rng.randint(0, 9)]
    if c < 0.9:
        return ['jboom', rng.choice(['A', 'B'])]
    if c < 0.96:
        return ['jnomethod', rng.randint(0, 9)]
    return ['jgarbage', rng.randint(0, 9)]

def http_request(rng):
    c = rng.random()
    if c < 0.2:
        return ['wsdl']
    if c < 0.35:
        return ['echo', rng.choice(['a', 'bb', 'x-y', 'zzz']), rng.randint(0, 99)]
    if c < 0.45:
        return ['add', rng.randint(-50, 50), rng.randint(0, 1000)]
    if c < 0.55:
        return ['boom', rng.choice(['A', 'B', 'C'])]
    if c < 0.6:
        return ['box', rng.choice(['ann', 'bob']), rng.randint(0, 3)]
    if c < 0.67:
        return ['tag', rng.choice(['p', 'qq', 'r-s'])]
    if c < 0.75:
        return ['count', rng.choice(['ann', 'bob']), [rng.randint(1, 9) for _ in range(rng.randint(0, 3))]]
    if c < 0.84:
        return ['invalid', rng.randint(0, 9)]
    if c < 0.87:
        return ['entity', rng.randint(0, 9)]
    if c < 0.93:
        return ['badint', rng.randint(0, 9)]
    if c < 0.97:
        return ['nomethod', rng.randint(0, 9)]
    return ['garbage', rng.randint(0, 9)]

def http_scenarios(check, tier):
    rng = check.rng
    sc = [
        [['wsdl'], ['echo', 'a', 1]],
        [['invalid', 1], ['echo', 'b', 2]],
        [['invalid', 1], ['invalid', 2]],
        [['box', 'ann', 2], ['count', 'bob', [1, 2]]],
        [['tag', 'p'], ['tag', 'qq']],
        [['tag', 'p'], ['tag', 'p'], ['echo', 'a', 1]],
        [['boom', 'A'], ['add', 1, 2], ['wsdl']],
        [['badint', 3], ['invalid', 4], ['echo', 'c', 3], ['wsdl']],
        [['entity', 1], ['invalid', 2], ['echo', 'a', 1]],
        [['jbox', 'ann', 2], ['jbox', 'bob', 1]],
        [['jsum', 'ann', [1, 2]], ['jsq', -3], ['jbadtype', 4]],
    ] + [list(h) for h in HISTORIES[:12]]
    n = 4 if tier == 'quick' else 40
    for i in range(n):
        k = rng.randint(2, 4)
        if i % 4 == 2:      # JSON application only
            sc.append([json_request(rng) for _ in range(k)])
        elif i % 4 == 3:    # all applications at once (they share the service-independent class-level state)
            sc.append([any_request(rng) for _ in range(k)])
        elif i % 4 == 1:    # class-keyed / lazily filled state
            sc.append([x_request(rng) for _ in range(k)])
        else:
            sc.append([http_request(rng) for _ in range(k)])
    return sc


# ------------------------------------------------------------------ the check
def handle(check, run, cases):
    fails = judge(check, run)
    tr = tuple(run['trace'])
    check.count((json.dumps(run['reqs']), tr))
    if not run['abort'] and not run.get('fail_at'):    # a failing build is outside the model
        cases.append((coq_case(run), 'reqs=%s lines=%s decisions=%s' % (
            json.dumps(run['reqs']), run.get('lines'), ''.join(str(d[1]) for d in run['decisions'])[:200])))
    return fails


def run(check):
    tier = check.tier
    quick = tier == 'quick'
    check.rule = ('one evaluation = one deterministic interleaving of 2..4 real threads on one fresh pair of applications '
                  '(SOAP 1.1 with lxml schema validation; JSON with soft validation), each behind its own WsgiApplication '
                  '(scheduler with one baton; switch points at every access to a modelled shared variable and, in the '
                  'line-level passes, at every line/return event of the shared-state functions or of all of spyne/); '
                  'systematic up to a preemption bound (iterative context bounding), then seeded random; requests mix '
                  '?wsdl fetches, distinct methods and arguments, faults raised by user code, schema / soft validation '
                  'failures, unknown methods and unparsable bodies, plus unit-level calls of get_cls_attrs, sort_fields, '
                  'a memoised function and validate_document; distinct by (requests, global sequence of shared accesses '
                  'with the values read and written)')
    check.trusted = list(lib.COMMON_TRUSTED) + [
        'the deterministic scheduler and the access hooks of harness/c12.py (attribute watchers installed by swapping '
        '__class__ of the WsgiApplication/Wsdl11 instances, recording dictionaries for _attrcache, _sortcache and '
        'memoize.memo, a proxy around the XMLSchema object, baton-aware lock proxies): they are trusted to report every '
        'access to the modelled shared variables in the order it happened',
        'harness/translate/conctext.py: what it accepts as a read / write / acquire / release / call of a modelled '
        'shared variable in the eight functions, and its claim that no other function of the module assigns them; it '
        'does not see aliasing, setattr/__dict__ writes or in-place mutation through other names',
        'CPython thread switching is modelled as: any interleaving of whole shared-variable accesses (finer than a '
        'source line; C extension calls such as lxml validate() and etree.tostring() are atomic steps)',
        'modelled, not verified: lxml XMLSchema.validate()/error_log, WeakKeyDictionary.get/__setitem__, dict '
        '__contains__/get/__setitem__ as atomic reads/writes; threading.Lock/RLock as mutual exclusion',
    ]
    check.assumptions = [
        'proved (Coq, all schedules, any number of threads): the repaired double-checked lock builds once and every '
        'requester gets the sequential document; _attrcache / _sortcache / memoize only ever hold and return the '
        'sequential value; a schema-validation fault carries its own error text; mutual exclusion, no dead-lock, a '
        'bounded number of steps per request, and hence every caller is served with its alone-response',
        'model scope: handle_wsdl_request + Wsdl11.get/build_interface_document (document identity abstracted to the '
        'number of earlier builds; the document is complete when __wsdl is assigned because that assignment is the '
        'last statement of the build - checked by the translator), ProtocolBase.get_cls_attrs, ProtocolBase.sort_fields '
        '(its value abstracted to a function of the class, which presupposes the complete attributes C12_attrs_transparent '
        'gives), memoize.__call__ (non re-entrant use), XmlDocument.__validate_lxml; cdict.__getitem__ has its access '
        'skeleton pinned by the translator (same lock-free check / compute-from-frozen-data / set shape as sort_fields) '
        'but no separate transition system; memoize_ignore_none / memoize_ignore / memoize_first and the rest of the '
        'request path are covered by the end-to-end oracle under the scheduler, not by a theorem',
        'that no other per-request datum is parked on a shared object is monitored (attribute writes to application, '
        'interface, protocol, transport and document-builder instances during scheduled runs, plus byte-for-byte '
        'comparison of status, headers and body with the alone-response), not proved; in-place mutation of dict / list '
        'valued attributes of shared objects other than the modelled caches is seen only through the responses',
        'a failing build_interface_document (wsdl_exception, HTTP 500) is not modelled',
        'validate() releases the GIL inside libxml2; interleavings inside C calls are out of reach of the scheduler '
        '(the repaired code holds a lock across validate()+error_log, which covers them; the pinned code does not); '
        'the lock belongs to the protocol instance: two protocol instances validating against the same Application '
        'share the XMLSchema object but not the lock (not reachable from one WsgiApplication, whose requests all use '
        'app.in_protocol)',
        'the URL of all concurrent ?wsdl requests is the same (the document embeds the URL of the first requester)',
    ]
    phase_t = {}
    t_last = [time.time()]

    def phase(name):
        now = time.time()
        phase_t[name] = round(phase_t.get(name, 0) + now - t_last[0], 1)
        t_last[0] = now

    check.regen(['conctext'])
    check.check_sources()
    check.prove('Props.C12', THEOREMS)

    oracle_docs()
    phase('prove')
    cases = []
    stats = {'runs': 0, 'access_level': 0, 'line_level': 0, 'http': 0, 'random_all_lines': 0, 'witness': 0,
             'max_switch_points': 0, 'threads': {}}

    def account(r, bucket):
        stats['runs'] += 1
        stats[bucket] += 1
        stats['max_switch_points'] = max(stats['max_switch_points'], len(r['decisions']))
        n = len(r['reqs'])
        stats['threads'][n] = stats['threads'].get(n, 0) + 1

    # 0. witnesses of the _refuted theorems, replayed as access-level schedules (must NOT
    #    reproduce on the tree under test)
    witnesses = [
        ([['wsdl'], ['wsdl']], [0] * 7 + [1, 1] + [0] * 4 + [1] * 12),
        ([['wsdl'], ['wsdl']], [0] * 6 + [1, 1] + [0] * 5 + [1] * 12),
        ([['wsdl'], ['wsdl']], [0] * 5 + [1, 1] + [0] * 6 + [1] * 12),
        ([['attrs', [1]], ['attrs', [1]]], [0, 0, 1, 1, 0, 0, 0]),
        ([['attrs', [1]], ['attrs', [1]]], [0, 0, 0, 1, 1, 0, 0]),
        ([['validate', False, 7], ['validate', True, 0]], [0, 1, 0, 0]),
        ([['validate', False, 7], ['validate', False, 8]], [0, 1, 1, 0]),
        ([['validate', False, 7], ['validate', True, 0]], [0, 0, 1, 0]),
        ([['validate', False, 7], ['validate', False, 8]], [0, 0, 1, 1, 0]),
    ]
    for reqs, script in witnesses:
        r = run_once(reqs, AccessScript(script))
        r['lines'] = None
        account(r, 'witness')
        handle(check, r, cases)
        check.sample({'witness_schedule': script, 'requests': reqs,
                      'results': {str(k): canon_result(v) for k, v in r['results'].items()}, 'builds': r['builds']})

    phase('witnesses')
    # 1. access-level systematic exploration of the model-tied scenarios
    for reqs in unit_scenarios(check, tier):
        bound = 2 if len(reqs) <= 2 else 1
        if not quick:
            bound += 1
        budget = (160 if len(reqs) <= 2 else 80) if quick else (800 if len(reqs) <= 2 else 500)
        for r in explore(check, reqs, None, bound, budget):
            account(r, 'access_level')
            handle(check, r, cases)
        tidy()

    phase('access_level')
    # 2. line-granularity exploration (sys.settrace line+return events inside the shared-state code)
    for reqs in unit_scenarios(check, tier)[:N_FIXED_UNIT]:
        budget = 40 if quick else 600
        for r in explore(check, reqs, LINE_FUNCS_SHARED, 1 if quick else 2, budget):
            account(r, 'line_level')
            handle(check, r, cases)
        tidy()

    phase('line_level')
    # 2b. request histories: no interleaving, every order (a response must not depend on what the application
    #     has processed before)
    stats['sequential'] = 0
    for reqs in histories(check, tier):
        for order in orders(check, reqs):
            r = run_once(reqs, OrderChooser(order), None)
            r['lines'] = None
            account(r, 'sequential')
            handle(check, r, cases)
        tidy()
    phase('sequential')
    # 3. end-to-end WSGI requests (SOAP calls, faults, validation failures, ?wsdl) at line granularity
    for reqs in http_scenarios(check, tier):
        budget = 18 if quick else 120
        for r in explore(check, reqs, LINE_FUNCS_SHARED, 1 if quick else 2, budget):
            account(r, 'http')
            handle(check, r, cases)
        # randomized stress: switch points at EVERY line of every spyne/ function
        for _ in range(4 if quick else 30):
            r = run_once(reqs, RandomChooser(check.rng, check.rng.choice([0.002, 0.01, 0.05])), 'ALL')
            r['lines'] = 'ALL'
            account(r, 'random_all_lines')
            handle(check, r, cases)
        tidy()

    phase('http')
    lib.correspond(check, 'schedules', IMPORTS, 'case', '(corr_ok Repaired)', cases,
                   show='(corr_show Repaired)', shard=150)
    lib.flush_correspondences(check)
    phase('coq_cases')
    stats['seconds'] = phase_t
    check.extra['exploration'] = stats
    return check.finish()


def replay(check, path):
    rep = json.load(open(path))
    print(json.dumps({k: rep[k] for k in ('property', 'key', 'what')}, indent=1))
    r = rep.get('replay', {})
    if 'reqs' not in r:
        print(json.dumps(r, indent=1)[:3000])
        return 0
    oracle_docs()
    if r.get('lines') == 'ALL':
        print('note: recorded under randomized all-lines stress; replaying the recorded decisions')
    run = run_once(r['reqs'], Scripted(r['decisions']), lines_of(r.get('lines')))
    run['lines'] = r.get('lines')
    fails = judge(check, run)
    print('observed now :', json.dumps({str(k): canon_result(v) for k, v in run['results'].items()})[:2000])
    print('alone        :', json.dumps({str(i): alone(q) for i, q in enumerate(r['reqs'])})[:2000])
    print('builds       :', run['builds'])
    print('REPRODUCED' if rep['key'] in fails else 'not reproduced (failures now: %r)' % fails)
    return 1 if rep['key'] in fails else 0
