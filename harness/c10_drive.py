"""C10 — driving the real implementation: the services under test, the two entry
points (ServerBase and WsgiApplication), and the observation of one request.

Kept apart from c10.py so that the replay command and the generators share it."""
import sys, traceback, json
from io import BytesIO

TNS = 'tns'
S11 = 'http://schemas.xmlsoap.org/soap/envelope/'
S12 = 'http://www.w3.org/2003/05/soap-envelope'
XSI = 'http://www.w3.org/2001/XMLSchema-instance'

PROTOCOLS = ('xml', 'soap11', 'soap12', 'json', 'yaml', 'msgpack', 'mprpc', 'http')
XML_FAMILY = ('xml', 'soap11', 'soap12')
DICT_FAMILY = ('json', 'yaml', 'msgpack')


# input protocol > output protocol: a fault that echoes request content must be writable in the
# OUTPUT protocol whatever the input protocol let through
CROSS = ('json>xml', 'json>soap11', 'json>soap12', 'msgpack>xml', 'yaml>soap11')


def in_proto(proto):
    return proto.split('>')[0]


def validators(proto):
    proto = in_proto(proto)
    if proto in XML_FAMILY:
        return (None, 'soft', 'lxml')
    return (None, 'soft')


class Services(object):
    """The applications under test.  `rich`: every primitive family, nesting, arrays, repeated
    members, attributes, enumerations, a subclass (the direct oracle's service).  `model`: the
    universe the Coq model covers (c10_universe.MODEL_DESC rendered as Spyne classes)."""

    def __init__(self):
        self.calls = []
        self._apps = {}
        self._wsgi = {}
        self._svc = {}

    def service(self, which):
        if which not in self._svc:
            import c10_universe
            desc = c10_universe.RICH_DESC if which == 'rich' else c10_universe.MODEL_DESC
            self._svc[which] = c10_universe.build_service(desc, self.calls)
        return self._svc[which]

    def app(self, which, proto, validator):
        from spyne import Application
        from spyne.protocol.xml import XmlDocument
        from spyne.protocol.soap import Soap11, Soap12
        from spyne.protocol.json import JsonDocument
        from spyne.protocol.yaml import YamlDocument
        from spyne.protocol.msgpack import MessagePackDocument, MessagePackRpc
        from spyne.protocol.http import HttpRpc
        key = (which, proto, validator)
        if key not in self._apps:
            P = {'xml': XmlDocument, 'soap11': Soap11, 'soap12': Soap12, 'json': JsonDocument, 'yaml': YamlDocument,
                 'msgpack': MessagePackDocument, 'mprpc': MessagePackRpc, 'http': HttpRpc}
            outp = {'xml': XmlDocument, 'soap11': Soap11, 'soap12': Soap12, 'yaml': YamlDocument,
                    'msgpack': MessagePackDocument, 'mprpc': MessagePackRpc}.get(out_family(proto), JsonDocument)()
            self._apps[key] = Application([self.service(which)], TNS, in_protocol=P[in_proto(proto)](validator=validator),
                                          out_protocol=outp)
        return self._apps[key]

    def wsgi_app(self, which, proto, validator):
        from spyne.server.wsgi import WsgiApplication
        key = (which, proto, validator)
        if key not in self._wsgi:
            self._wsgi[key] = WsgiApplication(self.app(which, proto, validator))
        return self._wsgi[key]


def crash_site(e):
    """(exception class name, 'file:function' of the innermost spyne frame) — no line numbers"""
    tb = traceback.extract_tb(e.__traceback__)
    site = [f for f in tb if '/spyne/' in f.filename]
    s = site[-1] if site else tb[-1]
    fn = s.filename.split('/spyne/')[-1] if '/spyne/' in s.filename else s.filename.split('/')[-1]
    return type(e).__name__, '%s:%s' % (fn, s.name)


def mro_names(e):
    return [c.__name__ for c in type(e).__mro__]


class Obs(object):
    """what one request did"""
    __slots__ = ('kind', 'code', 'exc', 'site', 'called', 'status', 'body', 'stage', 'faultstring', 'fcls', 'mro')

    def __init__(self, kind, code=None, exc=None, site=None, called=(), status=None, body=b'', stage=None, faultstring=None,
                 fcls=None, mro=None):
        self.fcls = fcls          # class name of the fault object (ServerBase path)
        self.mro = mro            # qualified class names of an escaped exception
        self.kind = kind          # 'ok' | 'fault' | 'crash'
        self.code = code          # fault code
        self.exc = exc            # exception class name
        self.site = site
        self.called = list(called)
        self.status = status
        self.body = body
        self.stage = stage
        self.faultstring = faultstring

    def short(self):
        if self.kind == 'ok':
            return 'ok called=%s%s' % (self.called, ' status=%s' % self.status if self.status else '')
        if self.kind == 'fault':
            return 'fault %s called=%s%s' % (self.code, self.called, ' status=%s' % self.status if self.status else '')
        return 'crash %s at %s (stage %s)' % (self.exc, self.site, self.stage)


def drive_server(sv, which, proto, validator, body):
    """the four ServerBase steps, as a transport does them"""
    from spyne.server import ServerBase
    from spyne.context import MethodContext
    del sv.calls[:]
    stage = 'generate_contexts'
    try:
        srv = ServerBase(sv.app(which, proto, validator))
        ctx = MethodContext(srv, MethodContext.SERVER)
        ctx.in_string = [body]
        ctx, = srv.generate_contexts(ctx)[:1]
        if not ctx.in_error:
            stage = 'get_in_object'
            srv.get_in_object(ctx)
        if not ctx.in_error:
            stage = 'get_out_object'
            srv.get_out_object(ctx)
        stage = 'get_out_string'
        srv.get_out_string(ctx)
        out = b''.join(ctx.out_string)
        err = ctx.in_error or ctx.out_error
        if err:
            return Obs('fault', code=getattr(err, 'faultcode', None), called=sv.calls, body=out,
                       faultstring=str(getattr(err, 'faultstring', ''))[:200],
                       fcls='%s.%s' % (type(err).__module__, type(err).__qualname__))
        return Obs('ok', called=sv.calls, body=out)
    except Exception as e:
        exc, site = crash_site(e)
        return Obs('crash', exc=exc, site=site, called=sv.calls, stage=stage,
                   mro=['%s.%s' % (c.__module__, c.__qualname__) for c in type(e).__mro__])


def drive_wsgi(sv, which, proto, validator, body, method='POST', ctype='', path='/', qs='', extra=None, clen=True):
    del sv.calls[:]
    if ctype == '':
        ctype = {'xml': 'text/xml; charset=utf-8', 'soap11': 'text/xml; charset=utf-8',
                 'soap12': 'application/soap+xml; charset=utf-8', 'json': 'application/json',
                 'yaml': 'text/yaml', 'msgpack': 'application/x-msgpack', 'mprpc': 'application/x-msgpack',
                 'http': None}[in_proto(proto)]
    env = {'REQUEST_METHOD': method, 'PATH_INFO': path, 'QUERY_STRING': qs, 'SERVER_NAME': 'x', 'SERVER_PORT': '80',
           'wsgi.url_scheme': 'http', 'wsgi.input': BytesIO(body), 'SCRIPT_NAME': ''}
    if ctype is not None:
        env['CONTENT_TYPE'] = ctype
    if clen:
        env['CONTENT_LENGTH'] = str(len(body))
    if extra:
        env.update(extra)
    st = []
    try:
        w = sv.wsgi_app(which, proto, validator)
        it = w(env, lambda s, h, e=None: st.append((s, h)))
        try:
            out = b''.join(it)
        finally:
            if hasattr(it, 'close'):
                it.close()
    except Exception as e:
        exc, site = crash_site(e)
        return Obs('crash', exc=exc, site=site, called=sv.calls, stage='wsgi', status=st[0][0] if st else None,
                   mro=['%s.%s' % (c.__module__, c.__qualname__) for c in type(e).__mro__])
    status = st[0][0] if st else None
    if status is None:
        return Obs('crash', exc='NoStartResponse', site='response', called=sv.calls, stage='response')
    code, fs = fault_of_response(proto, out)       # raises if the answer is not a document of the protocol
    if code is not None:
        return Obs('fault', code=code, called=sv.calls, status=status, body=out, faultstring=fs)
    return Obs('ok', called=sv.calls, status=status, body=out)


def out_family(proto):
    if '>' in proto:
        proto = proto.split('>')[1]
    return proto if proto in ('xml', 'soap11', 'soap12', 'yaml', 'msgpack', 'mprpc') else 'json'


def fault_of_response(proto, out):
    """(fault code, fault string) carried by a response document of the output protocol, or
    (None, None) for a normal response; raises ValueError if the response is not a document of
    the output protocol at all"""
    fam = out_family(proto)
    if fam in ('xml', 'soap11', 'soap12'):
        from lxml import etree
        root = etree.fromstring(out)
        if fam == 'xml':
            if root.tag == '{%s}Fault' % S11:
                fc = root.find('faultcode')
                fs = root.find('faultstring')
                code = fc.text if fc is not None else ''
                return code.split(':', 1)[-1], (fs.text if fs is not None else None)
            return None, None
        ns = S11 if fam == 'soap11' else S12
        if root.tag != '{%s}Envelope' % ns:
            raise ValueError('response is not a SOAP envelope')
        body = root.find('{%s}Body' % ns)
        if body is None or len(body) == 0:
            raise ValueError('SOAP response without a body element')
        fe = body[0]
        if fe.tag != '{%s}Fault' % ns:
            return None, None
        if fam == 'soap11':
            fc = fe.find('faultcode')
            fs = fe.find('faultstring')
            return fc.text.split(':', 1)[-1], (fs.text if fs is not None else None)
        vals = [v.text.split(':', 1)[-1] for v in fe.iter('{%s}Value' % ns)]
        if vals and vals[0] == 'Sender':
            vals[0] = 'Client'
        elif vals and vals[0] == 'Receiver':
            vals[0] = 'Server'
        txt = fe.find('{%s}Reason/{%s}Text' % (ns, ns))
        return '.'.join(vals), (txt.text if txt is not None else None)
    if fam == 'json':
        if not out:
            return None, None
        d = json.loads(out.decode('utf8'))
    elif fam == 'yaml':
        import yaml
        d = yaml.safe_load(out.decode('utf8'))
    elif fam == 'msgpack':
        import msgpack
        d = msgpack.unpackb(out, raw=False)
    else:
        import msgpack
        d = msgpack.unpackb(out, raw=False)
        if isinstance(d, (list, tuple)) and len(d) >= 3 and d[0] == 3:
            d = d[2]
        else:
            return None, None
    if isinstance(d, (list, tuple)) and len(d) == 1 and isinstance(d[0], dict) and 'faultcode' in d[0]:
        d = d[0]
    if isinstance(d, dict) and 'faultcode' in d:
        return d['faultcode'], d.get('faultstring')
    if isinstance(d, dict) and len(d) == 1:
        (k, v), = d.items()
        if isinstance(v, dict) and 'faultcode' in v:
            return v['faultcode'], v.get('faultstring')
    return None, None


def is_client(code):
    return isinstance(code, str) and (code == 'Client' or code.startswith('Client.'))


def judge(proto, obs, transport):
    """the property, on one observation.  Returns None if it holds, else (kind, detail):
      crash          an exception escaped the entry point
      server-fault   answered with a fault outside the Client family
      called+fault   the user function ran although the request was answered with a fault
      status         HTTP status not 4xx for a client fault over a non-SOAP protocol / not 200 for a response
      response       the response is not a well-formed document of the output protocol"""
    if obs.kind == 'crash':
        return ('crash', '%s|%s' % (obs.exc, obs.site))
    if obs.kind == 'fault':
        if not is_client(obs.code):
            return ('server-fault', '%s' % (obs.code,))
        if obs.called:
            return ('called+fault', ','.join(obs.called))
        if transport == 'wsgi':
            st = (obs.status or '')[:3]
            if out_family(proto) in ('soap11', 'soap12'):
                if st not in ('500', '400', '404', '405', '413'):
                    return ('status', '%s for %s' % (obs.status, obs.code))
            elif not st.startswith('4'):
                return ('status', '%s for %s' % (obs.status, obs.code))
        return None
    if transport == 'wsgi' and not (obs.status or '').startswith('200'):
        return ('status', '%s for a normal response' % obs.status)
    return None


def observe(sv, which, req):
    """req: dict(protocol, validator, transport, body(bytes), + wsgi keys)"""
    p, v = req['protocol'], req.get('validator')
    if req.get('transport', 'server') == 'server':
        obs = drive_server(sv, which, p, v, req['body'])
        if obs.kind != 'crash':
            try:
                code, _ = fault_of_response(p, obs.body)
                if obs.kind == 'fault' and code is None:
                    obs = Obs('crash', exc='NotAFaultDocument', site='response', called=obs.called, stage='response')
                elif obs.kind == 'fault' and code != obs.code and out_family(p) != 'soap12':
                    pass
            except Exception as e:
                obs = Obs('crash', exc='MalformedResponse:' + type(e).__name__, site='response', called=obs.called,
                          stage='response')
        return obs
    try:
        return drive_wsgi(sv, which, p, v, req['body'], method=req.get('method', 'POST'), ctype=req.get('ctype', ''),
                          path=req.get('path', '/'), qs=req.get('qs', ''), extra=req.get('extra'),
                          clen=req.get('clen', True))
    except Exception as e:      # fault_of_response could not read the answer
        return Obs('crash', exc='MalformedResponse:' + type(e).__name__, site='response', stage='response')
