"""Shared generator of type universes for the wire-level checks.

A universe is described once (plain dicts) and rendered twice: as real Spyne
ComplexModel classes (build_spyne) and as a Gallina term of type
Wire.Universe.universe (g_universe).  Values are generated in a neutral form
(('none',) | ('int', z) | ('text', s) | ('bool', b) | ('obj', cid, [vals]) |
('list', [vals])) and rendered as Spyne objects (to_native) and Gallina terms
(g_val); native values captured from the implementation are mapped back with
from_native.  Every random choice comes from the rng passed in.

Description format:
  desc = {'classes': [ {'ns': str, 'name': str, 'parent': int|None,
                        'fields': [ {'name': str, 'ty': TY, 'min': int, 'max': int|None,
                                     'nillable': bool, 'kind': 'elem'|'attr'} ]} ]}
  TY = ('prim', 'int'|'text'|'bool') | ('ref', cid) | ('arr', TY)
"""
from lib import gz, gtext, glist, gbool, gopt

PRIMS = ('int', 'text', 'bool')
G_PRIM = {'int': 'PInt', 'text': 'PText', 'bool': 'PBool'}

TEXT_POOL = ['', 'a', 'hello', 'x y', ' lead', 'trail ', '<&>"\'', 'ünï', '中文', '0', 'true', 'None', 'a\nb', '\U0001f600']
INT_POOL = [0, 1, -1, 7, 255, -128, 2 ** 31, -2 ** 31, 2 ** 63, 2 ** 63 - 1, -2 ** 63, 2 ** 64, 10 ** 30, -10 ** 30]


# ------------------------------------------------------------------ generation
def gen_universe(rng, n_classes=4, max_fields=4, namespaces=('urn:t',), allow_attr=True, allow_arrays=True,
                 allow_inherit=True, allow_multi=True, name_prefix='K'):
    classes = []
    for i in range(n_classes):
        parent = None
        if allow_inherit and i > 0 and rng.random() < 0.35:
            parent = rng.randrange(i)
        ns = classes[parent]['ns'] if parent is not None else rng.choice(namespaces)
        taken = set()
        p = parent
        while p is not None:
            taken.update(f['name'] for f in classes[p]['fields'])
            p = classes[p]['parent']
        fields = []
        for j in range(rng.randint(1, max_fields)):
            name = 'f%d_%d' % (i, j)
            r = rng.random()
            if r < 0.55 or i == 0:
                ty = ('prim', rng.choice(PRIMS))
            else:
                ty = ('ref', rng.randrange(i))
            kind = 'elem'
            mn, mx, nil = rng.choice([0, 0, 1]), 1, rng.random() < 0.6
            if allow_attr and ty[0] == 'prim' and rng.random() < 0.12:
                kind = 'attr'
            elif allow_arrays and rng.random() < 0.2:
                ty = ('arr', ty)
            elif allow_multi and rng.random() < 0.2:
                mx = rng.choice([None, 2, 3])
            fields.append({'name': name, 'ty': ty, 'min': mn, 'max': mx, 'nillable': nil, 'kind': kind})
        classes.append({'ns': ns, 'name': '%s%d' % (name_prefix, i), 'parent': parent, 'fields': fields})
    return {'classes': classes}


def flat_fields(desc, cid):
    c = desc['classes'][cid]
    base = flat_fields(desc, c['parent']) if c['parent'] is not None else []
    return base + c['fields']


def subclasses(desc, cid):
    out = []
    for i, c in enumerate(desc['classes']):
        p = i
        while p is not None:
            if p == cid:
                out.append(i)
                break
            p = desc['classes'][p]['parent']
    return out


def gen_leaf(rng, p):
    if p == 'int':
        return ('int', rng.choice(INT_POOL + [rng.randint(-10 ** 6, 10 ** 6)]))
    if p == 'bool':
        return ('bool', rng.random() < 0.5)
    return ('text', rng.choice(TEXT_POOL + [''.join(rng.choice('abc XYZ09') for _ in range(rng.randint(1, 8)))]))


def gen_value(rng, desc, ty, depth=3, poly=False, none_p=0.2):
    """a value conforming to declared type ty (may be None)"""
    if rng.random() < none_p:
        return ('none',)
    if ty[0] == 'prim':
        return gen_leaf(rng, ty[1])
    if ty[0] == 'arr':
        if depth <= 0:
            return ('list', [])
        return ('list', [gen_value(rng, desc, ty[1], depth - 1, poly, 0.0) for _ in range(rng.randint(0, 3))])
    cid = ty[1]
    if poly:
        cid = rng.choice(subclasses(desc, cid))
    if depth <= 0:
        return ('none',)
    vals = []
    for f in flat_fields(desc, cid):
        vals.append(gen_field_value(rng, desc, f, depth - 1, poly))
    return ('obj', cid, vals)


def gen_field_value(rng, desc, f, depth, poly=False):
    multi = f['max'] is None or f['max'] > 1
    if multi:
        if rng.random() < 0.25 and f['min'] == 0:
            return ('none',)
        hi = 3 if f['max'] is None else f['max']
        n = rng.randint(max(f['min'], 0 if f['min'] == 0 else f['min']), max(hi, f['min']))
        return ('list', [gen_value(rng, desc, f['ty'], depth, poly, 0.0) for _ in range(n)])
    none_p = 0.0 if (f['min'] >= 1 and not f['nillable']) else 0.25
    v = gen_value(rng, desc, f['ty'], depth, poly, none_p)
    if v == ('none',) and f['min'] >= 1 and not f['nillable']:
        v = gen_value(rng, desc, f['ty'], max(depth, 1), poly, 0.0)
    return v


# ------------------------------------------------------------------ Spyne rendering
def build_spyne(desc):
    """returns the list of real Spyne classes (index = cid)"""
    from spyne.model.complex import ComplexModel, ComplexModelMeta, Array, XmlAttribute
    from spyne.model.primitive import Integer, Unicode, Boolean
    prim = {'int': Integer, 'text': Unicode, 'bool': Boolean}
    out = []

    def ty_of(ty):
        if ty[0] == 'prim':
            return prim[ty[1]]
        if ty[0] == 'ref':
            return out[ty[1]]
        return Array(ty_of(ty[1]))

    for c in desc['classes']:
        ti = []
        for f in c['fields']:
            t = ty_of(f['ty'])
            kw = {'min_occurs': f['min'], 'nillable': f['nillable']}
            if f['max'] != 1:
                kw['max_occurs'] = 'unbounded' if f['max'] is None else f['max']
            if f['kind'] == 'attr':
                t = XmlAttribute(t.customize(**kw) if kw != {'min_occurs': 0, 'nillable': True} else t)
            else:
                t = t.customize(**kw)
            ti.append((f['name'], t))
        base = ComplexModel if c['parent'] is None else out[c['parent']]
        out.append(ComplexModelMeta(c['name'], (base,), {'__namespace__': c['ns'], '_type_info': ti}))
    return out


def to_native(desc, classes, v):
    k = v[0]
    if k == 'none':
        return None
    if k in ('int', 'text', 'bool'):
        return v[1]
    if k == 'list':
        return [to_native(desc, classes, x) for x in v[1]]
    cid = v[1]
    kw = {}
    for f, x in zip(flat_fields(desc, cid), v[2]):
        kw[f['name']] = to_native(desc, classes, x)
    return classes[cid](**kw)


def from_native(desc, classes, o):
    """native Spyne value -> neutral form (runtime classes are looked up by identity of the
    generated classes or their customised variants via __orig__)"""
    if o is None:
        return ('none',)
    if isinstance(o, bool):
        return ('bool', o)
    if isinstance(o, int):
        return ('int', o)
    if isinstance(o, str):
        return ('text', o)
    if isinstance(o, bytes):
        return ('other', 'bytes', repr(o))
    if isinstance(o, (list, tuple)):
        return ('list', [from_native(desc, classes, x) for x in o])
    if hasattr(o, '__iter__') and not hasattr(o, '_type_info'):
        return ('list', [from_native(desc, classes, x) for x in o])
    cls = type(o)
    cid = None
    for i, c in enumerate(classes):
        k = cls
        while k is not None:
            if k is c:
                cid = i
                break
            k = getattr(k, '__orig__', None)
        if cid is not None:
            break
    if cid is None:
        return ('other', cls.__name__, repr(o)[:80])
    vals = [from_native(desc, classes, getattr(o, f['name'], None)) for f in flat_fields(desc, cid)]
    return ('obj', cid, vals)


def norm_value(v):
    """the identifications every wire form makes: an empty unwrapped/wrapped sequence is not
    distinguished from None by some protocols — callers decide; this one only canonicalises tuples"""
    return v


# ------------------------------------------------------------------ Gallina rendering
def g_ty(ty):
    if ty[0] == 'prim':
        return '(TPrim %s)' % G_PRIM[ty[1]]
    if ty[0] == 'ref':
        return '(TRef %d%%nat)' % ty[1]
    return '(TArr %s)' % g_ty(ty[1])


def g_field(f):
    return '(mkfield %s %s %s %s %s %s)' % (gtext(f['name']), g_ty(f['ty']), gz(f['min']), gopt(f['max'], gz),
                                            gbool(f['nillable']), 'KAttr' if f['kind'] == 'attr' else 'KElem')


def g_universe(desc):
    rows = []
    for c in desc['classes']:
        rows.append('(mkcls %s %s %s %s)' % (gtext(c['ns']), gtext(c['name']),
                                             gopt(c['parent'], lambda p: '%d%%nat' % p),
                                             glist([g_field(f) for f in c['fields']])))
    return glist(rows)


def g_val(v):
    k = v[0]
    if k == 'none':
        return 'VNone'
    if k == 'int':
        return '(VLeaf (LInt %s))' % gz(v[1])
    if k == 'text':
        return '(VLeaf (LText %s))' % gtext(v[1])
    if k == 'bool':
        return '(VLeaf (LBool %s))' % gbool(v[1])
    if k == 'list':
        return '(VList %s)' % glist([g_val(x) for x in v[1]])
    if k == 'obj':
        return '(VObj %d%%nat %s)' % (v[1], glist([g_val(x) for x in v[2]]))
    raise ValueError('value outside the modelled universe: %r' % (v,))


def in_universe(v):
    k = v[0]
    if k == 'other':
        return False
    if k == 'list':
        return all(in_universe(x) for x in v[1])
    if k == 'obj':
        return all(in_universe(x) for x in v[2])
    return True


# ------------------------------------------------------------------ documents
def g_xml(e):
    """lxml element -> a generic Gallina tree term
       XElt ns name attrs text children   (comments/PIs/entities: XOther)
       attrs: list (ns-or-empty, name, value); text: option text (None when element.text is None).
       The consumer defines the matching inductive in its own model file:
         Inductive xnode := XElt (ns name : text) (atts : list (text * text * text))
                                 (txt : option text) (kids : list xnode) | XOther."""
    from lxml import etree
    if not isinstance(e.tag, str):
        return 'XOther'
    q = etree.QName(e)
    atts = []
    for k, v in sorted(e.attrib.items()):
        qa = etree.QName(k)
        atts.append('(%s, %s, %s)' % (gtext(qa.namespace or ''), gtext(qa.localname), gtext(v)))
    return '(XElt %s %s %s %s %s)' % (gtext(q.namespace or ''), gtext(q.localname), glist(atts),
                                      gopt(e.text, gtext), glist([g_xml(c) for c in e]))


def g_doc(d):
    """JSON/YAML/msgpack-like document -> Gallina term over
         Inductive jv := JNull | JBool (b : bool) | JInt (z : Z) | JFlt | JStr (s : text)
                       | JBytes (b : text) | JList (l : list jv) | JMap (kv : list (jv * jv)).
       (floats are opaque: JFlt)"""
    if d is None:
        return 'JNull'
    if isinstance(d, bool):
        return '(JBool %s)' % gbool(d)
    if isinstance(d, int):
        return '(JInt %s)' % gz(d)
    if isinstance(d, float):
        return 'JFlt'
    if isinstance(d, str):
        return '(JStr %s)' % gtext(d)
    if isinstance(d, (bytes, bytearray)):
        return '(JBytes %s)' % gtext(bytes(d))
    if isinstance(d, (list, tuple)):
        return '(JList %s)' % glist([g_doc(x) for x in d])
    if isinstance(d, dict):
        return '(JMap %s)' % glist(['(%s, %s)' % (g_doc(k), g_doc(v)) for k, v in d.items()])
    raise ValueError('document node outside the modelled universe: %r' % type(d))
