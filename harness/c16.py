"""C16 — inheritance and polymorphism preserve the runtime class.

Parts (DESIGN.md section 6, C16):
  * proof obligations: coq/Props/C16.v over the model coq/C16/Model.v (flattened type info with
    the odict override rule, get_polymorphic_target, the interface's class registry, the XML
    codec with namespace scopes / xsi:type, the dict-document codec with wrapper keys);
    coq/Gen/C16Shape.v is regenerated from the source on every run;
  * correspondence: generated class trees (depth <= 3, subclasses in the namespace of their
    base plus a few that are not, member-less intermediate classes, arrays and max_occurs>1
    members of base type holding mixed subclasses, customised variants of bases, recursive
    types) rendered as real Spyne classes and as a Gallina universe; flattened type info,
    interface registry, XML trees + resolution of every xsi:type, decoded values for valid and
    mutated documents, dict documents and decoded values, all against the model;
  * direct oracle: the same programs through the full pipeline with a loopback client for
    XmlDocument / Soap11 / Soap12 / JsonDocument / YamlDocument / MessagePackDocument x
    polymorphic on/off; what user code and the client receive, the field order and the type
    markers of the transmitted documents are compared with what the property demands."""
import os, sys, json, copy
import lib
import universe as U
from lib import gz, gtext, glist, gbool, gopt, gpair

THEOREMS = ['C16_shape_src', 'C16_extends_partial', 'C16_extends_refuted', 'C16_flat_fields', 'C16_flat_override', 'C16_registry_subclasses',
            'C16_subclasses_closure', 'C16_xml_poly_rt', 'C16_xml_marker_resolves', 'C16_xml_mono', 'C16_xml_marker_sound',
            'C16_xsi_target_src', 'C16_xsi_target_spec', 'C16_gpt_src', 'C16_gpt_model',
            'C16_hier_poly_rt', 'C16_hier_mono', 'C16_hier_marker_sound',
            'C16_xml_poly_rt_spyne', 'C16_hier_poly_rt_spyne']

XSI = 'http://www.w3.org/2001/XMLSchema-instance'
XSD = 'http://www.w3.org/2001/XMLSchema'
XMLNS = 'http://www.w3.org/2000/xmlns/'
XSI_TYPE = '{%s}type' % XSI
XSI_NIL = '{%s}nil' % XSI
FUEL = 40
XML_PROTOS = ('XmlDocument', 'Soap11', 'Soap12')
DICT_PROTOS = ('JsonDocument', 'YamlDocument', 'MessagePackDocument')
KEEP_ALIVE = []      # generated classes are never freed: memoize_id caches are keyed by id()
STATS = {}
ORACLE = {'roundtrips': 0, 'documents': 0, 'negative': 0}
REPORTED = {}       # coarse class of a violation -> number of times reported (at most 3 replays per class)
SUPPRESSED = {}


def report_fail(check, key, what, replay):
    """check.fail, but at most three replays per (site, protocol, polymorphic, kind): the shape of the
    value is part of the key, and one defect shows up under many shapes"""
    coarse = '|'.join(key.split('|')[:5]) if key.split('|')[3:4] in (['request'], ['response']) else '|'.join(key.split('|')[:4])
    if key in check.known_keys:
        return check.fail(key, what, replay)
    n = REPORTED.get(coarse, 0)
    if n >= 3:
        SUPPRESSED[coarse] = SUPPRESSED.get(coarse, 0) + 1
        return True
    REPORTED[coarse] = n + 1
    return check.fail(key, what, replay)


def stat(kind, what, outcome):
    w = what.split(' -> ')[0].split(':')[0]
    k = '%s|%s|%s' % (kind, w, outcome[0] if outcome[0] != 'crash' else 'crash:' + outcome[2])
    STATS[k] = STATS.get(k, 0) + 1

IMPORTS = 'From SpyneV Require Import Base.Prelude Wire.Universe Wire.Xml C01.Leaf C16.Model C16.Leaf Gen.C16Shape.\n'


# ------------------------------------------------------------------ small helpers
def observe(fn, *args):
    """('ok', value) | ('vfault',) | ('crash', CoqExn, PythonName)"""
    from spyne.model.fault import Fault
    try:
        return ('ok', fn(*args))
    except Fault as e:
        if e.faultcode == 'Client.ValidationError':
            return ('vfault',)
        return ('crash', 'OtherExn', 'Fault:' + str(e.faultcode))
    except Exception as e:
        n = type(e).__name__
        return ('crash', {'ValueError': 'ValueError', 'TypeError': 'TypeError', 'AttributeError': 'AttributeError',
                          'KeyError': 'KeyError', 'IndexError': 'IndexError', 'AssertionError': 'AssertionError'}.get(n, 'OtherExn'), n)


def gout(o, f):
    if o[0] == 'ok':
        return '(Ok %s)' % f(o[1])
    if o[0] == 'vfault':
        return 'VFault'
    return '(Crash %s)' % o[1]


def is_multi(f):
    return f['max'] is None or f['max'] > 1


# ------------------------------------------------------------------ generation of programs
INT_POOL = [0, 1, -1, 7, 255, -128, 2 ** 31, -2 ** 31, 2 ** 63 - 1, -2 ** 63]
TEXT_POOL = ['', 'a', 'hello', 'x y', '<&>', 'ünï', '中文', '0', 'true', 'None']


def gen_leaf(rng, p):
    if p == 'int':
        return ('int', rng.choice(INT_POOL + [rng.randint(-10 ** 6, 10 ** 6)]))
    if p == 'bool':
        return ('bool', rng.random() < 0.5)
    return ('text', rng.choice(TEXT_POOL + [''.join(rng.choice('abcXYZ09') for _ in range(rng.randint(1, 6)))]))


def gen_tree(rng, override=False):
    """a program: user classes (hierarchies, an unrelated class, containers), echo methods and the
    message classes the decorator synthesises for them (appended after the user classes, so that the
    model's universe contains them as ordinary classes)"""
    cnt = {'f': 0}
    classes = []

    def fname():
        cnt['f'] += 1
        return 'f%d' % cnt['f']

    def prim_f(name=None):
        return {'name': name or fname(), 'ty': ('prim', rng.choice(U.PRIMS)), 'min': rng.choice([0, 0, 1]), 'max': 1,
                'nillable': rng.random() < 0.7, 'kind': 'elem'}

    def ref_f(ty):
        """a member of complex / array type: optional (min_occurs=0), single or max_occurs>1"""
        mx = 1
        if ty[0] == 'ref' and rng.random() < 0.35:
            mx = rng.choice([None, 3])
        return {'name': fname(), 'ty': ty, 'min': 0, 'max': mx, 'nillable': True, 'kind': 'elem'}

    def add(name, ns, parent, fields, **kw):
        d = {'ns': ns, 'name': name, 'parent': parent, 'fields': fields}
        d.update(kw)
        classes.append(d)
        return len(classes) - 1

    nss = rng.choice([['urn:a'], ['urn:a', 'urn:b'], ['urn:b', 'urn:c'], ['urn:a', 'urn:b', 'urn:c']])
    tns = 'urn:a'
    hier_roots, all_h = [], []
    for h in range(rng.randint(1, 2)):
        ns = rng.choice(nss)
        root = add('B%d' % h, ns, None, [prim_f() for _ in range(0 if (override and rng.random() < 0.3) else rng.randint(1, 3))])
        hier_roots.append(root)
        members, depth = [root], {root: 1}
        for s in range(rng.randint(1, 6)):
            # half of the time the newest class is extended, so that chains of depth 4-6 below the root occur
            p = members[-1] if rng.random() < 0.5 else rng.choice(members)
            if depth[p] >= 6:
                p = root
            own = [prim_f() for _ in range(rng.choice([0, 1, 1, 2]))]
            r = rng.random()
            if r < 0.2:
                own.append(ref_f(('ref', rng.choice(hier_roots))))               # recursive / cross-hierarchy member
            elif r < 0.4:
                own.append(ref_f(('arr', ('ref', rng.choice(hier_roots)))))
            anc = U.flat_fields({'classes': classes}, p)
            if override and own and anc and rng.random() < 0.6:
                # redeclare a member of an ancestor (the odict override rule)
                g = rng.choice(anc)
                own[rng.randrange(len(own))] = dict(prim_f(g['name']))
            far = len(nss) > 1 and rng.random() < 0.25    # a subclass placed in another namespace; its own subclasses come back
            sns = rng.choice([n for n in nss if n != ns]) if far else ns
            cid = add('S%d_%d' % (h, s), sns, p, own, far=far)
            members.append(cid)
            depth[cid] = depth[p] + 1
        all_h.append(members)
        if rng.random() < 0.6:
            add('O%d' % h, ns, None, [prim_f()])                                # unrelated class in the same namespace
    n_user_h = len(classes)
    containers = []
    for c in range(rng.randint(1, 2)):
        fs = [prim_f()]
        for _ in range(rng.randint(1, 3)):
            tgt = rng.choice(rng.choice(all_h))
            r = rng.random()
            if r < 0.5:
                fs.append(ref_f(('ref', tgt)))
            elif r < 0.8:
                fs.append(ref_f(('arr', ('ref', tgt))))
            else:
                fs.append(ref_f(('arr', ('prim', rng.choice(U.PRIMS)))))
        if containers and rng.random() < 0.4:
            fs.append(ref_f(('ref', rng.choice(containers))))
        rng.shuffle(fs)
        containers.append(add('C%d' % c, rng.choice(nss), None, fs))
    n_user = len(classes)
    # methods: echo of one declared type each
    decls = []
    for members in all_h:
        decls.append(('ref', members[0]))
        if len(members) > 2 and rng.random() < 0.5:
            decls.append(('ref', rng.choice(members[1:])))
    decls.append(('ref', rng.choice(containers)))
    if rng.random() < 0.6:
        decls.append(('arr', ('ref', rng.choice(all_h)[0])))
    methods = []
    for i, ty in enumerate(decls):
        mn = rng.choice([0, 0, 1])
        nil = rng.random() < 0.8
        param = {'name': 'x', 'ty': ty, 'min': mn, 'max': 1, 'nillable': nil, 'kind': 'elem'}
        res = {'name': 'm%dResult' % i, 'ty': ty, 'min': mn, 'max': 1, 'nillable': nil, 'kind': 'elem'}
        cin = add('m%d' % i, tns, None, [param], msg=True)
        cout = add('m%dResponse' % i, tns, None, [res], msg=True)
        methods.append({'name': 'm%d' % i, 'ty': ty, 'min': mn, 'nillable': nil, 'in': cin, 'out': cout,
                        'plain': mn == 0 and nil and rng.random() < 0.5})
    if any(c.get('far') for c in classes):
        ORACLE['programs_with_cross_namespace_inheritance'] = ORACLE.get('programs_with_cross_namespace_inheritance', 0) + 1
    return {'tns': tns, 'classes': classes, 'n_user': n_user, 'methods': methods}


def placed(desc, cid, decl):
    """cid is decl or a subclass of it, and every class on the way up to decl lives in decl's namespace
    (the only placement the interface registers for substitution)"""
    ns = desc['classes'][decl]['ns']
    c = cid
    while c is not None:
        if desc['classes'][c]['ns'] != ns:
            return False
        if c == decl:
            return True
        c = desc['classes'][c]['parent']
    return False


def gen_value(rng, desc, ty, depth, in_quant=False, none_p=0.15):
    """a value of declared type ty whose objects may be of any subclass of the declared class;
    no None inside lists; in_quant: only subclasses placed in the namespace of their base"""
    if ty[0] == 'prim':
        return gen_leaf(rng, ty[1])
    if ty[0] == 'arr':
        n = 0 if depth <= 0 else rng.choice([0, 1, 2, 3])
        return ('list', [gen_value(rng, desc, ty[1], depth - 1, in_quant, 0.0) for _ in range(n)])
    subs = [s for s in U.subclasses(desc, ty[1]) if not in_quant or placed(desc, s, ty[1])]
    cid = rng.choice(subs)
    vals = []
    for f in U.flat_fields(desc, cid):
        vals.append(gen_field_value(rng, desc, f, depth - 1, in_quant))
    return ('obj', cid, vals)


def gen_field_value(rng, desc, f, depth, in_quant):
    if f['ty'][0] == 'prim':
        if f['min'] == 0 and rng.random() < 0.25:
            return ('none',)
        if f['min'] >= 1 and f['nillable'] and rng.random() < 0.1:
            return ('none',)
        return gen_leaf(rng, f['ty'][1])
    if depth <= 0:
        return ('none',)
    if is_multi(f):
        if rng.random() < 0.2:
            return ('none',)
        hi = 3 if f['max'] is None else f['max']
        return ('list', [gen_value(rng, desc, f['ty'], depth, in_quant, 0.0) for _ in range(rng.randint(0, hi))])
    if rng.random() < 0.25:
        return ('none',)
    return gen_value(rng, desc, f['ty'], depth, in_quant, 0.0)


# ------------------------------------------------------------------ real Spyne programs
class Built(object):
    pass


def build(desc):
    """the program as real Spyne classes + a service with one echo method per declared type"""
    from spyne import ServiceBase, rpc
    from spyne.model.complex import Array
    from spyne.model.primitive import Integer, Unicode, Boolean
    b = Built()
    user = {'classes': desc['classes'][:desc['n_user']]}
    b.user = U.build_spyne(user)
    prim = {'int': Integer, 'text': Unicode, 'bool': Boolean}

    def ty_of(ty):
        if ty[0] == 'prim':
            return prim[ty[1]]
        if ty[0] == 'ref':
            return b.user[ty[1]]
        return Array(ty_of(ty[1]))

    b.captured = []
    body = {}
    b.param_types = []
    for m in desc['methods']:
        t = ty_of(m['ty'])
        if m.get('decl') == 'cc':               # customised twice
            t = t.customize(min_occurs=1).customize(nillable=False)
        elif m.get('decl') == 'arr_cust':       # Array of a customised class
            t = Array(ty_of(m['ty'][1]).customize(nillable=False))
        elif m.get('decl') == 'arr_mand':       # Array(Mandatory(P)): the item class is customised twice over
            from spyne.model.complex import Mandatory
            t = Array(Mandatory(ty_of(m['ty'][1])))
        elif not m.get('plain'):
            t = t.customize(min_occurs=m['min'], nillable=m['nillable'])     # a customised variant of the declared class
        b.param_types.append(t)

        def mk(t, name):
            def echo(ctx, x):
                b.captured.append(x)
                return x
            echo.__name__ = name
            return rpc(t, _returns=t)(echo)
        body[m['name']] = mk(t, m['name'])
    b.service = type('Svc', (ServiceBase,), body)
    b.apps = {}
    KEEP_ALIVE.append(b)
    return b


def protocol(name, poly, soft=False):
    from spyne.protocol.xml import XmlDocument
    from spyne.protocol.soap import Soap11, Soap12
    from spyne.protocol.json import JsonDocument
    from spyne.protocol.yaml import YamlDocument
    from spyne.protocol.msgpack import MessagePackDocument
    k = {'XmlDocument': XmlDocument, 'Soap11': Soap11, 'Soap12': Soap12, 'JsonDocument': JsonDocument,
         'YamlDocument': YamlDocument, 'MessagePackDocument': MessagePackDocument}[name]
    kw = {'polymorphic': poly}
    if soft:
        kw['validator'] = 'soft'
    if name in DICT_PROTOS:
        kw['ignore_wrappers'] = False
    return k(**kw)


def get_app(desc, b, proto, poly, soft=False):
    from spyne import Application
    key = (proto, poly, soft, getattr(b, 'gen', 0))
    if key not in b.apps:
        app = Application([b.service], desc['tns'], in_protocol=protocol(proto, poly, soft),
                          out_protocol=protocol(proto, poly, soft), name='App')
        # message classes by cid
        full = list(b.user)
        for m in desc['methods']:
            d = b.service.public_methods[m['name']]
            full.append(d.in_message)
            full.append(d.out_message)
        full += list(getattr(b, 'extra', []))          # classes defined after the program was first used
        app._c16_classes = full
        b.apps[key] = app
    return b.apps[key]


class Loopback(object):
    """an in-process client: the request is serialised by the application's own protocol in
    REQUEST mode, handed to ServerBase, and the response deserialised in RESPONSE mode"""

    def __init__(self, app):
        from spyne.client import RemoteProcedureBase
        from spyne.server import ServerBase
        from spyne import MethodContext
        self.app = app
        self.server = ServerBase(app)
        self.trace = []
        outer = self

        class Proc(RemoteProcedureBase):
            def __call__(self, *args, **kwargs):
                ctx, = self.contexts
                self.get_out_object(ctx, args, kwargs)
                self.get_out_string(ctx)
                req = b''.join(ctx.out_string)
                outer.trace.append(req)
                resp = outer.serve(req)
                outer.trace.append(resp)
                ctx.in_string = [resp]
                self.get_in_object(ctx)
                if ctx.in_error is not None:
                    raise ctx.in_error
                return ctx.in_object
        self.Proc = Proc

    def serve(self, req):
        from spyne import MethodContext
        srv = self.server
        sctx = MethodContext(srv, MethodContext.SERVER)
        sctx.in_string = [req]
        sctx, = srv.generate_contexts(sctx)
        if sctx.in_error is None:
            srv.get_in_object(sctx)
        if sctx.in_error is None:
            try:
                srv.get_out_object(sctx)
            except Exception as e:
                from spyne.model.fault import Fault
                sctx.out_error = e if isinstance(e, Fault) else Fault('Server', repr(e))
        srv.get_out_string(sctx)
        self.last_error = sctx.out_error
        return b''.join(sctx.out_string)

    def call(self, name, arg):
        del self.trace[:]
        return self.Proc('loop', self.app, name)(arg)


# ------------------------------------------------------------------ Gallina rendering of a program
def g_registry(entries):
    return glist(['((%s, %s), %s)' % (gtext(ns), gtext(n), U.g_ty(t)) for (ns, n, t) in entries])


def g_py(desc):
    """the class statements: Python base, namespace, name, own members"""
    rows = []
    for c in desc['classes']:
        rows.append('(mkpy %s %s %s %s)' % (gopt(c['parent'], lambda p: '%d%%nat' % p), gtext(c['ns']), gtext(c['name']),
                                            glist([U.g_field(f) for f in c['fields']])))
    return glist(rows)


def g_prelude(desc, prefmap, extra='', unres=()):
    """definitions shared by the case files of one program: the universe, the roots of
    populate_interface, the prefix table the interface ended up with, the model's registry"""
    roots = []
    for m in desc['methods']:
        roots += [m['in'], m['out']]
    pm = sorted(prefmap.items())
    s = IMPORTS
    s += 'Definition PY : list pycls := %s.\n' % g_py(desc)
    s += 'Definition UU : universe := Eval vm_compute in (derive shape_src PY).\n'
    s += 'Definition TNS : text := %s.\n' % gtext(desc['tns'])
    s += 'Definition ROOTS : list cid := %s.\n' % glist(['%d%%nat' % r for r in roots])
    s += 'Definition PMAP : list (text * text) := %s.\n' % glist(['(%s, %s)' % (gtext(k), gtext(v)) for k, v in pm])
    s += ('Definition PM (ns : text) : text := (fix go (l : list (text * text)) : text := match l with [] => [] '
          '| (k, v) :: r => if text_eqb k ns then v else go r end) PMAP.\n')
    s += ('Definition REG : registry := Eval vm_compute in (match populate shape_src UU TNS %d ROOTS with '
          'Some r => r | None => [] end).\n' % (6 * len(desc['classes']) + 30))
    s += 'Definition UNRES : list (text * text) := %s.\n' % glist(['(%s, %s)' % (gtext(a), gtext(n)) for a, n in sorted(unres)])
    s += 'Definition CF (soft poly : bool) : pcfg := mkpcfg soft TNS poly true PM REG UNRES.\n'
    return s + extra


def model_ty_of_class(app, cls):
    """real Spyne type -> neutral TY, by identity of the generated classes"""
    from spyne.model.complex import Array, ComplexModelBase
    from spyne.model.primitive import Integer, Unicode, Boolean
    full = app._c16_classes
    k = cls
    while k is not None:
        for i, c in enumerate(full):
            if k is c:
                return ('ref', i)
        k = getattr(k, '__orig__', None)
    if isinstance(cls, type) and issubclass(cls, Array):
        inner, = cls._type_info.values()
        t = model_ty_of_class(app, inner)
        return None if t is None else ('arr', t)
    if isinstance(cls, type) and issubclass(cls, Boolean):
        return ('prim', 'bool')
    if isinstance(cls, type) and issubclass(cls, Unicode):
        return ('prim', 'text')
    if isinstance(cls, type) and issubclass(cls, Integer):
        return ('prim', 'int')
    return None


# ------------------------------------------------------------------ correspondence: flattened type info
def corr_flat(check, desc, b, app, prelude, tag):
    cases = []
    order = list(enumerate(app._c16_classes))
    check.rng.shuffle(order)
    for cid, cls in order:
        r = observe(lambda: list(cls.get_flat_type_info(cls).items()))
        if r[0] != 'ok':
            check.mismatch('flat', '%s class %d: get_flat_type_info raised %r' % (tag, cid, r))
            continue
        items = []
        bad = False
        for k, v in r[1]:
            t = model_ty_of_class(app, v)
            if t is None:
                bad = True
            items.append((k, t))
        if bad:
            check.mismatch('flat', '%s class %d: member type outside the universe: %r' % (tag, cid, r[1]))
            continue
        ext = getattr(cls, '__extends__', None)
        pt = None if ext is None else model_ty_of_class(app, ext)
        if ext is not None and (pt is None or pt[0] != 'ref'):
            check.mismatch('flat', '%s class %d: __extends__ outside the universe: %r' % (tag, cid, ext))
            continue
        cases.append(('(%d%%nat, %s, %s)' % (cid, glist(['(%s, %s)' % (gtext(k), U.g_ty(t)) for k, t in items]),
                                          gopt(pt, lambda t: '%d%%nat' % t[1])),
                      '%s class %d %s flat=%r extends=%r' % (tag, cid, desc['classes'][cid]['name'], items, pt)))
        check.count(('flat', tag, cid, repr(items)))
    lib.correspond(check, 'flat_type_info', prelude, 'nat * list (text * ty) * option nat',
                   '(fun c => let \'(cid, items, ext) := c in match flat_ti shape_src UU cid with Some fs => '
                   'Nat.eqb (length fs) (length items) && forallb (fun p => text_eqb (f_name (fst p)) (fst (snd p)) '
                   '&& ty_eqb_top (f_ty (fst p)) (snd (snd p))) (combine fs items) | None => false end '
                   '&& match get_cls UU cid with Some cl => match c_parent cl, ext with Some a, Some b => Nat.eqb a b '
                   '| None, None => true | _, _ => false end | None => false end)', cases,
                   show='(fun c : nat * list (text * ty) * option nat => option_map (map f_name) (flat_ti shape_src UU (fst (fst c))))')


# ------------------------------------------------------------------ correspondence: interface registry
def observed_registry(app):
    out, bad = [], []
    for key, cls in app.interface.classes.items():
        if not key.startswith('{'):
            continue                      # bare-name aliases of tns classes: unreachable from an xsi:type key
        ns, name = key[1:].split('}', 1)
        t = model_ty_of_class(app, cls)
        if t is None:
            bad.append((key, repr(cls)))
        else:
            out.append((ns, name, t))
    return sorted(out), bad


def corr_registry(check, desc, b, app, prelude, tag):
    reg, bad = observed_registry(app)
    if bad:
        check.mismatch('registry', '%s: interface.classes holds classes outside the universe: %r' % (tag, bad[:3]))
        return reg
    check.count(('registry', tag, repr(reg)))
    lib.correspond(check, 'registry', prelude, 'registry',
                   '(fun r => match populate shape_src UU TNS %d ROOTS with Some m => reg_eqb m r | None => false end)'
                   % (6 * len(desc['classes']) + 30),
                   [(g_registry(reg), '%s registry keys %r' % (tag, [(a, n) for a, n, _ in reg]))],
                   show='(fun r : registry => option_map (map fst) (populate shape_src UU TNS %d ROOTS))'
                        % (6 * len(desc['classes']) + 30))
    return reg


# ------------------------------------------------------------------ XML documents
def own_decls(e, parent_nsmap):
    out = []
    for p, u in sorted(e.nsmap.items(), key=lambda kv: (kv[0] or '', kv[1])):
        if parent_nsmap is None or parent_nsmap.get(p) != u:
            out.append((p or '', u))
    return out


def g_xml_decl(e, parent_nsmap=None):
    """lxml element -> xnode whose attributes include the element's own namespace declarations as
    (xmlns_ns, prefix, uri); the root carries everything in scope"""
    from lxml import etree
    if not isinstance(e.tag, str):
        return 'XOther'
    q = etree.QName(e)
    atts = []
    for k, v in sorted(e.attrib.items()):
        qa = etree.QName(k)
        atts.append('(%s, %s, %s)' % (gtext(qa.namespace or ''), gtext(qa.localname), gtext(v)))
    for p, u in own_decls(e, parent_nsmap):
        atts.append('(%s, %s, %s)' % (gtext(XMLNS), gtext(p), gtext(u)))
    return '(XElt %s %s %s %s %s)' % (gtext(q.namespace or ''), gtext(q.localname), glist(atts),
                                      gopt(e.text, gtext), glist([g_xml_decl(c, e.nsmap) for c in e]))


def real_marks(root):
    """resolution of every xsi:type value of the document by the receiver's rule
    (prefix looked up in element.nsmap), in document order: [(ns, local) | None]"""
    out = []
    for e in root.iter():
        if not isinstance(e.tag, str):
            continue
        v = e.get(XSI_TYPE)
        if v is None:
            continue
        if ':' in v:
            p, local = v.split(':', 1)
        else:
            p, local = None, v
        ns = e.nsmap.get(p)
        out.append(None if ns is None else (ns, local))
    return out


def g_marks(ms):
    return glist(['RUnbound' if m is None else '(RQ %s %s)' % (gtext(m[0]), gtext(m[1])) for m in ms])


def payload(proto, doc):
    """the message element of a parsed request / response"""
    if proto == 'XmlDocument':
        return doc
    for ch in doc:
        if isinstance(ch.tag, str) and ch.tag.endswith('}Body'):
            return ch[0]
    raise ValueError('no Body')


def parse_xml(s):
    from lxml import etree
    return etree.fromstring(s)


class FakeCtx(object):
    def __init__(self, app):
        self.app = app


# ------------------------------------------------------------------ document mutations (malformed stream)
def rebuild_with_nsmap(e, extra):
    """a copy of element e (same tag, attributes, children) that additionally declares `extra`"""
    from lxml import etree
    nsmap = dict(e.nsmap)
    nsmap.update(extra)
    n = etree.Element(e.tag, attrib=dict(e.attrib), nsmap=nsmap)
    n.text = e.text
    n.tail = e.tail
    for ch in list(e):
        n.append(ch)
    p = e.getparent()
    if p is not None:
        p.replace(e, n)
    return n


def markers_through_default_ns(root, msg):
    """rewrites every prefixed xsi:type below msg into the unprefixed form resolved through a default
    namespace declared on the element itself (<x xmlns="ns" xsi:type="Local">): legal, and what a peer
    may send although Spyne never writes it.  Innermost elements first, because rebuilding an element
    moves its children.  Returns the new document root."""
    marked = [e for e in msg.iter() if isinstance(e.tag, str) and e.get(XSI_TYPE) is not None and ':' in e.get(XSI_TYPE)]
    for e in reversed(marked):
        p, local = e.get(XSI_TYPE).split(':', 1)
        ns = e.nsmap.get(p)
        if ns is None:
            continue
        e.set(XSI_TYPE, local)
        e2 = rebuild_with_nsmap(e, {None: ns})
        if e is root:
            root = e2
    return root


def mutate_xml(rng, desc, root, msg):
    """one mutation below the message element `msg` of the parsed document `root` (msg is root for
    XmlDocument, the child of Body for SOAP); returns (new_root, description) or (root, None)"""
    from lxml import etree
    elts = [e for e in msg.iter() if isinstance(e.tag, str)]
    marked = [e for e in elts if e.get(XSI_TYPE) is not None]
    names = [c['name'] for c in desc['classes']]
    nss = sorted(set(c['ns'] for c in desc['classes']))
    r = rng.random()
    if r < 0.45 and marked:
        e = rng.choice(marked)
        v = e.get(XSI_TYPE)
        p, local = v.split(':', 1) if ':' in v else (None, v)
        k = rng.random()
        if k < 0.35:
            local2 = rng.choice(names + ['Nope', local + 'Array', 'B0Array', 'integer', 'string'])
            e.set(XSI_TYPE, local2 if p is None else '%s:%s' % (p, local2))
            return root, 'marker name -> %s' % local2
        if k < 0.5:
            e.set(XSI_TYPE, 'zz:%s' % local)
            return root, 'marker prefix unknown'
        if k < 0.6:
            e.set(XSI_TYPE, local)
            return root, 'marker prefix dropped'
        if k < 0.65:
            e.set(XSI_TYPE, ':' + local)
            return root, 'marker prefix empty'
        if k < 0.8:
            ns2 = rng.choice(nss + ['urn:zz'])
            e2 = rebuild_with_nsmap(e, {p: ns2} if p else {'q': ns2})
            if e is root:
                root = e2
            return root, 'marker prefix rebound to %s' % ns2
        if k < 0.9:
            # move to the default namespace of the element: xsi:type="Local" + xmlns="ns"
            ns = e.nsmap.get(p)
            if ns is not None and etree.QName(e).namespace:
                e.set(XSI_TYPE, local)
                e2 = rebuild_with_nsmap(e, {None: ns})
                if e is root:
                    root = e2
                return root, 'marker through the default namespace'
        del e.attrib[XSI_TYPE]
        return root, 'marker removed'
    if r < 0.7:
        e = rng.choice(elts)
        c = rng.choice(desc['classes'])
        pfx = None
        for p, u in e.nsmap.items():
            if u == c['ns'] and p:
                pfx = p
        k = rng.random()
        if k < 0.6:
            if pfx is None:
                e2 = rebuild_with_nsmap(e, {'t9': c['ns']})
                if e is root:
                    root = e2
                e, pfx = e2, 't9'
            e.set(XSI_TYPE, '%s:%s' % (pfx, c['name']))
            return root, 'marker added: %s' % c['name']
        if k < 0.8:
            e2 = rebuild_with_nsmap(e, {'xs': XSD})
            if e is root:
                root = e2
            e2.set(XSI_TYPE, 'xs:%s' % rng.choice(['integer', 'string', 'boolean', 'decimal']))
            return root, 'xsd marker added'
        e.set(XSI_TYPE, rng.choice(['', ':', 'a:b:c', c['name']]))
        return root, 'junk marker added'
    e = rng.choice(elts)
    kids = [k for k in e if isinstance(k.tag, str)]
    if r < 0.76 and kids:
        e.remove(rng.choice(kids))
        return root, 'drop child'
    if r < 0.82 and kids:
        k = rng.choice(kids)
        e.insert(rng.randrange(len(e) + 1), copy.deepcopy(k))
        return root, 'duplicate child'
    if r < 0.88 and e is not msg:
        e.set(XSI_NIL, rng.choice(['true', '1', 'false']))
        return root, 'xsi:nil'
    if r < 0.94 and kids:
        rng.shuffle(kids)
        for k in kids:
            e.remove(k)
        for k in kids:
            e.append(k)
        return root, 'shuffle children'
    q = etree.QName(e)
    etree.SubElement(e, '{%s}zz_unknown' % q.namespace if q.namespace else 'zz_unknown').text = 'x'
    return root, 'unknown child'


# ------------------------------------------------------------------ correspondence: XML
def corr_xml(check, desc, b, prelude_for, tag, tier, forced=()):
    from lxml import etree
    rng = check.rng
    n_vals = 3 if tier == 'quick' else 8
    protos = [rng.choice(XML_PROTOS)] if tier == 'quick' else list(XML_PROTOS)
    if 'XmlDocument' not in protos and rng.random() < 0.5:
        protos.append('XmlDocument')
    for proto in protos:
        enc_cases, dec_cases = [], []
        app_for = {poly: get_app(desc, b, proto, poly) for poly in (True, False)}
        soft_app = get_app(desc, b, proto, True, soft=True)
        for mi, m in enumerate(desc['methods']):
            todo = [fv for fmi, fv in forced if fmi == mi] + [None] * n_vals
            for v in todo:
                if v is None:
                    v = gen_value(rng, desc, m['ty'], depth=rng.randint(1, 3))
                    if rng.random() < 0.1:
                        v = ('none',)
                if False:
                    v = ('none',)
                for poly in (True, False):
                    app = app_for[poly]
                    full = app._c16_classes
                    lb = Loopback(app)
                    sent = U.to_native({'classes': desc['classes']}, full, v)
                    del b.captured[:]
                    r = observe(lb.call, m['name'], sent)
                    docs = [parse_xml(s) for s in lb.trace if s]
                    for di, doc in enumerate(docs):
                        if lb.last_error is not None and di == 1:
                            continue
                        el = payload(proto, doc)
                        cid = m['in'] if di == 0 else m['out']
                        msg_v = ('obj', cid, [v])
                        enc_cases.append(('(%s, %d%%nat, %s, %s, %s)' % (gbool(poly), cid, U.g_val(msg_v), U.g_xml(el),
                                                                          g_marks(real_marks(el))),
                                          '%s %s poly=%s %s value %r -> %s' % (tag, proto, poly, 'request' if di == 0 else 'response',
                                                                              v, etree.tostring(el).decode()[:400])))
                        check.count(('xml_enc', proto, poly, di, json.dumps(desc, sort_keys=True), repr(v)))
                    if not docs:
                        check.mismatch('xml_enc', '%s %s poly=%s: no request produced for %r: %r' % (tag, proto, poly, v, r))
                        continue
                    # decoding: the request as written, and mutated copies, through from_element
                    if poly or rng.random() < 0.3:
                        base = payload(proto, docs[0])
                        variants = [(base, 'as written')]
                        if real_marks(base):
                            t2 = copy.deepcopy(docs[0])
                            t2 = markers_through_default_ns(t2, payload(proto, t2))
                            variants.append((payload(proto, parse_xml(etree.tostring(t2))), 'all markers through default namespaces'))
                        for _ in range(3 if tier == 'quick' else 6):
                            t2 = copy.deepcopy(docs[0])
                            t2, what = mutate_xml(rng, desc, t2, payload(proto, t2))
                            if what:
                                # what a receiver parses: the whole document, then its message element
                                variants.append((payload(proto, parse_xml(etree.tostring(t2))), what))
                        for el, what in variants:
                            softs = (False, True) if rng.random() < 0.3 else (False,)
                            for soft in softs:
                                a2 = soft_app if soft else app
                                msgcls = a2._c16_classes[m['in']]
                                d = observe(a2.in_protocol.from_element, FakeCtx(a2), msgcls, el)
                                if d[0] == 'ok':
                                    nv = U.from_native({'classes': desc['classes']}, a2._c16_classes, d[1])
                                    if not U.in_universe(nv):
                                        # a value outside the universe is still an observation: the model must not say Ok
                                        dec_cases.append(('(%s, %d%%nat, %s, None)' % (gbool(soft), m['in'], g_xml_decl(el)),
                                                          '%s %s soft=%s %s: %s -> outside the universe %r' % (
                                                              tag, proto, soft, what, etree.tostring(el).decode()[:400], nv)))
                                        continue
                                    d = ('ok', nv)
                                dec_cases.append(('(%s, %d%%nat, %s, Some %s)' % (gbool(soft), m['in'], g_xml_decl(el), gout(d, U.g_val)),
                                                  '%s %s soft=%s %s: %s -> %r' % (tag, proto, soft, what,
                                                                                  etree.tostring(el).decode()[:400], d)))
                                check.count(('xml_dec', soft, etree.tostring(el)))
                                stat('xml_dec', what, d)
        prelude = prelude_for(app_for[True], app_for[False], soft_app)
        lib.correspond(check, 'xml_enc', prelude, 'bool * nat * val * xnode * list rmark',
                       '(fun c => let \'(poly, cid, v, t, m) := c in match penc shape_src spyne_leaf (CF false poly) UU %d '
                       '(TRef cid) TNS (cls_name UU cid) v with Ok e => xnode_eqb (wire (strip_decls e)) t '
                       '&& marks_eqb (marks %d [] e) m | _ => false end)' % (FUEL, FUEL), enc_cases,
                       show='(fun c : bool * nat * val * xnode * list rmark => let \'(poly, cid, v, t, m) := c in '
                            'penc shape_src spyne_leaf (CF false poly) UU %d (TRef cid) TNS (cls_name UU cid) v)' % FUEL)
        lib.correspond(check, 'xml_dec', prelude, 'bool * nat * xnode * option (out val)',
                       '(fun c => let \'(soft, cid, t, o) := c in let r := pdec shape_src spyne_leaf (CF soft true) UU %d [] '
                       '(TRef cid) true t in match o with Some o => out_eqb val_eqb r o | None => negb (is_ok r) end)' % FUEL,
                       dec_cases,
                       show='(fun c : bool * nat * xnode * option (out val) => let \'(soft, cid, t, o) := c in '
                            'pdec shape_src spyne_leaf (CF soft true) UU %d [] (TRef cid) true t)' % FUEL)
        if enc_cases:
            check.sample({'program': desc, 'case': enc_cases[0][1][:500]})


# ------------------------------------------------------------------ dict documents
def canon_doc(d):
    """parsed JSON / YAML / msgpack document -> canonical python: bytes (msgpack bin) decoded as UTF-8"""
    if isinstance(d, (bytes, bytearray)):
        return bytes(d).decode('utf8')
    if isinstance(d, dict):
        return dict((canon_doc(k), canon_doc(v)) for k, v in d.items())
    if isinstance(d, (list, tuple)):
        return [canon_doc(x) for x in d]
    return d


def g_jv(d):
    if d is None:
        return 'JNull'
    if isinstance(d, bool):
        return '(JBool %s)' % gbool(d)
    if isinstance(d, int):
        return '(JInt %s)' % gz(d)
    if isinstance(d, str):
        return '(JStr %s)' % gtext(d)
    if isinstance(d, list):
        return '(JList %s)' % glist([g_jv(x) for x in d])
    if isinstance(d, dict):
        for k in d:
            if not isinstance(k, str):
                raise ValueError('non-text key %r' % (k,))
        return '(JMap %s)' % glist(['(%s, %s)' % (gtext(k), g_jv(v)) for k, v in d.items()])
    raise ValueError('document node outside the modelled universe: %r' % type(d))


def wire_codec(proto):
    import msgpack, yaml
    if proto == 'JsonDocument':
        return (lambda d: json.dumps(d).encode('utf8')), (lambda s: json.loads(s.decode('utf8')))
    if proto == 'YamlDocument':
        return (lambda d: yaml.safe_dump(d).encode('utf8')), (lambda s: yaml.safe_load(s.decode('utf8')))
    return (lambda d: msgpack.packb(d)), (lambda s: msgpack.unpackb(s))


def mutate_doc(rng, desc, doc):
    """one mutation of a (deep-copied) wrapped dict document; returns description or None"""
    wrappers = []

    def walk(d, parent, key):
        if isinstance(d, dict):
            if len(d) == 1:
                (k, v), = d.items()
                if isinstance(v, dict):
                    wrappers.append((d, parent, key))
            for k, v in list(d.items()):
                walk(v, d, k)
        elif isinstance(d, list):
            for i, x in enumerate(d):
                walk(x, d, i)
    walk(doc, None, None)
    wrappers = wrappers[1:]          # not the message wrapper itself
    if not wrappers:
        return None
    d, parent, key = rng.choice(wrappers)
    (k, inner), = d.items()
    isb = isinstance(k, bytes)
    names = [c['name'] for c in desc['classes']]
    r = rng.random()

    def mk(s):
        return s.encode('utf8') if isb else s
    if r < 0.5:
        n2 = rng.choice(names + ['Nope'])
        d.clear()
        d[mk(n2)] = inner
        return 'wrapper key -> %s' % n2
    if r < 0.6:
        d[mk('Extra')] = {}
        return 'second wrapper key'
    if r < 0.7:
        d.clear()
        return 'empty wrapper'
    if r < 0.8:
        parent[key] = rng.choice([None, 5, True])
        return 'wrapper replaced by a scalar'
    if r < 0.9:
        inner[mk('zz_unknown')] = 1
        return 'unknown member'
    if inner:
        del inner[rng.choice(sorted(inner, key=repr))]
        return 'drop member'
    return None


def corr_hier(check, desc, b, prelude_for, tag, tier, forced=()):
    rng = check.rng
    n_vals = 3 if tier == 'quick' else 8
    protos = [rng.choice(DICT_PROTOS)] if tier == 'quick' else list(DICT_PROTOS)
    for proto in protos:
        enc_cases, dec_cases = [], []
        app_for = {poly: get_app(desc, b, proto, poly) for poly in (True, False)}
        for mi, m in enumerate(desc['methods']):
            todo = [fv for fmi, fv in forced if fmi == mi] + [None] * n_vals
            for v in todo:
                if v is None:
                    v = gen_value(rng, desc, m['ty'], depth=rng.randint(1, 3))
                for poly in (True, False):
                    app = app_for[poly]
                    full = app._c16_classes
                    prot = app.out_protocol
                    for cid, fld in ((m['in'], 'x'), (m['out'], m['name'] + 'Result')):
                        msgcls = full[cid]
                        inst = msgcls()
                        setattr(inst, fld, U.to_native({'classes': desc['classes']}, full, v))
                        r = observe(prot._object_to_doc, msgcls, inst)
                        if r[0] != 'ok':
                            check.mismatch('hier_enc', '%s %s poly=%s: _object_to_doc raised %r for %r' % (tag, proto, poly, r, v))
                            continue
                        doc = r[1]
                        msg_v = ('obj', cid, [v])
                        enc_cases.append(('(%s, %d%%nat, %s, %s)' % (gbool(poly), cid, U.g_val(msg_v), g_jv(canon_doc(doc))),
                                          '%s %s poly=%s value %r -> %r' % (tag, proto, poly, v, doc)))
                        check.count(('hier_enc', proto, poly, cid, json.dumps(desc, sort_keys=True), repr(v)))
                        if cid != m['in'] or not (poly or rng.random() < 0.3):
                            continue
                        variants = [(doc, 'as written')]
                        for _ in range(3 if tier == 'quick' else 6):
                            d2 = copy.deepcopy(doc)
                            what = mutate_doc(rng, desc, d2)
                            if what:
                                variants.append((d2, what))
                        dumps, loads = wire_codec(proto)
                        for d2, what in variants:
                            try:
                                d3 = loads(dumps(d2))
                            except Exception as e:
                                continue
                            o = observe(prot._doc_to_object, FakeCtx(app), msgcls, d3, None)
                            if o[0] == 'ok':
                                nv = U.from_native({'classes': desc['classes']}, full, o[1])
                                if not U.in_universe(nv):
                                    dec_cases.append(('(%d%%nat, %s, None)' % (cid, g_jv(canon_doc(d3))),
                                                      '%s %s %s: %r -> outside the universe %r' % (tag, proto, what, d3, nv)))
                                    continue
                                o = ('ok', nv)
                            dec_cases.append(('(%d%%nat, %s, Some %s)' % (cid, g_jv(canon_doc(d3)), gout(o, U.g_val)),
                                              '%s %s %s: %r -> %r' % (tag, proto, what, d3, o)))
                            check.count(('hier_dec', proto, repr(d3)))
                            stat('hier_dec', what, o)
        prelude = prelude_for(app_for[True], app_for[False])
        lib.correspond(check, 'hier_enc', prelude, 'bool * nat * val * jv',
                       '(fun c => let \'(poly, cid, v, d) := c in match h_enc shape_src dict_leaf poly UU %d (TRef cid) v with '
                       'Ok j => jv_eqb j d | _ => false end)' % FUEL, enc_cases,
                       show='(fun c : bool * nat * val * jv => let \'(poly, cid, v, d) := c in '
                            'h_enc shape_src dict_leaf poly UU %d (TRef cid) v)' % FUEL)
        lib.correspond(check, 'hier_dec', prelude, 'nat * jv * option (out val)',
                       '(fun c => let \'(cid, d, o) := c in let r := h_dec shape_src dict_leaf UU %d (TRef cid) d in '
                       'match o with Some o => out_eqb val_eqb r o | None => negb (is_ok r) end)' % FUEL, dec_cases,
                       show='(fun c : nat * jv * option (out val) => let \'(cid, d, o) := c in '
                            'h_dec shape_src dict_leaf UU %d (TRef cid) d)' % FUEL)



# ------------------------------------------------------------------ direct oracle (real code only)
def norm_value(desc, v):
    """the property's identifications: an empty unwrapped sequence (a max_occurs>1 member holding [])
    is the same as None"""
    if v[0] == 'list':
        return ('list', [norm_value(desc, x) for x in v[1]])
    if v[0] == 'obj':
        out = []
        for f, x in zip(U.flat_fields(desc, v[1]), v[2]):
            if is_multi(f) and x[0] == 'list' and not x[1]:
                x = ('none',)
            out.append(norm_value(desc, x))
        return ('obj', v[1], out)
    return v


def project(desc, ty, v):
    """what polymorphic=False transmits: at every position the declared class's members only"""
    if v[0] == 'list':
        return ('list', [project(desc, ty[1] if ty[0] == 'arr' else ty, x) for x in v[1]])
    if v[0] == 'obj':
        c = ty[1]
        fs = U.flat_fields(desc, c)
        return ('obj', c, [project(desc, f['ty'], x) for f, x in zip(fs, v[2][:len(fs)])])
    return v


def expected_marks(desc, ty, v):
    """(ns, name) of the runtime class of every object whose class is not the declared one, in document order"""
    out = []
    if v[0] == 'list':
        for x in v[1]:
            out += expected_marks(desc, ty[1] if ty[0] == 'arr' else ty, x)
    elif v[0] == 'obj':
        if v[1] != ty[1]:
            c = desc['classes'][v[1]]
            out.append((c['ns'], c['name']))
        for f, x in zip(U.flat_fields(desc, v[1]), v[2]):
            out += expected_marks(desc, f['ty'], x)
    return out


def leaf_text(v):
    if v[0] == 'int':
        return str(v[1])
    if v[0] == 'bool':
        return 'true' if v[1] else 'false'
    return v[1]


def ref_xml(desc, ty, name, v):
    """reference shape of the element written for value v of declared type ty (runtime classes as
    they are in v): (local name, 'nil' | ('leaf', text) | ('arr', [items]) | ('obj', class id, [members]))"""
    if v[0] == 'none':
        return (name, 'nil')
    if v[0] in ('int', 'bool', 'text'):
        return (name, ('leaf', leaf_text(v) or None))
    if v[0] == 'list':
        et = ty[1]
        en = ty[2] if len(ty) > 2 else elem_name(desc, et)
        return (name, ('arr', [ref_xml(desc, et, en, x) for x in v[1]]))
    kids = []
    for f, x in zip(U.flat_fields(desc, v[1]), v[2]):          # ancestors' members first, then own
        if is_multi(f):
            if x[0] == 'list':
                kids += [ref_xml(desc, f['ty'], f['name'], y) for y in x[1]]
            elif f['min'] > 0:
                kids.append((f['name'], 'nil'))
        elif x[0] != 'none' or f['min'] > 0:
            kids.append(ref_xml(desc, f['ty'], f['name'], x))
    return (name, ('obj', kids))


def elem_name(desc, ty):
    if ty[0] == 'prim':
        return {'int': 'integer', 'text': 'string', 'bool': 'boolean'}[ty[1]]
    if ty[0] == 'ref':
        return desc['classes'][ty[1]]['name']
    return elem_name(desc, ty[1]) + 'Array'


def xml_shape(e):
    from lxml import etree
    name = etree.QName(e).localname
    if e.get(XSI_NIL) in ('true', '1'):
        return (name, 'nil')
    kids = [k for k in e if isinstance(k.tag, str)]
    return (name, kids, e.text)


def same_xml(ref, e):
    """does the element have the reference shape (local names, order, leaf text)?"""
    from lxml import etree
    name, body = ref
    if etree.QName(e).localname != name:
        return False
    kids = [k for k in e if isinstance(k.tag, str)]
    if body == 'nil':
        return e.get(XSI_NIL) in ('true', '1') and not kids
    if e.get(XSI_NIL) in ('true', '1'):
        return False
    if body[0] == 'leaf':
        return not kids and (e.text or None) == body[1]
    want = body[1]
    return len(kids) == len(want) and all(same_xml(w, k) for w, k in zip(want, kids))


def ref_doc(desc, ty, v, ordered):
    """reference dict document for value v (runtime classes as in v): wrapper key = class name"""
    if v[0] == 'none':
        return None
    if v[0] in ('int', 'bool', 'text'):
        return v[1]
    if v[0] == 'list':
        return [ref_doc(desc, ty[1], x, ordered) for x in v[1]]
    inner = []
    for f, x in zip(U.flat_fields(desc, v[1]), v[2]):
        if x[0] == 'none':
            if f['min'] > 0:
                inner.append((f['name'], None))
        elif is_multi(f):
            inner.append((f['name'], [ref_doc(desc, f['ty'], y, ordered) for y in x[1]]))
        else:
            inner.append((f['name'], ref_doc(desc, f['ty'], x, ordered)))
    return {desc['classes'][v[1]]['name']: (inner if ordered else dict(inner))}


def doc_pairs(d):
    """a parsed document with every dict as an ordered list of pairs"""
    if isinstance(d, dict):
        return {'__pairs__': [(k, doc_pairs(v)) for k, v in d.items()]} if False else [(k, doc_pairs(v)) for k, v in d.items()]
    if isinstance(d, list):
        return ('list', [doc_pairs(x) for x in d])
    return d


def ref_pairs(d):
    if isinstance(d, dict):
        (k, inner), = d.items()
        return [(k, [(a, ref_pairs(b)) for a, b in inner])]
    if isinstance(d, list):
        return ('list', [ref_pairs(x) for x in d])
    return d


def unorder(p):
    if isinstance(p, list):
        return dict((k, unorder(v)) for k, v in p)
    if isinstance(p, tuple) and p and p[0] == 'list':
        return [unorder(x) for x in p[1]]
    return p


def family(proto):
    return proto


def value_shape(desc, ty, v):
    """what the value exercises (for finding keys)"""
    tags = set()

    def walk(t, x, ctxt):
        if x[0] == 'list':
            for y in x[1]:
                walk(t[1] if t[0] == 'arr' else t, y, 'array' if t[0] == 'arr' else ctxt)
        elif x[0] == 'obj':
            depth = 0
            c = x[1]
            while c != t[1] and desc['classes'][c]['parent'] is not None:
                c = desc['classes'][c]['parent']
                depth += 1
            tags.add('%s:sub+%d' % (ctxt, depth))
            if not desc['classes'][x[1]]['fields']:
                tags.add('memberless')
            if all(y[0] == 'none' for y in x[2]):
                tags.add('allnone')
            for f, y in zip(U.flat_fields(desc, x[1]), x[2]):
                walk(f['ty'], y, 'multi' if is_multi(f) else 'member')
    walk(ty, v, 'top')
    return ','.join(sorted(tags))


def oracle_case(check, desc, b, mi, v, proto, poly, report=True, extra=None, tag=None):
    """one value through the pipeline; returns the list of (key, what) the property is violated by"""
    from lxml import etree
    m = desc['methods'][mi]
    app = get_app(desc, b, proto, poly)
    full = app._c16_classes
    dd = {'classes': desc['classes']}
    lb = Loopback(app)
    sent = U.to_native(dd, full, v)
    del b.captured[:]
    fails = []
    pre = 'C16|%s|poly=%s' % (family(proto), 'on' if poly else 'off')
    shape = value_shape(desc, m['ty'], v)
    if tag:
        shape = tag + ',' + shape
    r = observe(lb.call, m['name'], sent)
    ORACLE['roundtrips'] += 1
    ORACLE['documents'] += len(lb.trace)
    want_v = v if poly else project(desc, m['ty'], v)
    want = norm_value(dd, want_v)
    if r[0] != 'ok':
        err = getattr(lb, 'last_error', None)
        fails.append(('%s|call-failed|%s|%s' % (pre, r[-1] if r[0] == 'crash' else 'ValidationError', shape),
                      'echo of %r through %s polymorphic=%s failed: %r (server error: %r)' % (v, proto, poly, r, err)))
    else:
        if len(b.captured) != 1:
            fails.append(('%s|user-code-calls|%s' % (pre, shape), 'user code ran %d times' % len(b.captured)))
        else:
            got = norm_value(dd, U.from_native(dd, full, b.captured[0]))
            if got != want:
                kind = 'class' if classes_of(got) != classes_of(want) else 'fields'
                fails.append(('%s|server-object|%s|%s' % (pre, kind, shape),
                              'user code received %r, the client sent %r (expected %r)' % (got, v, want)))
        got = norm_value(dd, U.from_native(dd, full, r[1]))
        if got != want:
            kind = 'class' if classes_of(got) != classes_of(want) else 'fields'
            fails.append(('%s|client-object|%s|%s' % (pre, kind, shape),
                          'the client received %r, user code returned %r (expected %r)' % (got, v, want)))
    # the transmitted documents
    for di, raw in enumerate(lb.trace):
        if di == 1 and r[0] != 'ok' and getattr(lb, 'last_error', None) is not None:
            continue
        which = 'request' if di == 0 else 'response'
        cid = m['in'] if di == 0 else m['out']
        mname = desc['classes'][cid]['name']
        fname = desc['classes'][cid]['fields'][0]['name']
        msg_v = ('obj', cid, [want_v])
        if proto in XML_PROTOS:
            try:
                el = payload(proto, parse_xml(raw))
            except Exception as e:
                fails.append(('%s|%s|unparsable' % (pre, which), '%s is not XML: %r' % (which, raw[:200])))
                continue
            marks = real_marks(el)
            exp = expected_marks(dd, ('ref', cid), msg_v)
            if any(x is None for x in marks):
                fails.append(('%s|%s|marker-unbound|%s' % (pre, which, shape),
                              'the %s carries an xsi:type whose prefix is not declared in the document: %s'
                              % (which, raw.decode('utf8', 'replace')[:600])))
            elif marks != exp:
                fails.append(('%s|%s|marker-wrong|%s' % (pre, which, shape),
                              'type markers of the %s resolve to %r, the runtime classes are %r: %s'
                              % (which, marks, exp, raw.decode('utf8', 'replace')[:600])))
            if not same_xml(ref_xml(dd, ('ref', cid), mname, msg_v), el):
                fails.append(('%s|%s|members|%s' % (pre, which, shape),
                              'the %s does not carry exactly the members of %s (ancestors first, then own): %s'
                              % (which, 'the runtime classes' if poly else 'the declared classes',
                                 raw.decode('utf8', 'replace')[:600])))
        else:
            dumps, loads = wire_codec(proto)
            try:
                doc = canon_doc(loads(raw))
            except Exception as e:
                fails.append(('%s|%s|unparsable' % (pre, which), '%s does not parse: %r' % (which, raw[:200])))
                continue
            refd = ref_doc(dd, ('ref', cid), msg_v, True)
            got_p, ref_p = doc_pairs(doc), ref_pairs(refd)
            if unorder(got_p) != unorder(ref_p):
                fails.append(('%s|%s|members|%s' % (pre, which, shape),
                              'the %s does not carry exactly the members of %s under the class-name key: %r'
                              % (which, 'the runtime classes' if poly else 'the declared classes', doc)))
            elif proto != 'YamlDocument' and got_p != ref_p:
                fails.append(('%s|%s|member-order|%s' % (pre, which, shape),
                              'members of the %s are not in the order ancestors first, then own: %r' % (which, doc)))
    if report:
        for key, what in fails:
            rp = {'kind': 'roundtrip', 'program': desc, 'method': mi, 'value': v, 'protocol': proto, 'polymorphic': poly}
            if extra:
                rp.update(extra)
            report_fail(check, key, what, rp)
    return fails


def classes_of(v):
    if v[0] == 'obj':
        return ('obj', v[1], [classes_of(x) for x in v[2]])
    if v[0] == 'list':
        return ('list', [classes_of(x) for x in v[1]])
    return v[0]


def non_subclass_names(desc, decl):
    """names of classes in the namespace of decl that are not subclasses of it"""
    subs = set(U.subclasses(desc, decl))
    ns = desc['classes'][decl]['ns']
    return [c['name'] for i, c in enumerate(desc['classes'][:desc['n_user']]) if i not in subs and c['ns'] == ns]


def oracle_default_ns(check, desc, b, mi, v, proto, report=True):
    """the same request as a peer may write it: every type marker unprefixed, resolved through a default
    namespace declared on the element.  It must reach user code as the same object."""
    from lxml import etree
    m = desc['methods'][mi]
    app = get_app(desc, b, proto, True)
    full = app._c16_classes
    dd = {'classes': desc['classes']}
    lb = Loopback(app)
    del b.captured[:]
    r = observe(lb.call, m['name'], U.to_native(dd, full, v))
    if r[0] != 'ok' or not lb.trace:
        return []
    doc = parse_xml(lb.trace[0])
    if not real_marks(payload(proto, doc)):
        return []
    doc = markers_through_default_ns(doc, payload(proto, doc))
    raw = etree.tostring(doc)
    marks = real_marks(payload(proto, parse_xml(raw)))
    if any(x is None for x in marks) or marks != expected_marks(dd, ('ref', m['in']), ('obj', m['in'], [v])):
        return []            # the rewriting itself lost a declaration: not a document a peer would send
    del b.captured[:]
    lb.serve(raw)
    ORACLE['default_ns'] = ORACLE.get('default_ns', 0) + 1
    fails = []
    want = norm_value(dd, v)
    got = [norm_value(dd, U.from_native(dd, full, x)) for x in b.captured]
    if lb.last_error is not None or got != [want]:
        fails.append(('C16|%s|default-namespace-marker|%s' % (family(proto), 'refused' if lb.last_error is not None else 'object'),
                      'a request whose type markers are unprefixed and resolve through a default namespace declared on the '
                      'element was %s: %s (error %r, user code received %r, expected %r)'
                      % ('refused' if lb.last_error is not None else 'misread', raw.decode('utf8', 'replace')[:500],
                         lb.last_error, got, want)))
    if report:
        for key, what in fails:
            report_fail(check, key, what, {'kind': 'default-ns', 'program': desc, 'method': mi, 'value': v, 'protocol': proto})
    return fails


def oracle_negative(check, desc, b, mi, v, proto, report=True):
    """a type marker that names an unknown class or a class that is not a subclass of the declared
    one must be refused, and user code must not run"""
    from lxml import etree
    m = desc['methods'][mi]
    if m['ty'][0] != 'ref' or v[0] != 'obj' or v[1] == m['ty'][1]:
        return []
    decl = m['ty'][1]
    bad_names = non_subclass_names(desc, decl) + ['Nope']
    app = get_app(desc, b, proto, True)
    full = app._c16_classes
    dd = {'classes': desc['classes']}
    lb = Loopback(app)
    del b.captured[:]
    r = observe(lb.call, m['name'], U.to_native(dd, full, v))
    if r[0] != 'ok' or not lb.trace:
        return []
    req = lb.trace[0]
    fails = []
    for bad in bad_names[:3]:
        if proto in XML_PROTOS:
            doc = parse_xml(req)
            el = payload(proto, doc)[0]
            t = el.get(XSI_TYPE)
            if t is None or ':' not in t:
                return []
            el.set(XSI_TYPE, t.split(':', 1)[0] + ':' + bad)
            raw = etree.tostring(doc)
        else:
            dumps, loads = wire_codec(proto)
            doc = loads(req)
            (mk, inner), = doc.items()
            (xk, wrapped), = inner.items()
            if not isinstance(wrapped, dict) or len(wrapped) != 1:
                return []
            (ck, body), = wrapped.items()
            inner[xk] = {(bad.encode('utf8') if isinstance(ck, bytes) else bad): body}
            raw = dumps(doc)
        del b.captured[:]
        lb.serve(raw)
        ORACLE['negative'] += 1
        if lb.last_error is None or b.captured:
            got = [U.from_native(dd, full, x) for x in b.captured]
            fails.append(('C16|%s|marker-not-refused|%s' % (family(proto), 'unknown' if bad == 'Nope' else 'non-subclass'),
                          'a request whose type marker names %s class %r where %r is declared was accepted; user code received %r'
                          % ('the unknown' if bad == 'Nope' else 'the unrelated', bad, desc['classes'][decl]['name'], got),
                          bad))
    if report:
        for key, what, bad in fails:
            report_fail(check, key, what, {'kind': 'negative', 'program': desc, 'method': mi, 'value': v, 'protocol': proto,
                                      'marker': bad})
    return fails


def oracle_program(check, desc, b, tier, fixed=None):
    """returns the (message class id, value) pairs it ran, for the conformance correspondence"""
    rng = check.rng
    n = 2 if tier == 'quick' else 6
    ran = []
    todo = []
    if fixed is not None:
        todo = list(fixed)
    else:
        for mi, m in enumerate(desc['methods']):
            for _ in range(n):
                todo.append((mi, gen_value(rng, desc, m['ty'], depth=rng.randint(1, 3), in_quant=True)))
    for mi, v in todo:
        m = desc['methods'][mi]
        ran.append((m['in'], v))
        if True:
            for proto in XML_PROTOS + DICT_PROTOS:
                for poly in (True, False):
                    oracle_case(check, desc, b, mi, v, proto, poly)
                    check.count(('oracle', proto, poly, json.dumps(desc, sort_keys=True), repr(v)))
                if fixed is not None or rng.random() < 0.5:
                    oracle_negative(check, desc, b, mi, v, proto)
                if proto in XML_PROTOS and (fixed is not None or rng.random() < 0.5):
                    oracle_default_ns(check, desc, b, mi, v, proto)
    return ran


# ------------------------------------------------------------------ the theorems' hypotheses on the exercised inputs
def corr_hypotheses(check, desc, prelude, tag, values):
    """the universe-level hypotheses of the theorems hold for the generated program, and the
    in-quantifier values the oracle runs are conformant in the theorems' sense (so the theorems
    speak about exactly these inputs)"""
    lib.correspond(check, 'hypotheses', prelude, 'unit',
                   '(fun _ => wf_universe UU && elem_only UU && keys_ok UU TNS && sub_names_ok UU '
                   '&& forallb (fun p => pfx_ok (snd p)) PMAP && negb (Nat.eqb (length REG) 0))',
                   [('tt', '%s: wf_universe / elem_only / keys_ok / sub_names_ok / pfx_ok / populate' % tag)],
                   show='(fun _ : unit => (wf_universe UU, elem_only UU, keys_ok UU TNS, sub_names_ok UU, '
                        'forallb (fun p => pfx_ok (snd p)) PMAP, length REG))')
    cases = []
    for cid, v in values:
        cases.append(('(%d%%nat, %s)' % (cid, U.g_val(('obj', cid, [v]))), '%s conformance of %r' % (tag, v)))
    lib.correspond(check, 'conformance', prelude, 'nat * val',
                   '(fun c => pconf spyne_leaf UU true (registered REG UU) %d (TRef (fst c)) (snd c) '
                   '&& pconf spyne_leaf UU true (fun _ => true) %d (TRef (fst c)) (snd c) '
                   '&& hconf dict_leaf UU true %d (TRef (fst c)) (snd c))' % (FUEL, FUEL, FUEL), cases,
                   show='(fun c : nat * val => (pconf spyne_leaf UU true (registered REG UU) %d (TRef (fst c)) (snd c), '
                        'hconf dict_leaf UU true %d (TRef (fst c)) (snd c)))' % (FUEL, FUEL))


# ------------------------------------------------------------------ fixed corpus (theorem witnesses and boundary programs)
def _f(name, ty, mn=0, mx=1, nil=True):
    return {'name': name, 'ty': ty, 'min': mn, 'max': mx, 'nillable': nil, 'kind': 'elem'}


def _prog(tns, classes, decls):
    classes = [dict(c) for c in classes]
    n_user = len(classes)
    methods = []
    for i, d in enumerate(decls):
        ty, mn, nil, plain = d[:4]
        classes.append({'ns': tns, 'name': 'm%d' % i, 'parent': None, 'fields': [_f('x', ty, mn, 1, nil)], 'msg': True})
        classes.append({'ns': tns, 'name': 'm%dResponse' % i, 'parent': None, 'fields': [_f('m%dResult' % i, ty, mn, 1, nil)], 'msg': True})
        methods.append({'name': 'm%d' % i, 'ty': ty, 'min': mn, 'nillable': nil, 'in': n_user + 2 * i, 'out': n_user + 2 * i + 1,
                        'plain': plain})
        if len(d) > 4:
            methods[-1]['decl'] = d[4]
    return {'tns': tns, 'classes': classes, 'n_user': n_user, 'methods': methods}


def corpus():
    """(name, program, [(method index, value)])"""
    P, R, A = (lambda p: ('prim', p)), (lambda c: ('ref', c)), (lambda t: ('arr', t))
    out = []
    # 1. the smallest tree: Base <- Sub in the application's namespace (DESIGN.md's witness)
    p1 = _prog('urn:a', [{'ns': 'urn:a', 'name': 'Base', 'parent': None, 'fields': [_f('a', P('int'))]},
                         {'ns': 'urn:a', 'name': 'Sub', 'parent': 0, 'fields': [_f('b', P('text'))]}],
               [(R(0), 0, True, True), (R(0), 1, False, False)])
    out.append(('two-class', p1, [(0, ('obj', 1, [('int', 1), ('text', 'x')])), (1, ('obj', 1, [('int', 2), ('none',)])),
                                  (0, ('obj', 0, [('int', 3)]))]))
    # 2. the program of Props/C16.v: member-less intermediate class, recursive member, container in
    #    another namespace with single / Array / max_occurs>1 members, an instance with every member None
    p2 = _prog('urn:a', [{'ns': 'urn:b', 'name': 'Base', 'parent': None, 'fields': [_f('a', P('int'), 1)]},
                         {'ns': 'urn:b', 'name': 'Mid', 'parent': 0, 'fields': []},
                         {'ns': 'urn:b', 'name': 'Leaf', 'parent': 1, 'fields': [_f('c', P('text')), _f('kid', R(0))]},
                         {'ns': 'urn:b', 'name': 'Other', 'parent': None, 'fields': [_f('z', P('bool'))]},
                         {'ns': 'urn:a', 'name': 'Box', 'parent': None,
                          'fields': [_f('x', R(0)), _f('xs', A(R(0))), _f('ms', R(1), 0, None)]}],
               [(R(4), 0, True, True), (R(1), 0, True, False), (A(R(0)), 0, True, True)])
    leaf = ('obj', 2, [('int', 7), ('text', 'hi'), ('obj', 1, [('int', -1)])])
    box = ('obj', 4, [leaf, ('list', [('obj', 0, [('int', 0)]), ('obj', 1, [('int', 1)]), leaf]),
                      ('list', [('obj', 2, [('int', 5), ('none',), ('none',)]), ('obj', 1, [('int', 6)])])])
    out.append(('props-example', p2, [(0, box), (1, ('obj', 2, [('int', 1), ('none',), ('none',)])),
                                      (1, leaf), (2, ('list', [leaf, ('obj', 1, [('int', 9)]), ('obj', 0, [('int', 8)])])),
                                      (0, ('obj', 4, [('obj', 1, [('int', 4)]), ('none',), ('none',)]))]))
    # 3. a subclass whose members are all optional, held by a container of another namespace: the
    #    marker is the only use of the subclass's namespace in the document
    p3 = _prog('urn:a', [{'ns': 'urn:b', 'name': 'Base', 'parent': None, 'fields': [_f('a', P('int'))]},
                         {'ns': 'urn:b', 'name': 'Sub', 'parent': 0, 'fields': [_f('b', P('text'))]},
                         {'ns': 'urn:c', 'name': 'Sub2', 'parent': 1, 'fields': [_f('c', P('int'))], 'far': True},
                         {'ns': 'urn:a', 'name': 'Box', 'parent': None, 'fields': [_f('x', R(0)), _f('n', P('int'))]}],
               [(R(3), 0, True, True)])
    out.append(('all-none-subclass', p3, [(0, ('obj', 3, [('obj', 1, [('none',), ('none',)]), ('int', 1)])),
                                          (0, ('obj', 3, [('obj', 1, [('int', 1), ('text', 'q')]), ('none',)]))]))
    # 4. a container of the subclass's own namespace as the argument: lxml declares that namespace under
    #    its own prefix on an ancestor of the element that carries the marker
    p4 = _prog('urn:a', [{'ns': 'urn:b', 'name': 'Base', 'parent': None, 'fields': [_f('a', P('int'))]},
                         {'ns': 'urn:b', 'name': 'Sub', 'parent': 0, 'fields': [_f('b', P('text'))]},
                         {'ns': 'urn:b', 'name': 'Holder', 'parent': None,
                          'fields': [_f('n', P('int')), _f('x', R(0)), _f('ys', R(0), 0, None)]},
                         {'ns': 'urn:b', 'name': 'Box', 'parent': None, 'fields': [_f('h', R(2))]}],
               [(R(3), 0, True, True)])
    out.append(('nested-same-namespace', p4,
                [(0, ('obj', 3, [('obj', 2, [('int', 1), ('obj', 1, [('int', 1), ('text', 'q')]),
                                             ('list', [('obj', 1, [('none',), ('none',)]), ('obj', 0, [('int', 2)])])])]))]))
    return out


def cross_namespace_program():
    """B(a) in urn:a <- F(f) in urn:c <- G(xs: Array(B), k: B) back in urn:a, echo(B) and echo(Array(B)).  The interface
    registers B only (F is placed elsewhere, G hangs below F), resolve_namespace reaches F (a direct subclass) but
    never G: G's Array class keeps no namespace.  Instances of F and G are outside the property's quantifier (their
    markers cannot be looked up); the correspondences run them all the same (forced values), the oracle runs B."""
    P = lambda p: ('prim', p)
    desc = _prog('urn:a', [{'ns': 'urn:a', 'name': 'B', 'parent': None, 'fields': [_f('a', P('int'))]},
                           {'ns': 'urn:c', 'name': 'F', 'parent': 0, 'fields': [_f('f', P('int'))], 'far': True},
                           {'ns': 'urn:a', 'name': 'G', 'parent': 1,
                            'fields': [_f('xs', ('arr', ('ref', 0))), _f('k', ('ref', 0)), _f('ps', ('arr', P('text')))]}],
                 [(('ref', 0), 0, True, True), (('arr', ('ref', 0)), 0, True, False)])
    bv = ('obj', 0, [('int', 1)])
    fv = ('obj', 1, [('int', 2), ('int', 3)])
    gv = ('obj', 2, [('int', 4), ('int', 5), ('list', [bv, fv, ('obj', 2, [('none',), ('none',), ('list', []), ('none',), ('none',)])]),
                     fv, ('list', [('text', 'p'), ('text', '')])])
    vals = [(0, bv), (1, ('list', [bv, bv]))]
    forced = [(0, gv), (0, fv), (1, ('list', [gv, bv, fv]))]
    return desc, vals, forced

def deep_chain_program(depth=5):
    """K0 <- K1 <- ... <- K<depth> in one namespace (K2 has no members of its own), a slot declared at every
    ancestor and an Array(K0) slot; instances of every depth at every slot"""
    P = lambda p: ('prim', p)
    classes = []
    for i in range(depth + 1):
        classes.append({'ns': 'urn:b', 'name': 'K%d' % i, 'parent': None if i == 0 else i - 1,
                        'fields': [] if i == 2 else [_f('k%d' % i, P(U.PRIMS[i % 3]))]})
    decls = [(('ref', i), 0, True, i % 2 == 0) for i in range(depth)] + [(('arr', ('ref', 0)), 0, True, True)]
    desc = _prog('urn:a', classes, decls)

    def inst(j):
        vals = []
        for f in U.flat_fields({'classes': classes}, j):
            p = f['ty'][1]
            vals.append(('int', j) if p == 'int' else ('text', 'k%d' % j) if p == 'text' else ('bool', j % 2 == 0))
        return ('obj', j, vals)
    vals = [(i, inst(j)) for i in range(depth) for j in range(i, depth + 1)]
    vals.append((depth, ('list', [inst(j) for j in range(depth, -1, -1)])))
    return desc, vals


def probe_subclass_first(check):
    """the flattened type info of the deepest subclass is computed before that of its bases (first use of
    the program: a Leaf where Base is declared, polymorphic=True), then the bases are projected
    (polymorphic=False): nothing the subclass's computation did may show in the base's members"""
    P = lambda p: ('prim', p)
    desc = _prog('urn:a', [{'ns': 'urn:b', 'name': 'Base', 'parent': None, 'fields': [_f('a', P('int'))]},
                           {'ns': 'urn:b', 'name': 'Mid', 'parent': 0, 'fields': [_f('b', P('text'))]},
                           {'ns': 'urn:b', 'name': 'Leaf', 'parent': 1, 'fields': [_f('c', P('int'))]}],
                 [(('ref', 0), 0, True, True), (('ref', 1), 0, True, True), (('arr', ('ref', 0)), 0, True, True)])
    leaf = ('obj', 2, [('int', 1), ('text', 'm'), ('int', 3)])
    mid = ('obj', 1, [('int', 4), ('text', 'n')])
    base = ('obj', 0, [('int', 5)])
    for first in DICT_PROTOS[:1] + XML_PROTOS[:1]:
        b = build(desc)          # fresh classes: nothing memoised yet
        order = [(0, leaf, first, True)]
        for proto in XML_PROTOS + DICT_PROTOS:
            order += [(0, leaf, proto, False), (1, leaf, proto, False), (0, mid, proto, False), (0, base, proto, True),
                      (2, ('list', [leaf, mid, base]), proto, False), (2, ('list', [leaf, mid, base]), proto, True)]
        for mi, v, proto, poly in order:
            oracle_case(check, desc, b, mi, v, proto, poly, tag='subclass-first:' + first)
            check.count(('subclass-first', first, proto, poly, mi, repr(v)))


# ------------------------------------------------------------------ growing hierarchies (oracle only)
def extend_program(desc, b, new):
    """define further subclasses AFTER the program has been used; plain primitive members, so that no
    customize() / Array() call (which flush the memoised subclass lists) happens on the way"""
    from spyne.model.complex import ComplexModelMeta
    from spyne.model.primitive import Integer, Unicode, Boolean
    prim = {'int': Integer, 'text': Unicode, 'bool': Boolean}
    if not hasattr(b, 'extra'):
        b.extra = []
    for c in new:
        full = next(iter(b.apps.values()))._c16_classes
        base = full[c['parent']]
        ti = [(f['name'], prim[f['ty'][1]]) for f in c['fields']]
        k = ComplexModelMeta(str(c['name']), (base,), {'__namespace__': c['ns'], '_type_info': ti})
        desc['classes'].append(dict(c))
        b.extra.append(k)
        for app in b.apps.values():
            app._c16_classes.append(k)


def grow_plan(rng, desc):
    """new subclasses below a root, below a middle class and below a leaf of the hierarchies the
    methods declare"""
    new, seen = [], set()
    nxt = len(desc['classes'])
    for m in desc['methods']:
        t = m['ty']
        while t[0] == 'arr':
            t = t[1]
        if t[0] != 'ref' or t[1] >= desc['n_user'] or t[1] in seen:
            continue
        seen.add(t[1])
        subs = [s for s in U.subclasses(desc, t[1]) if placed(desc, s, t[1])]
        kids = lambda c: [s for s in subs if desc['classes'][s]['parent'] == c]
        root = t[1]
        middles = [s for s in subs if s != root and kids(s)]
        leaves = [s for s in subs if not kids(s)]
        parents = [root]
        if middles:
            parents.append(rng.choice(middles))
        if leaves:
            parents.append(rng.choice(leaves))
        for p in parents:
            if p in [n['parent'] for n in new]:
                continue
            new.append({'ns': desc['classes'][p]['ns'], 'name': 'G%d' % nxt, 'parent': p,
                        'fields': [{'name': 'g%d' % nxt, 'ty': ('prim', rng.choice(U.PRIMS)), 'min': 0, 'max': 1,
                                    'nillable': True, 'kind': 'elem'}]})
            nxt += 1
    return new


def grown_value(rng, desc, ty, g):
    """a value of declared type ty whose (first) object is an instance of the new class g"""
    if ty[0] == 'arr':
        return ('list', [grown_value(rng, desc, ty[1], g), gen_value(rng, desc, ty[1], 1, True, 0.0)])
    vals = [gen_field_value(rng, desc, f, 1, True) for f in U.flat_fields(desc, g)]
    return ('obj', g, vals)


def run_growing(check, desc, warm, new, rng=None, only=None):
    """(1) use the tree through all six protocols, (2) define the new subclasses, (3) send instances of the
    new classes where the old bases are declared: dict protocols through the applications that already
    exist (their subclass lookup is Python-level), all six through fresh applications over the same
    classes (the interface registers classes when the application is built)"""
    import copy as _copy
    before = _copy.deepcopy(desc)
    b = build(desc)
    for mi, v in warm:
        for proto in XML_PROTOS + DICT_PROTOS:
            oracle_case(check, desc, b, mi, v, proto, True)
    extend_program(desc, b, new)
    first = len(desc['classes']) - len(new)
    todo = only
    if todo is None:
        todo = []
        for gi in range(len(new)):
            g = first + gi
            for mi, m in enumerate(desc['methods']):
                t = m['ty']
                while t[0] == 'arr':
                    t = t[1]
                if t[0] == 'ref' and t[1] < desc['n_user'] and placed(desc, g, t[1]):
                    todo.append((mi, grown_value(rng, desc, m['ty'], g)))
    out = []
    for fresh in (False, True):
        b.gen = 1 if fresh else 0
        for mi, v in todo:
            for proto in (XML_PROTOS + DICT_PROTOS) if fresh else DICT_PROTOS:
                extra = {'kind': 'growing', 'program': before, 'grow': new, 'warm': warm, 'fresh': fresh}
                out += oracle_case(check, desc, b, mi, v, proto, True, extra=extra,
                                   tag='grown-fresh-app' if fresh else 'grown-same-app')
                check.count(('growing', fresh, proto, json.dumps(before, sort_keys=True), repr(v)))
    b.gen = 0
    return out


def oracle_growing(check, tier):
    rng = check.rng
    # a fixed witness first: Base <- Sub, then Sub2(Sub) and Sub3(Base) are defined after the first calls
    P = lambda p: ('prim', p)
    d0 = _prog('urn:a', [{'ns': 'urn:b', 'name': 'Base', 'parent': None, 'fields': [_f('a', P('int'))]},
                         {'ns': 'urn:b', 'name': 'Sub', 'parent': 0, 'fields': [_f('b', P('text'))]}],
               [(('ref', 0), 0, True, True), (('arr', ('ref', 0)), 0, True, True)])
    new0 = [{'ns': 'urn:b', 'name': 'Sub2', 'parent': 1, 'fields': [_f('c', P('int'))]},
            {'ns': 'urn:b', 'name': 'Sub3', 'parent': 0, 'fields': [_f('d', P('bool'))]}]
    warm0 = [(0, ('obj', 1, [('int', 1), ('text', 'x')])), (1, ('list', [('obj', 0, [('int', 2)]), ('obj', 1, [('int', 3), ('none',)])]))]
    run_growing(check, d0, warm0, new0, rng)
    for _ in range(1 if tier == 'quick' else 6):
        desc = gen_tree(rng)
        warm = [(mi, gen_value(rng, desc, m['ty'], depth=rng.randint(1, 2), in_quant=True)) for mi, m in enumerate(desc['methods'])]
        new = grow_plan(rng, desc)
        if new:
            run_growing(check, desc, warm, new, rng)


# ------------------------------------------------------------------ declared types customised twice (oracle only)
def probe_twice_customised(check):
    """P.customize(..).customize(..), Array(P.customize(..)) and Array(Mandatory(P)) as declared types,
    holding instances of subclasses of P: the comparison class of get_polymorphic_target must be the
    class the variants originate from, however many customisations lie in between"""
    P = lambda p: ('prim', p)
    desc = _prog('urn:a', [{'ns': 'urn:b', 'name': 'P', 'parent': None, 'fields': [_f('a', P('int'))]},
                           {'ns': 'urn:b', 'name': 'Q', 'parent': 0, 'fields': [_f('b', P('text'))]},
                           {'ns': 'urn:b', 'name': 'R', 'parent': 1, 'fields': [_f('c', P('int'))]}],
                 [(('ref', 0), 1, False, False, 'cc'),
                  (('arr', ('ref', 0)), 0, True, True, 'arr_cust'),
                  (('arr', ('ref', 0), 'MandatoryP'), 0, True, True, 'arr_mand')])
    b = build(desc)
    p, q, r = ('obj', 0, [('int', 1)]), ('obj', 1, [('int', 2), ('text', 'q')]), ('obj', 2, [('int', 3), ('none',), ('int', 4)])
    cases = [(0, q), (0, r), (0, p), (1, ('list', [p, q, r])), (2, ('list', [q, r]))]
    for mi, v in cases:
        for proto in XML_PROTOS + DICT_PROTOS:
            oracle_case(check, desc, b, mi, v, proto, True, tag='customised-twice:' + desc['methods'][mi]['decl'])
            check.count(('twice', proto, mi, repr(v)))
            if mi < 2:
                oracle_case(check, desc, b, mi, v, proto, False, tag='customised-twice:' + desc['methods'][mi]['decl'])


# ------------------------------------------------------------------ known finding: member-less root base
def probe_empty_root(check):
    """class E(ComplexModel): pass; class F(E): f = Integer; echo(E) with an F instance.  The metaclass
    does not make F extend E (C16_extends_refuted), so F is not substitutable for E anywhere."""
    desc = _prog('urn:a', [{'ns': 'urn:a', 'name': 'E', 'parent': None, 'fields': []},
                           {'ns': 'urn:a', 'name': 'F', 'parent': 0, 'fields': [_f('f', ('prim', 'int'))]}],
                 [(('ref', 0), 0, True, True)])
    b = build(desc)
    v = ('obj', 1, [('int', 1)])
    for proto in XML_PROTOS + DICT_PROTOS:
        fails = oracle_case(check, desc, b, 0, v, proto, True, report=False)
        kinds = sorted(set('|'.join(k.split('|')[3:5]) if k.split('|')[3] in ('request', 'response') else k.split('|')[3]
                           for k, _ in fails))
        check.count(('emptyroot', proto))
        if fails:
            check.fail('C16|emptyroot|%s' % proto,
                       'an instance of F (class F(E): f = Integer) sent where the member-less root class E is declared, '
                       '%s polymorphic=True, does not arrive as an F [%s]: %s' % (proto, ', '.join(kinds), fails[0][1][:300]),
                       {'kind': 'roundtrip', 'program': desc, 'method': 0, 'value': v, 'protocol': proto, 'polymorphic': True})


# ------------------------------------------------------------------ run
def unresolved_arrays(app):
    """(namespace, member name) of the Array-typed members whose Array class was never given a namespace
    (no resolve_namespace call reached the declaring class): an input of the model, see p_unres"""
    from spyne.model.complex import Array
    out = set()
    for cls in app._c16_classes:
        for k, v in cls._type_info.items():
            if isinstance(v, type) and issubclass(v, Array) and v.get_namespace() is None:
                out.add((cls.get_namespace(), k))
    return out


def prelude_factory(desc):
    def f(*apps):
        # prefixes are allocated lazily by the application that writes a marker; the applications
        # of one program that allocate at all must agree
        pm = {}
        unres = set()
        for a in apps:
            if a is None:
                continue
            for k, v in a.interface.prefmap.items():
                if pm.setdefault(k, v) != v:
                    raise RuntimeError('applications of one program disagree on the prefix of %r' % k)
            unres |= unresolved_arrays(a)
        if unres:
            ORACLE['preludes_with_unresolved_array_classes'] = ORACLE.get('preludes_with_unresolved_array_classes', 0) + 1
        if os.environ.get('C16_NO_UNRES'):      # development switch: show what the model says without the input
            unres = set()
        return g_prelude(desc, pm, unres=unres)
    return f


def run_program(check, desc, tag, tier, with_codecs=True, fixed=None, forced=()):
    b = build(desc)
    app = get_app(desc, b, 'XmlDocument', True)
    pf = prelude_factory(desc)
    prelude = pf(app)
    corr_flat(check, desc, b, app, prelude, tag)
    corr_registry(check, desc, b, app, prelude, tag)
    if with_codecs:
        corr_xml(check, desc, b, pf, tag, tier, forced)
        corr_hier(check, desc, b, pf, tag, tier, forced)
        ran = oracle_program(check, desc, b, tier, fixed)
        corr_hypotheses(check, desc, pf(app), tag, ran)
    return b


def run(check):
    tier = check.tier
    rng = check.rng
    check.rule = ('4 fixed programs (theorem witnesses, boundary shapes) then generated programs: 1-2 class hierarchies of depth '
                  '<= 3 (subclasses in the namespace of their base, a few placed elsewhere, member-less intermediate classes, '
                  'recursive members), an unrelated class, containers with single / max_occurs>1 / Array members of base type, '
                  'echo methods over plain and customised declared types, all members customised variants; plus programs with '
                  'redeclared members and member-less roots for the type-info / registry correspondences only. Correspondence: '
                  'class statements -> __extends__ and flattened type info, interface registry, XML trees with the receiver-side '
                  'resolution of every xsi:type, from_element on valid and mutated documents (marker renamed / rebound / '
                  'unbound / added / removed, structure edits; validator None and soft), dict documents and _doc_to_object on '
                  'valid and mutated documents (wrapper key renamed, doubled, emptied, replaced). Direct oracle: every value '
                  'through a loopback client and ServerBase for six protocols x polymorphic on/off (objects received by user '
                  'code and by the client, type markers, member order and member set of both documents), and requests whose '
                  'marker names an unknown / unrelated class, and requests rewritten as a peer may send them (markers unprefixed, '
                  'resolved through a default namespace); a fixed chain K0..K5 with a slot declared at every ancestor and instances '
                  'of every depth at every slot (generated chains reach depth 6); the flattened type info of a subclass computed '
                  'before its bases\' (first use), then polymorphic=False projections; declared types customised twice (P.customize().customize(), '
                  'Array(P.customize()), Array(Mandatory(P))) holding subclass instances; growing hierarchies: a tree is used '
                  'through all six protocols, further subclasses are then defined below a root, a middle class and a leaf '
                  '(no customize()/Array() in between), and instances of the new classes are sent where the old bases are '
                  'declared, dict protocols through the existing applications and all six through fresh ones. '
                  'A case is distinct by (operation, protocol, polymorphic, '
                  'program, value or document).')
    check.trusted = list(lib.COMMON_TRUSTED) + [
        'lxml: SubElement(..., nsmap={prefix: uri}) declares the prefix on the new element; cleanup_namespaces('
        'keep_ns_prefixes=...) keeps it; element.nsmap is the innermost-first union of the declarations of the element '
        'and its ancestors; serialise/parse preserves declarations, attribute values and element order (modelled as the '
        'scope threading of pdec and as [wire]; tied by the xml_enc / xml_dec correspondences, which render the '
        'implementation\'s documents with their own declarations and compare the receiver-side resolution of every xsi:type)',
        'json / PyYAML / msgpack: loads(dumps(d)) = d on documents made of null, booleans, 64-bit integers, text, lists and '
        'text-keyed maps (msgpack bin values and keys are shown as UTF-8 text by the harness)',
        'Python class machinery as used by Spyne\'s metaclass: __extends__ is what the universe calls the parent link '
        '(compared class by class in the flat_type_info correspondence), isinstance/issubclass follow it, '
        'Attributes._subclasses lists direct subclasses in creation order',
        'prefix allocation (Interface.get_namespace_prefix) is not modelled: the prefix table the interface ended up with '
        'is an input of every case; the theorems hold for any table whose prefixes are non-empty and colon-free',
        'the namespace of an Array(T) class is global state assigned when resolve_namespace reaches the class that '
        'declares the member (message classes, what add_class visits, their direct subclasses and what those refer to); '
        'members of classes no application reached (e.g. below a subclass placed in another namespace) keep None and their '
        'items are written without a namespace. That reachability is not modelled: the list of such members is read from '
        'the implementation\'s classes and is an input of every case (p_unres); the theorems hold for any list, and '
        'instances of such classes are outside the property\'s quantifier',
        'the leaf codecs of Integer / Unicode / Boolean: C08 via C01/Leaf.v for XML; for dict documents the identity on '
        '64-bit integers, text and booleans (C16/Leaf.v), other leaves are C02\'s subject',
    ]
    check.assumptions = [
        'theorem hypotheses, all decidable and evaluated on every generated program (correspondence "hypotheses"): '
        'wf_universe (acyclic single inheritance, distinct flattened member names), elem_only (no XmlAttribute members), '
        'keys_ok (distinct types have distinct {ns}name keys), sub_names_ok (type names distinct among a class and its '
        'subclasses), pfx_ok of every allocated prefix, populate returns Some (fuel)',
        'the values the oracle runs are conformant in the theorems\' sense (correspondence "conformance"): runtime '
        'classes other than the declared one are registered; no None inside lists; complex / array members are optional',
        'the universe of the theorems is fixed: the memoisation of get_subclasses / get_flat_type_info and its '
        'invalidation when classes are defined later are not modelled; that part is covered by the growing-hierarchy '
        'oracle only',
        'validator=None for the theorems (soft validation is modelled and exercised by the xml_dec correspondence only); '
        'ignore_wrappers=False, complex_as=dict, default polymap, no sub_name / sub_ns / XmlData / XmlAttribute / mixins',
    ]
    check.regen(['numtypes', 'c16shape'])
    check.check_sources()
    check.prove('Props.C16', THEOREMS)
    for name, desc, vals in corpus():
        run_program(check, desc, 'corpus %s' % name, tier, fixed=vals)
    desc, vals = deep_chain_program(5)
    run_program(check, desc, 'corpus deep-chain', tier, fixed=vals)
    probe_subclass_first(check)
    desc, vals, forced = cross_namespace_program()
    run_program(check, desc, 'corpus cross-namespace-chain', tier, fixed=vals, forced=forced)
    n_prog = 6 if tier == 'quick' else 40
    for pi in range(n_prog):
        desc = gen_tree(rng)
        run_program(check, desc, 'program %d' % pi, tier)
    for pi in range(3 if tier == 'quick' else 15):
        desc = gen_tree(rng, override=True)
        run_program(check, desc, 'override program %d' % pi, tier, with_codecs=False)
    probe_empty_root(check)
    probe_twice_customised(check)
    oracle_growing(check, tier)
    lib.flush_correspondences(check)
    check.extra['outcomes_by_mutation'] = dict(sorted(STATS.items()))
    check.extra['oracle'] = dict(ORACLE)
    if SUPPRESSED:
        check.extra['further_violations_of_reported_classes'] = dict(sorted(SUPPRESSED.items()))
    return check.finish()


def _tuplify(v):
    if isinstance(v, list):
        return tuple(_tuplify(x) if isinstance(x, list) and x and isinstance(x[0], str) else
                     ([_tuplify(y) for y in x] if isinstance(x, list) else x) for x in v)
    return v


def replay(check, path):
    """re-runs the recorded case against the implementation and prints what the oracle sees"""
    r = json.load(open(path))
    rp = r.get('replay', {})
    print('property %s  key %s' % (r.get('property'), r.get('key')))
    print('recorded: %s' % r.get('what', '')[:1500])
    if rp.get('kind') not in ('roundtrip', 'negative', 'growing', 'default-ns'):
        print(json.dumps(rp, indent=1)[:3000])
        return 0
    desc = rp['program']
    for c in desc['classes'] + rp.get('grow', []):
        for f in c['fields']:
            f['ty'] = _tuplify(f['ty'])
    for m in desc['methods']:
        m['ty'] = _tuplify(m['ty'])
    v = _tuplify(rp['value'])
    if rp['kind'] == 'growing':
        warm = [(mi, _tuplify(w)) for mi, w in rp['warm']]
        fails = [f for f in run_growing(check, desc, warm, rp['grow'], only=[(rp['method'], v)])]
        # only the recorded step (same / fresh application, protocol) decides
        tagw = 'grown-fresh-app' if rp.get('fresh') else 'grown-same-app'
        fails = [(k, w) for k, w in fails if tagw in k and ('|%s|' % rp['protocol']) in k]
        check.violations[:] = []
        for k, w in fails:
            print('replay: STILL FAILS [%s] %s' % (k, w[:1200]))
        if not fails:
            print('replay: the case passes on this tree')
        return 1 if fails else 0
    b = build(desc)
    if rp['kind'] == 'default-ns':
        fails = oracle_default_ns(check, desc, b, rp['method'], v, rp['protocol'], report=False)
    elif rp['kind'] == 'roundtrip':
        fails = oracle_case(check, desc, b, rp['method'], v, rp['protocol'], rp['polymorphic'], report=False)
    else:
        fails = [(k, w) for k, w, _ in oracle_negative(check, desc, b, rp['method'], v, rp['protocol'], report=False)]
    if not fails:
        print('replay: the case passes on this tree')
        return 0
    for k, w in fails:
        print('replay: STILL FAILS [%s] %s' % (k, w[:1200]))
    return 1
