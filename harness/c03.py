"""C03 — HttpRpc flat key/value fidelity.

Model: coq/C03/Model.v (_s2cmi, key scanner, _natural_key, simple_dict_to_object,
get_simple_type_info, object_to_simple_dict, _parse_qs).  Theorems: coq/Props/C03.v.
Tie: correspondences below drive the real code (WSGI GET through WsgiApplication +
HttpRpc, _s2cmi, the regex helpers, _parse_qs, object_to_simple_dict) and compare with
the model evaluated by vm_compute.  Direct oracle: the property itself on the real code
(spell a value in the documented notation, permute, GET, compare what the user function
received; flatten -> GET -> equal object; exact response text and declared headers)."""
import os, sys, json, re, itertools
from io import BytesIO
from urllib.parse import quote
import lib
from lib import gz, gtext, glist, gbool, gopt, gpair

THEOREMS = ['C03_s2cmi_rank', 'C03_request_fidelity', 'C03_qs_roundtrip', 'C03_get_fidelity',
            'C03_flatten_roundtrip', 'C03_request_fidelity_pinned_refuted',
            'C03_request_fidelity_pinned_strict_refuted', 'C03_flatten_roundtrip_refuted',
            'C03_response_fidelity', 'C03_header_date_instant']
SRC_THEOREMS = ['C03_source_tie']

IMPORTS = 'From SpyneV Require Import Base.Prelude C03.Model C03.Check C03.Spec.'
NAMES = ['a', 'b', 'c', 'i', 's', 'xs', 'p', 'q', 'n1', 'val', 'it', 'k9']
DELIMS = ['.', '.', '.', '_', '__', '/', ':', '-']
TEXT_ALPHABET = 'abcxyzABC0129 .-_~&;=+%[]#?/:@!$\'(),*"<>\\^`{|}\t'


# ------------------------------------------------------------------ Gallina printers
def gty(t):
    if t['k'] == 'prim':
        return '(TPrim %s)' % gbool(t['arr'])
    return '(TObj %s %s)' % (gbool(t['arr']), gfields(t['fields']))

def gfields(fs):
    return glist(['(%s, %s)' % (gtext(n), gty(t)) for n, t in fs])

def gval(v):
    k = v[0]
    if k == 'N':
        return 'VNone'
    if k == 'S':
        return '(VStr %s)' % gtext(v[1])
    if k == 'L':
        return '(VList %s)' % glist([gtext(x) for x in v[1]])
    if k == 'O':
        return '(VObj %s)' % gobj(v[1])
    if k == 'A':
        return '(VArr [] %s)' % glist([gval(x) for x in v[1]])
    raise ValueError(v)

def gobj(fs):
    return glist(['(%s, %s)' % (gtext(n), gval(x)) for n, x in fs])

def gobs(o):
    if o[0] == 'ok':
        return '(Ok %s)' % gobj(o[1])
    if o[0] == 'vfault':
        return 'VFault'
    return '(Crash OtherExn)'


# ------------------------------------------------------------------ type universe
class Gen(object):
    """seeded generator of member types, sparse values and their spellings"""

    def __init__(self, rng):
        self.rng = rng
        self.cid = 0
        self.left = 0
        self.big = 0

    def topval(self, fields, contiguous, ascii_only=True):
        """a value for a whole signature, of bounded size (at most one long array)"""
        self.left = 36
        self.big = 1
        return self.objval(fields, contiguous, ascii_only)

    def prim(self, arr=None, leaf=None):
        r = self.rng
        return {'k': 'prim', 'arr': (r.random() < 0.35) if arr is None else arr,
                'leaf': leaf or r.choice('ui'), 'style': r.choice('AM')}

    def obj(self, depth, arr=None, nfields=None):
        r = self.rng
        self.cid += 1
        n = nfields or r.choice([1, 2, 2, 3, 3, 4])
        names = r.sample(NAMES, n)
        fields = []
        for nm in names:
            if depth > 0 and r.random() < 0.45:
                if fields and r.random() < 0.3:
                    # the same class again in another member (shared class object)
                    prev = [t for _, t in fields if t['k'] == 'obj']
                    if prev:
                        t = dict(r.choice(prev))
                        if r.random() < 0.5:
                            # a different member type over the same class
                            t['arr'] = r.random() < 0.4
                            t['style'] = r.choice('AM')
                        elif r.random() < 0.6:
                            # the very same member type OBJECT (arr = Array(Item) / Item.customize(max_occurs=..)
                            # created once and used for several sibling members), preferably an array
                            t['arr'] = True
                        fields.append((nm, t))
                        continue
                fields.append((nm, self.obj(depth - 1)))
            else:
                prevp = [t for _, t in fields if t['k'] == 'prim' and t['arr']]
                if prevp and r.random() < 0.3:
                    fields.append((nm, dict(r.choice(prevp))))      # the same primitive array type object again
                else:
                    fields.append((nm, self.prim()))
        return {'k': 'obj', 'arr': (r.random() < 0.45) if arr is None else arr, 'style': r.choice('AM'),
                'cid': self.cid, 'fields': fields}

    def signature(self, depth=None):
        """the in_message of one method: the parameters are the fields"""
        r = self.rng
        t = self.obj(r.choice([1, 2, 2, 3]) if depth is None else depth, arr=False)
        return t['fields']

    # -- values.  sparse value: ['N'] | ['S', s] | ['L', [s..]] | ['O', [[n, v]..]] | ['A', [[label, v]..]]
    def text(self, leaf, ascii_only=True):
        r = self.rng
        if leaf == 'i':
            return str(r.choice([0, 1, -1, 7, 10, 42, -305, 2 ** 31, 10 ** 20, -(2 ** 64)] + [r.randint(-999, 999)] * 3))
        n = r.choice([0, 1, 1, 2, 3, 5, 9])
        al = TEXT_ALPHABET if ascii_only else TEXT_ALPHABET + 'éßжΩ€中😀'
        s = ''.join(r.choice(al) for _ in range(n))
        return s

    def labels(self, n, contiguous):
        r = self.rng
        if contiguous or r.random() < 0.4:
            return list(range(n))
        out, cur = [], r.choice([0, 0, 1, 3, 9, 10])
        for _ in range(n):
            out.append(cur)
            cur += r.choice([1, 1, 1, 2, 3, 8, 10, 91, 1000])
        return out

    def alen(self):
        return self.rng.choice([0, 1, 1, 2, 2, 3, 3, 4, 5, 11, 12, 13])

    def value(self, t, contiguous, force=False, ascii_only=True):
        r = self.rng
        if not force and (r.random() < 0.25 or self.left <= 0):
            return ['N']
        if t['k'] == 'prim':
            if t['arr']:
                n = max(1, self.alen())
                if n > 5:
                    n = n if self.big > 0 and self.left > 0 else r.choice([1, 2, 3])
                    self.big -= 1
                if self.left <= 0:
                    n = 1
                self.left -= n
                return ['L', [self.text(t['leaf'], ascii_only) for _ in range(n)]]
            self.left -= 1
            return ['S', self.text(t['leaf'], ascii_only)]
        if t['arr']:
            n = self.alen()
            if n > 5:
                n = n if self.big > 0 and self.left > 0 else r.choice([1, 2, 3])
                self.big -= 1
            if self.left <= 0:
                n = min(n, 1)
            self.left -= 1
            return ['A', [[lab, self.objval(t['fields'], contiguous, ascii_only)] for lab in self.labels(n, contiguous)]]
        return self.objval(t['fields'], contiguous, ascii_only)

    def objval(self, fields, contiguous, ascii_only=True):
        """an object with at least one spelled item below it"""
        vs = [[n, self.value(t, contiguous, False, ascii_only)] for n, t in fields]
        if all(not has_items(v) for _, v in vs):
            i = self.rng.randrange(len(fields))
            vs[i][1] = self.value(fields[i][1], contiguous, True, ascii_only)
        return ['O', vs]


def has_items(v):
    k = v[0]
    if k == 'N':
        return False
    if k in ('S', 'A'):
        return True          # an empty complex array is spelled as key=empty
    if k == 'L':
        return len(v[1]) > 0
    return any(has_items(x) for _, x in v[1])

def decide(fields, ov, rng, indexed_prims=None):
    """fix the spelling choices the notation leaves open: a primitive array ['L', xs] becomes
    ['R', xs] (repeated key) or ['I', [[label, x]..]] (indexed keys, increasing labels)"""
    def go(t, v):
        k = v[0]
        if k == 'L':
            ix = indexed_prims if indexed_prims is not None else (rng.random() < 0.5)
            if not ix:
                return ['R', list(v[1])]
            labs = list(range(len(v[1]))) if rng.random() < 0.6 else \
                sorted(rng.sample(range(0, 40 + 3 * len(v[1])), len(v[1])))
            return ['I', [[lab, x] for lab, x in zip(labs, v[1])]]
        if k == 'A':
            return ['A', [[lab, go(dict(t, arr=False), e)] for lab, e in v[1]]]
        if k == 'O':
            return ['O', [[n, go(ft, fv)] for (n, ft), (_, fv) in zip(t['fields'], v[1])]]
        return v
    return ['O', [[n, go(ft, fv)] for (n, ft), (_, fv) in zip(fields, ov[1])]]

def compact(v):
    """sparse (possibly decided) value -> the value the user function must receive"""
    k = v[0]
    if k == 'A':
        return ['A', [compact(x) for _, x in v[1]]]
    if k == 'O':
        return ['O', [[n, compact(x)] for n, x in v[1]]]
    if k == 'R':
        return ['L', list(v[1])]
    if k == 'I':
        return ['L', [x for _, x in v[1]]]
    return v

def spell(fields, dv, delim):
    """documented flattened notation of a decided value: list of (key, value) pairs in
    declaration order (the Python twin of Spec.spell; tied to it by the spec_tie correspondence)"""
    out = []
    def go(t, v, prefix):
        k = v[0]
        if k == 'N':
            return
        key = delim.join(prefix)
        if k == 'S':
            out.append((key, v[1]))
        elif k == 'R':
            for x in v[1]:
                out.append((key, x))
        elif k == 'I':
            for lab, x in v[1]:
                out.append(('%s[%d]' % (key, lab), x))
        elif k == 'A':
            if not v[1]:
                out.append((key, 'empty'))
            for lab, e in v[1]:
                p2 = prefix[:-1] + ['%s[%d]' % (prefix[-1], lab)]
                for (n, ft), (_, fv) in zip(t['fields'], e[1]):
                    go(ft, fv, p2 + [n])
        else:
            for (n, ft), (_, fv) in zip(t['fields'], v[1]):
                go(ft, fv, prefix + [n])
    for (n, ft), (_, fv) in zip(fields, dv[1]):
        go(ft, fv, [n])
    return out

def gsval(v):
    k = v[0]
    if k == 'N':
        return 'SNone'
    if k == 'S':
        return '(SStr %s)' % gtext(v[1])
    if k == 'R':
        return '(SRep %s)' % glist([gtext(x) for x in v[1]])
    if k == 'I':
        return '(SIdx %s)' % glist(['(%s, %s)' % (gz(lab), gtext(x)) for lab, x in v[1]])
    if k == 'O':
        return '(SObj %s)' % glist([gsval(x) for _, x in v[1]])
    if k == 'A':
        return '(SArr %s)' % glist(['(%s, %s)' % (gz(lab), gsval(e)) for lab, e in v[1]])
    raise ValueError(v)

def group_pairs(pairs):
    d = {}
    for k, v in pairs:
        d.setdefault(k, []).append(v)
    return list(d.items())

def gdoc(doc):
    return glist(['(%s, %s)' % (gtext(k), glist([gtext(x) for x in vs])) for k, vs in doc])

SPEC_TIE = []        # cases of the spec_tie correspondence, queued by the generators below
SPEC_TIE_MAX = [400]

def spec_tie_case(check, strict, delim, fields, dv, pairs):
    """the Python generator's notion of 'conformant value spelled in the documented notation' is the
    Coq one: wf_sig, conf_fields, the document is a permutation of Spec.spell, and the expected
    value is Spec.compact_fields"""
    if len(SPEC_TIE) >= SPEC_TIE_MAX[0]:
        return
    exp = compact(dv)[1]
    term = '(%s, %s, %s, %s, %s, %s)' % (gbool(strict), gtext(delim), gfields(fields),
                                         glist([gsval(x) for _, x in dv[1]]), gdoc(group_pairs(pairs)), gobj(exp))
    SPEC_TIE.append((term, 'spec tie strict=%s delim=%r fields=%s value=%s' % (
        strict, delim, short_fields(fields), json.dumps(dv)[:300])))
    check.count(('spec', strict, delim, short_fields(fields), json.dumps(dv), json.dumps(pairs)))

def shuffle_pairs(pairs, rng):
    """a permutation of the pairs that keeps pairs with the same key in their order
    (the repeated-key notation has no other way to say the order)"""
    idx = list(range(len(pairs)))
    rng.shuffle(idx)
    by_key = {}
    for i in sorted(idx, key=lambda i: i):
        by_key.setdefault(pairs[i][0], []).append(pairs[i])
    taken = {}
    out = []
    for i in idx:
        k = pairs[i][0]
        j = taken.get(k, 0)
        out.append(by_key[k][j])
        taken[k] = j + 1
    return out

def enc_component(s, rng, mode):
    if mode == 0:
        return quote(s, safe='')
    out = []
    for ch in s:
        o = ord(ch)
        must = ch in '&;=+%#' or o >= 128 or o < 33 or o == 127
        if ch == ' ' and rng.random() < 0.5:
            out.append('+')
        elif must or rng.random() < 0.2:
            e = quote(ch, safe='')
            if e == ch:
                e = '%%%02X' % o
            out.append(e.lower() if rng.random() < 0.3 else e)
        else:
            out.append(ch)
    return ''.join(out)

def encode_qs(pairs, rng):
    mode = rng.choice([0, 1, 1])
    sep = rng.choice(['&', '&', '&', ';'])
    parts = ['%s=%s' % (enc_component(k, rng, mode), enc_component(v, rng, mode)) for k, v in pairs]
    if rng.random() < 0.1:
        parts.insert(rng.randrange(len(parts) + 1), '')
    return sep.join(parts)


# ------------------------------------------------------------------ the real code
class Impl(object):
    def __init__(self):
        from spyne import Application, rpc, ServiceBase, Integer, Unicode, Array, ComplexModel
        from spyne.protocol.http import HttpRpc
        from spyne.server.wsgi import WsgiApplication
        self.sp = dict(Application=Application, rpc=rpc, ServiceBase=ServiceBase, Integer=Integer,
                       Unicode=Unicode, Array=Array, ComplexModel=ComplexModel, HttpRpc=HttpRpc,
                       WsgiApplication=WsgiApplication)
        # MethodContext.close() runs gc.collect() once per const.MIN_GC_INTERVAL (1 s, wall clock); over the
        # heap a generated run accumulates (thousands of throw-away classes and applications, pinned by
        # spyne's memoize tables) one such pass grows to seconds and dominates the run time.  Collecting less
        # often changes nothing that C03 observes.  The harness instead drops its own caches and the memo table
        # of get_simple_type_info_with_prot every few hundred applications (see trim()).
        from spyne import const
        const.MIN_GC_INTERVAL = 1e12
        self.n = 0
        self.classes = {}
        self.mtypes = {}
        self.apps = {}
        self.cap = []

    def member(self, t):
        """the member type; an array type over the same item class and of the same style is created ONCE and the
        same type object is used for every member that asks for it (siblings, arguments, nested)"""
        sp = self.sp
        if t['k'] == 'prim':
            base = sp['Unicode'] if t['leaf'] == 'u' else sp['Integer']
            bkey = t['leaf']
        else:
            base = self.cls(t)
            bkey = id(base)
        if t['arr']:
            k = (bkey, t['style'])
            mt = self.mtypes.get(k)
            if mt is None:
                mt = sp['Array'](base) if t['style'] == 'A' else base.customize(max_occurs='unbounded')
                self.mtypes[k] = mt
            return mt
        return base

    def cls(self, t):
        key = json.dumps([t['cid'], [(n, x) for n, x in t['fields']]], sort_keys=True, default=str)
        c = self.classes.get(key)
        if c is None:
            self.n += 1
            name = 'T%d' % self.n
            ti = [(n, self.member(ft)) for n, ft in t['fields']]
            c = self.sp['ComplexModel'].__class__(name, (self.sp['ComplexModel'],),
                                                  {'_type_info': ti, '__namespace__': 'c03'})
            self.classes[key] = c
        return c

    def app(self, fields, delim, strict, validator, out_header=None, ret=None):
        key = json.dumps([fields, delim, strict, validator], sort_keys=True, default=str)
        if out_header is None and ret is None and key in self.apps:
            return self.apps[key]
        if len(self.apps) > 400:
            self.trim()         # before any class of the new application is created
        sp = self.sp
        types = [self.member(ft) for _, ft in fields]
        names = [n for n, _ in fields]
        cap = self.cap
        kw = {}
        if out_header is not None:
            kw['_out_header'] = out_header[0]
        rtype, rval = ret if ret is not None else (sp['Unicode'], 'ok')
        hval = out_header[1] if out_header is not None else None
        self.n += 1

        def f(ctx, *args):
            cap.append(args)
            if hval is not None:
                ctx.out_header = hval
            return rval
        f.__name__ = 'f'
        S = type('S%d' % self.n, (sp['ServiceBase'],),
                 {'f': sp['rpc'](*types, _args=names, _returns=rtype, **kw)(f)})
        a = sp['Application']([S], 'c03.tns%d' % self.n,
                              in_protocol=sp['HttpRpc'](validator=validator, hier_delim=delim, strict_arrays=strict),
                              out_protocol=sp['HttpRpc']())
        w = sp['WsgiApplication'](a)
        if out_header is None and ret is None:
            self.apps[key] = w
        return w

    def trim(self):
        """forget the generated applications and classes, and the one memo table of spyne that pins them
        (get_simple_type_info_with_prot is keyed by (class, protocol instance): a pure cache of a pure
        function, recomputed on demand), then collect"""
        import gc
        from spyne.util import memo
        self.apps.clear()
        self.classes.clear()
        self.mtypes.clear()
        for m in memo.memoize.registry:
            if getattr(m.func, '__name__', '') == 'get_simple_type_info_with_prot':
                m.reset()
        gc.collect()

    def get(self, w, qs):
        env = {'REQUEST_METHOD': 'GET', 'PATH_INFO': '/f', 'QUERY_STRING': qs, 'SERVER_NAME': 'x',
               'SERVER_PORT': '80', 'wsgi.input': BytesIO(b''), 'wsgi.url_scheme': 'http', 'SCRIPT_NAME': '',
               'SERVER_PROTOCOL': 'HTTP/1.1'}
        st = []
        def sr(status, headers, exc=None):
            st.append((status, headers))
        del self.cap[:]
        try:
            it = w(env, sr)
            body = b''.join(it)
            if hasattr(it, 'close'):
                it.close()
        except Exception as e:
            return ('crash', type(e).__name__), None, None
        status, headers = st[0] if st else ('', [])
        if status.startswith('200') and len(self.cap) == 1:
            return ('ok', list(self.cap[0])), headers, body
        if body.startswith(b'Client.ValidationError'):
            return ('vfault', status), headers, body
        return ('crash', status, body[:200].decode('latin1')), headers, body

    # captured native value -> val
    def to_val(self, t, x, problems, elem=False):
        if t['k'] == 'prim':
            if t['arr'] and not elem:
                if x is None:
                    return ['N']
                if not isinstance(x, list):
                    problems.append('not a list: %r' % (x,))
                    return ['S', repr(x)]
                return ['L', [self.to_val(t, y, problems, True)[1] for y in x]]
            if x is None:
                return ['N'] if not elem else ['S', '<None>']
            if t['leaf'] == 'i':
                if not isinstance(x, int) or isinstance(x, bool):
                    problems.append('not an int: %r' % (x,))
                return ['S', str(x)]
            if not isinstance(x, str):
                problems.append('not a str: %r' % (x,))
                return ['S', repr(x)]
            return ['S', x]
        if t['arr'] and not elem:
            if x is None:
                return ['N']
            if not isinstance(x, list):
                problems.append('not a list: %r' % (x,))
                return ['N']
            return ['A', [self.to_val(t, y, problems, True) for y in x]]
        if x is None:
            return ['N']
        c = self.cls(t)
        if not isinstance(x, c):
            problems.append('not an instance of %s: %r' % (c.__name__, x))
            return ['N']
        return ['O', [[n, self.to_val(ft, getattr(x, n, None), problems)] for n, ft in t['fields']]]

    def args_to_obj(self, fields, args, problems):
        return [[n, self.to_val(ft, a, problems)] for (n, ft), a in zip(fields, args)]

    # val -> native instance (for object_to_simple_dict)
    def from_val(self, t, v, elem=False, pool=None):
        """pool (a dict): equal-valued objects of one class are built once and SHARED by identity - the
        same Python instance standing at several positions of the graph (home is work, [old, x, old])"""
        k = v[0]
        if k == 'N':
            return None
        if k == 'S':
            return int(v[1]) if t['leaf'] == 'i' else v[1]
        if k == 'L':
            return [int(x) if t['leaf'] == 'i' else x for x in v[1]]
        if k == 'A':
            return [self.from_val(t, x, True, pool) for x in v[1]]
        key = None
        if pool is not None:
            key = (id(self.cls(t)), json.dumps(v, sort_keys=True))
            if key in pool:
                return pool[key]
        inst = self.cls(t)()
        for (n, ft), (_, fv) in zip(t['fields'], v[1]):
            setattr(inst, n, self.from_val(ft, fv, False, pool))
        if key is not None:
            pool[key] = inst
        return inst


def observe_get(impl, fields, delim, strict, validator, qs):
    w = impl.app(fields, delim, strict, validator)
    o, headers, body = impl.get(w, qs)
    problems = []
    if o[0] == 'ok':
        o = ('ok', impl.args_to_obj(fields, o[1], problems))
    return o, problems


# ------------------------------------------------------------------ oracle: classification
def first_diff(exp, got, path=''):
    """(path, kind) of the first difference between two vals"""
    if exp[0] != got[0]:
        if got[0] == 'N':
            return path, 'value-dropped'
        return path, 'wrong-shape'
    k = exp[0]
    if k == 'S':
        return (path, 'wrong-text') if exp[1] != got[1] else None
    if k == 'L':
        if exp[1] == got[1]:
            return None
        if sorted(exp[1]) == sorted(got[1]):
            return path, 'primitive-array-order'
        return path, 'primitive-array-content'
    if k == 'A':
        if len(exp[1]) != len(got[1]):
            return path, 'array-length'
        for i, (a, b) in enumerate(zip(exp[1], got[1])):
            d = first_diff(a, b, '%s[%d]' % (path, i))
            if d:
                return d[0], ('array-element-' + d[1]) if not d[1].startswith('array-element-') else d[1]
        return None
    if k == 'O':
        for (n, a), (_, b) in zip(exp[1], got[1]):
            d = first_diff(a, b, path + '/' + n)
            if d:
                return d
    return None

def features(fields, pairs, strict):
    fs = []
    idx = {}
    for k, _ in pairs:
        for m in re.finditer(r'\[(\d+)\]', k):
            idx.setdefault(k[:m.start()], set()).add(int(m.group(1)))
    if any(len(s) > 10 or max(s) >= 10 for s in idx.values()):
        fs.append('index>=10')
    cids = []
    def walk(t):
        if t['k'] == 'obj':
            cids.append(t['cid'])
            for _, ft in t['fields']:
                walk(ft)
    for _, ft in fields:
        walk(ft)
    if len(cids) != len(set(cids)):
        fs.append('class-used-twice')
    if strict:
        fs.append('strict')
    return '+'.join(fs) or 'plain'


# ------------------------------------------------------------------ the check
def correspond_by_size(check, name, case_type, okb, cases, show=None, limit=60000):
    """queue the cases in shards of bounded text size (coqc's parser overflows its stack on very long list literals)"""
    chunk, size = [], 0
    for c in cases:
        if chunk and (size + len(c[0]) > limit or len(chunk) >= 100):
            lib.correspond(check, name, IMPORTS, case_type, okb, chunk, shard=len(chunk), show=show)
            chunk, size = [], 0
        chunk.append(c)
        size += len(c[0])
    if chunk:
        lib.correspond(check, name, IMPORTS, case_type, okb, chunk, shard=len(chunk), show=show)

def corr_s2cmi(check, tier):
    from spyne.protocol.dictdoc import simple
    rng = check.rng
    n = 250 if tier == 'quick' else 1500
    seqs = [[11, 2, 0, 10, 3], [3, 4, 7, 5, 0, 8], [], [5], [0, 1, 2, 3], [9, 8, 7, 6, 5, 4, 3, 2, 1, 0], [5, 5, 1, 5, 1]]
    for _ in range(n):
        k = rng.choice([1, 2, 3, 5, 8, 13, 30])
        pool = rng.choice([range(0, 12), range(0, 40), range(0, 10 ** 6), range(95, 105)])
        s = [rng.choice(pool) for _ in range(k)]
        if rng.random() < 0.7:
            s = list(dict.fromkeys(s))
        seqs.append(s)
    cases = []
    for s in seqs:
        m, l = {}, []
        for nidx in s:
            cidx = m.get(nidx, None)
            if cidx is None:
                cidx = simple._s2cmi(m, nidx)
                l.insert(cidx, nidx)
        # direct oracle for the index bookkeeping: elements in increasing index order, map = rank
        srt = sorted(set(s))
        if l != srt or any(m[i] != srt.index(i) for i in srt) or set(m) != set(srt):
            check.fail('C03|_s2cmi|rank', '_s2cmi insertion sequence %r gives list %r map %r' % (s, l, m),
                       {'kind': 's2cmi', 'seq': s})
        cases.append(('(%s, %s, %s)' % (glist([gz(i) for i in s]),
                                         glist(['(%s, %s)' % (gz(a), gz(b)) for a, b in m.items()]),
                                         glist([gz(i) for i in l])), 'arr_run %r' % (s,)))
        check.count(('s2cmi', tuple(s)))
    lib.correspond(check, 's2cmi_sequence', IMPORTS, 'list Z * list (Z * Z) * list Z',
                   '(fun c => let \'(s, m, l) := c in let \'(m2, l2) := arr_run s in '
                   'list_eqb zz_eqb m m2 && list_eqb Z.eqb l l2)', cases,
                   show='(fun c : list Z * list (Z * Z) * list Z => arr_run (fst (fst c)))')
    # the function alone on arbitrary dict states (also states no caller produces)
    cases = []
    for _ in range(n):
        k = rng.choice([0, 1, 2, 4, 7])
        m = {}
        for _ in range(k):
            m[rng.randint(0, 12)] = rng.randint(-2, 9)
        nidx = rng.randint(0, 13)
        before = list(m.items())
        ret = simple._s2cmi(m, nidx)
        cases.append(('(%s, %s, %s, %s)' % (glist(['(%s, %s)' % (gz(a), gz(b)) for a, b in before]), gz(nidx),
                                             glist(['(%s, %s)' % (gz(a), gz(b)) for a, b in m.items()]), gz(ret)),
                      '_s2cmi(%r, %d)' % (dict(before), nidx)))
        check.count(('s2cmi1', tuple(before), nidx))
    lib.correspond(check, 's2cmi_call', IMPORTS, 'list (Z * Z) * Z * list (Z * Z) * Z',
                   '(fun c => let \'(m, n, m1, r) := c in let \'(m2, r2) := s2cmi m n in '
                   'list_eqb zz_eqb m1 m2 && (r =? r2))', cases)


def junk_key(rng):
    al = ['a', 'b', 'xs', '.', '[', ']', '[', ']', '0', '1', '2', '9', '10', '007', '[3]', '[12]', '[]', '[x]', '_', '[[', ']]']
    return ''.join(rng.choice(al) for _ in range(rng.choice([1, 2, 3, 5, 8])))

def corr_keys(check, tier):
    from spyne.protocol.dictdoc import simple
    rng = check.rng
    n = 300 if tier == 'quick' else 1500
    keys = ['a', 'a[0]', 'a[10].b[2]', 'a[1][2]', 'a[', 'a[]', 'a[1', '[1]', 'a[x]', 'a[1]]', 'a[[1]', 'a[1[2]', 'a[007].b',
            'a.b.c', 'xs[9]', 'xs[10]', 'xs[2]', 'a[1].b', 'a[01].b', 'a[1]b', 'a]', '', '[', ']', '[12', '[1][', 'a[٣]']
    for _ in range(n):
        if rng.random() < 0.5:
            keys.append(junk_key(rng))
        else:
            parts = []
            for _ in range(rng.choice([1, 2, 3])):
                p = rng.choice(NAMES)
                if rng.random() < 0.5:
                    p += '[%d]' % rng.choice([0, 1, 2, 9, 10, 11, 99, 100, 12345678901234567890])
                parts.append(p)
            keys.append(rng.choice(DELIMS).join(parts))
    cases = []
    for k in keys:
        sub = simple.RE_HTTP_ARRAY_INDEX.sub("", k)
        fa = [int(i) for i in simple.RE_HTTP_ARRAY_INDEX.findall(k)]
        cases.append(('(%s, %s, %s)' % (gtext(k), gtext(sub), glist([gz(i) for i in fa])), 'key %r' % k))
        check.count(('key', k))
    lib.correspond(check, 'key_regex', IMPORTS, 'text * text * list Z',
                   '(fun c => let \'(k, s, f) := c in text_eqb (strip_idx k) s && list_eqb Z.eqb (find_idx k) f)',
                   cases, show='(fun c : text * text * list Z => (strip_idx (fst (fst c)), find_idx (fst (fst c))))')
    # the order simple_dict_to_object processes the keys in (the sort key of the tree under test)
    nk = getattr(simple, '_natural_key', None)
    cases = []
    pool = keys[:]
    for _ in range(n):
        a, b = rng.choice(pool), rng.choice(pool)
        if rng.random() < 0.4:
            base = rng.choice(NAMES)
            a = '%s[%d]' % (base, rng.choice([0, 1, 2, 9, 10, 11, 100]))
            b = '%s[%d]' % (base, rng.choice([0, 1, 2, 9, 10, 11, 100]))
            if rng.random() < 0.5:
                suf = rng.choice(['.i', '.s', '.xs[3]', ''])
                a, b = a + suf, b + rng.choice([suf, '.i'])
        ka, kb = (nk(a), nk(b)) if nk else (a, b)
        c = -1 if ka < kb else (1 if ka > kb else 0)
        cases.append(('(%s, %s, %s)' % (gtext(a), gtext(b), gz(c)), 'sort key order of %r vs %r' % (a, b)))
        check.count(('nk', a, b))
    lib.correspond(check, 'sort_key_order', IMPORTS, 'text * text * Z',
                   '(fun c => let \'(a, b, r) := c in cmp_z (nk_cmp (natkey a) (natkey b)) =? r)', cases,
                   show='(fun c : text * text * Z => cmp_z (nk_cmp (natkey (fst (fst c))) (natkey (snd (fst c)))))')


def corr_parse_qs(check, tier):
    from spyne.server.wsgi import _parse_qs
    rng = check.rng
    n = 350 if tier == 'quick' else 2000
    qss = ['', '&', 'a=1', 'a=1&a=2;a=3', 'a', 'a&b=', '=x', '=', 'a==b', 'a=b=c', 'a+b=c+d', 'a%20b=%41%7a', 'a=%', 'a=%4',
           'a=%4g', 'a=%%41', 'a%3Db=1', 'a%26=1', 'x=%2B', 'a[0].b=1&a[1].b=2', 'a%5B0%5D=1', ';;a=1;;', 'a=1&&b=2', 'a=%7E%7e',
           'a=%00', 'k=%25%32%35']
    al = ['a', 'b', 'c', '=', '&', ';', '+', '%', '%4', '%41', '%7a', '%2', '%zz', '%25', '%26', '%3D', '%3b', '[', ']', '0', '1', '.', ' ']
    for _ in range(n):
        if rng.random() < 0.5:
            qss.append(''.join(rng.choice(al) for _ in range(rng.choice([1, 3, 6, 12]))))
        else:
            pairs = [(rng.choice(['a', 'b', 'a[1].b', 'x y', 'k&k', 'a=b', '']),
                      ''.join(rng.choice(TEXT_ALPHABET) for _ in range(rng.choice([0, 1, 3, 6]))))
                     for _ in range(rng.choice([1, 2, 4, 7]))]
            qss.append(encode_qs(pairs, rng))
    cases = []
    for qs in qss:
        if re.search(r'%[89a-fA-F][0-9a-fA-F]', qs) or any(ord(c) > 127 for c in qs):
            continue
        d = _parse_qs(qs)
        term = glist(['(%s, %s)' % (gtext(k), glist([gopt(x, gtext) for x in v])) for k, v in d.items()])
        cases.append(('(%s, Some %s)' % (gtext(qs), term), '_parse_qs(%r)' % qs))
        check.count(('qs', qs))
    lib.correspond(check, 'parse_qs', IMPORTS, 'text * option (list (text * list (option text)))',
                   '(fun c => qs_eqb (parse_qs (fst c)) (snd c))', cases,
                   show='(fun c : text * option (list (text * list (option text))) => parse_qs (fst c))')


def corr_flatten(check, impl, tier):
    from spyne.protocol.dictdoc import SimpleDictDocument
    rng = check.rng
    g = Gen(rng)
    n = 250 if tier == 'quick' else 1000
    cases = []
    for _ in range(n):
        fields = g.signature()
        delim = rng.choice(DELIMS)
        top = {'k': 'obj', 'arr': False, 'style': 'A', 'cid': -g.cid - 1, 'fields': fields}
        sv = g.topval(fields, True)
        if rng.random() < 0.3:       # also values the notation cannot spell (empty lists, all-None objects)
            sv = loosen(sv, fields, rng)
        v = compact(sv)
        # a third of the graphs hold one instance at several positions: arrays of objects get a repeated
        # element and every equal-valued object of one class is the same Python instance
        shared = rng.random() < 0.34
        if shared:
            def repeat(x):
                if x[0] == 'A' and len(x[1]) >= 2 and x[1][0][0] == 'O':
                    i, j = rng.sample(range(len(x[1])), 2)
                    x[1][j] = json.loads(json.dumps(x[1][i]))
                if x[0] == 'A':
                    for y in x[1]:
                        repeat(y)
                if x[0] == 'O':
                    for _, y in x[1]:
                        repeat(y)
            repeat(v)
        inst = impl.from_val(top, v, pool={} if shared else None)
        prot = SimpleDictDocument(hier_delim=delim)
        try:
            d = prot.object_to_simple_dict(impl.cls(top), inst, subinst_eater=lambda p, x, t: p.to_unicode(t, x))
        except Exception as e:
            check.mismatch('flatten', 'object_to_simple_dict raised %r on %r' % (e, v))
            continue
        items = []
        for k, x in d.items():
            if isinstance(x, list):
                items.append('(%s, FMany %s)' % (gtext(k), glist([gtext(y) for y in x])))
            elif x == 'empty' and is_complex_array_key(fields, k, delim):
                items.append('(%s, FEmpty)' % gtext(k))
            else:
                items.append('(%s, FOne %s)' % (gtext(k), gtext(x)))
        cases.append(('(%s, %s, %s, %s, %s)' % (gtext(delim), gfields(fields), gobj(v[1]), glist(items),
                                                gbool(py_typed_obj(fields, v[1]))),
                      'object_to_simple_dict delim=%r fields=%s value=%s' % (delim, short_fields(fields), json.dumps(v))))
        check.count(('flat', delim, json.dumps(fields, default=str), json.dumps(v)))
    # the model's flatten equals the real one, and the guard of C03_flatten_roundtrip (typed_obj)
    # is the oracle's notion of "a value the notation can carry"
    correspond_by_size(check, 'flatten', 'text * list (text * ty) * list (text * val) * list (text * fval) * bool',
                   '(fun c => let \'(d, fs, v, r, ty) := c in flat_eqb (flatten d fs v) r && Bool.eqb (typed_obj fs v) ty)', cases,
                   show='(fun c : text * list (text * ty) * list (text * val) * list (text * fval) * bool => '
                        'let \'(d, fs, v, r, ty) := c in (flatten d fs v, typed_obj fs v))')

def py_typed(t, v):
    """Python twin of Spec.typed: a value object_to_simple_dict can write and the notation can carry"""
    k = v[0]
    if k == 'N':
        return True
    if t['k'] == 'prim':
        return (k == 'L' and len(v[1]) > 0) if t['arr'] else k == 'S'
    def obj(o):
        return o[0] == 'O' and all(py_typed(ft, fv) for (_, ft), (_, fv) in zip(t['fields'], o[1])) \
            and any(fv[0] != 'N' for _, fv in o[1])
    if t['arr']:
        return k == 'A' and all(obj(e) for e in v[1])
    return obj(v)

def py_typed_obj(fields, members):
    return all(py_typed(ft, fv) for (_, ft), (_, fv) in zip(fields, members))

def loosen(sv, fields, rng):
    def go(t, v):
        k = v[0]
        if k == 'L' and rng.random() < 0.3:
            return ['L', []]
        if k == 'O':
            if rng.random() < 0.15:
                return ['O', [[n, ['N']] for n, _ in v[1]]]
            return ['O', [[n, go(ft, x)] for (n, ft), (_, x) in zip(t['fields'], v[1])]]
        if k == 'A':
            return ['A', [[lab, go(dict(t, arr=False), x)] for lab, x in v[1]]]
        return v
    return ['O', [[n, go(ft, x)] for (n, ft), (_, x) in zip(fields, sv[1])]]

def is_complex_array_key(fields, key, delim):
    """is the (index-free) flat key the path of a complex array member?"""
    k = re.sub(r'\[\d+\]', '', key)
    def walk(fs, prefix):
        for n, t in fs:
            p = prefix + [n]
            if t['k'] == 'obj':
                if delim.join(p) == k and t['arr']:
                    return True
                if walk(t['fields'], p):
                    return True
        return False
    return walk(fields, [])

def short_fields(fs):
    def s(t):
        a = '*' if t['arr'] else ''
        if t['k'] == 'prim':
            return t['leaf'] + a
        return '{%s}%s#%d' % (','.join('%s:%s' % (n, s(x)) for n, x in t['fields']), a, t['cid'])
    return ','.join('%s:%s' % (n, s(t)) for n, t in fs)


def kind_at(fields, names):
    """'i' / 'u' for a primitive member at this path of member names, 'obj' for an object, None if there is none"""
    fs = fields
    t = None
    for n in names:
        t = dict(fs).get(n) if fs is not None else None
        if t is None:
            return None
        fs = t['fields'] if t['k'] == 'obj' else None
    return t['leaf'] if t['k'] == 'prim' else 'obj'


def confusing_pairs(g, fields, delim, rng, strict):
    """a conformant request whose keys are then spelled inconsistently: indexes on members that are not
    arrays, array members without their index, the same member both ways, changed indexes, 'empty' markers
    on objects and arrays that also have members set below them (the marker replaces the object), broken
    tails, duplicates.  Every such request must end in a value or a Client.ValidationError."""
    sv = g.topval(fields, contiguous=strict)
    pairs = spell(fields, decide(fields, sv, rng), delim)
    if not pairs:
        return malformed_pairs(g, fields, delim, rng)
    seg_re = re.compile(r'^(.*?)((?:\[\d+\])*)$')
    out = []
    for key, val in pairs:
        segs = key.split(delim) if delim in key else [key]
        r = rng.random()
        if r < 0.45:
            j = rng.randrange(len(segs))
            name, idx = seg_re.match(segs[j]).groups()
            c = rng.random()
            if idx and c < 0.35:
                segs[j] = name                                   # array member without its index
            elif idx and c < 0.6:
                segs[j] = '%s[%d]' % (name, rng.choice([0, 1, 2, 5, 11]))
            elif c < 0.85:
                segs[j] = '%s[%d]' % (segs[j], rng.choice([0, 1, 3, 5]))    # one index more (also on non-arrays)
            else:
                segs[j] = segs[j] + rng.choice(['[', '[]', ']', '[x]'])
            out.append((delim.join(segs), val))
            if rng.random() < 0.4:
                out.append((key, val))                           # and the regular spelling as well
        else:
            out.append((key, val))
        if rng.random() < 0.35:
            # an 'empty' marker (or something else) on a prefix of the key, with or without indexes
            j = rng.randrange(1, len(segs) + 1)
            pre = segs[:j]
            if rng.random() < 0.5:
                pre = [seg_re.match(x).group(1) if rng.random() < 0.5 else x for x in pre]
            if rng.random() < 0.3:
                pre[-1] = '%s[%d]' % (pre[-1], rng.choice([0, 1, 2, 5]))
            names = [seg_re.match(x).group(1) for x in pre]
            if kind_at(fields, names) == 'i':      # Integer leaves keep to integer texts (leaf codecs are C08)
                out.append((delim.join(pre), str(rng.randint(-9, 99))))
            else:
                out.append((delim.join(pre), rng.choice(['empty', 'empty', 'empty', '', 'x'])))
        if rng.random() < 0.1:
            out.append((key + delim + 'zz', 'empty'))
    rng.shuffle(out)
    return out[:24]


def malformed_pairs(g, fields, delim, rng):
    """keys around the notation: unknown members, missing / surplus / huge / duplicate indexes,
    broken brackets, 'empty' markers everywhere, repeated single-valued keys"""
    paths = []
    def walk(fs, prefix):
        for n, t in fs:
            p = prefix + [(n, t)]
            paths.append(p)
            if t['k'] == 'obj':
                walk(t['fields'], p)
    walk(fields, [])
    pairs = []
    for _ in range(rng.choice([1, 2, 3, 5, 8])):
        p = rng.choice(paths)
        segs = []
        for n, t in p:
            s = n
            r = rng.random()
            if t['arr']:
                if r < 0.6:
                    s += '[%d]' % rng.choice([0, 0, 1, 1, 2, 3, 10, 11])
                elif r < 0.7:
                    s += '[%d][%d]' % (rng.choice([0, 1]), rng.choice([0, 1]))
                elif r < 0.8:
                    s += rng.choice(['[', '[]', '[x]', '[1', '[-1]', '[ 1]'])
            elif r < 0.15:
                s += '[%d]' % rng.choice([0, 1, 5])
            segs.append(s)
        key = delim.join(segs)
        r = rng.random()
        if r < 0.1:
            key += delim + 'zz'
        elif r < 0.15:
            key = 'zz' + delim + key
        last = p[-1][1]
        if last['k'] == 'obj':
            val = rng.choice(['empty', 'empty', 'empty', 'x', '', 'Empty'])
        else:
            val = rng.choice(['empty', 'x', 'y z', '']) if last['leaf'] == 'u' else str(rng.randint(0, 99))
        pairs.append((key, val))
        if rng.random() < 0.2:
            pairs.append((key, val + '2' if last['k'] == 'prim' and last['leaf'] == 'u' else val))
    return pairs


def malformed_corpus():
    """fixed malformed requests: an 'empty' marker replaces an object whose array member already has an index
    map (a[0]_p[1]..., then a[1]=empty, then a_p[2]=empty, a_p_val[5]_q=1: before the 9001 fix the new list
    could reuse the id of the dropped one and inherit its map -> IndexError out of the WSGI application)"""
    P = lambda **kw: dict({'k': 'prim', 'arr': False, 'leaf': 'u', 'style': 'M'}, **kw)
    O = lambda cid, fs, arr=False: {'k': 'obj', 'arr': arr, 'style': 'M', 'cid': cid, 'fields': fs}
    val = O(900021, [('i', P(arr=True)), ('q', P(leaf='i'))])
    p = O(900022, [('a', P()), ('val', val)], arr=True)
    q = O(900023, [('it', P(arr=True))], arr=True)
    A = O(900024, [('a', P(arr=True)), ('p', p), ('q', q)])
    f1 = [('a', A)]
    return [
        (f1, '_', False, 'a[0]_p[%31]%5Fval%5Fq=78&%61%5B%31%5D=e%6Dp%74y&a_p_val[%35]_%71=1&a=&a_%70[%32%5d=e%6Dpt%79&&'
                         'a[1]_p%5b3]_a_zz=empt%79&a%5fq%5b0]=e%6Dpty&a_q%5B0]=empty&a[5]%5fq[11%5D%5fit[=empty'),
        (f1, '_', False, 'a_p[3]_a=x&a[1]=empty&a_p[2]=empty&a_p[7]_a=y&a_p[5]_val_q=1'),
        (f1, '_', True, 'a_p[0]_a=x&a[1]=empty&a_p[2]=empty&a_p[0]_val_q=1&a_p_a=z'),
        (f1, '_', False, 'a_q[4]_it=1&a_q[4]_it[0]=2&a_q_it=3&a[0]_q[4][1]_it=4&a_q[2]=empty&a_q=empty&a=empty&a_q[9]_it=5'),
    ]


def corr_get(check, impl, tier):
    rng = check.rng
    g = Gen(rng)
    n_valid = 400 if tier == 'quick' else 1600
    n_bad = 300 if tier == 'quick' else 1200
    cases = []
    corpus = malformed_corpus()
    for i in range(n_valid + n_bad + len(corpus)):
        fields = g.signature()
        delim = rng.choice(DELIMS)
        strict = rng.random() < 0.4
        valid = i < n_valid
        fixed_qs = None
        if i >= n_valid + n_bad:
            fields, delim, strict, fixed_qs = corpus[i - n_valid - n_bad]
        if valid:
            validator = rng.choice([None, 'soft'])
            sv = g.topval(fields, contiguous=strict)
            dv = decide(fields, sv, rng)
            pairs = shuffle_pairs(spell(fields, dv, delim), rng)
            spec_tie_case(check, strict, delim, fields, dv, pairs)
        else:
            validator = None
            pairs = confusing_pairs(g, fields, delim, rng, strict) if i % 2 else malformed_pairs(g, fields, delim, rng)
        qs = fixed_qs if fixed_qs is not None else (encode_qs(pairs, rng) if pairs else '')
        o, problems = observe_get(impl, fields, delim, strict, validator, qs)
        if not valid and o[0] == 'crash':
            # direct oracle: whatever the query string, a GET ends in a call or in a Client.ValidationError;
            # no exception may escape the WSGI application and no 500 may be produced
            check.fail('C03|GET-malformed|exception-escapes|%s' % (o[1],),
                       'GET ?%s (hier_delim=%r strict_arrays=%s fields=%s): %r' % (
                           qs[:300], delim, strict, short_fields(fields), o[1:]),
                       {'kind': 'malformed', 'fields': fields, 'delim': delim, 'strict': strict, 'validator': validator,
                        'qs': qs, 'observed': list(o)})
        desc = 'GET strict=%s validator=%s delim=%r fields=%s qs=%r -> %s' % (
            strict, validator, delim, short_fields(fields), qs, json.dumps(o)[:300])
        cases.append(('(%s, %s, %s, %s, %s)' % (gbool(strict), gtext(delim), gfields(fields), gtext(qs), gobs(o)), desc))
        check.count(('get', strict, delim, short_fields(fields), qs))
        if i % 97 == 0:
            check.sample({'corr': 'GET', 'strict': strict, 'validator': validator, 'delim': delim,
                          'fields': short_fields(fields), 'qs': qs, 'impl': json.dumps(o)[:200]})
    correspond_by_size(check, 'wsgi_get',
                   'bool * text * list (text * ty) * text * out (list (text * val))',
                   '(get_ok true)', cases,
                   show='(fun c : bool * text * list (text * ty) * text * out (list (text * val)) => '
                        'let \'(st, d, fs, qs, e) := c in run_get true st d fs qs)')


# ------------------------------------------------------------------ direct oracle (the property on the real code)
def corpus(g):
    """deterministic boundary signatures/values: the witnesses of the theorems and the
    shapes on which the pinned tree is known to go wrong"""
    P = lambda **kw: dict({'k': 'prim', 'arr': False, 'leaf': 'i', 'style': 'A'}, **kw)
    inner = {'k': 'obj', 'arr': False, 'style': 'A', 'cid': 900001,
             'fields': [('i', P()), ('s', P(leaf='u')), ('xs', P(arr=True))]}
    out = []
    # 12-element primitive array, indexed notation, top level and nested
    f1 = [('xs', P(arr=True)), ('o', inner)]
    v1 = ['O', [['xs', ['L', [str(i) for i in range(12)]]],
                ['o', ['O', [['i', ['S', '5']], ['s', ['N']], ['xs', ['L', [str(100 + i) for i in range(11)]]]]]]]]
    out.append((f1, v1, True, False))
    out.append((f1, v1, False, False))
    # 12-element complex array, strict and not
    f2 = [('ps', dict(inner, arr=True, cid=900002))]
    v2 = ['O', [['ps', ['A', [[i, ['O', [['i', ['S', str(i)]], ['s', ['S', 'e%d' % i]], ['xs', ['N']]]]] for i in range(12)]]]]]
    out.append((f2, v2, True, True))
    out.append((f2, v2, True, False))
    # sparse complex array 11, 2, 0, 10, 3
    v3 = ['O', [['ps', ['A', [[i, ['O', [['i', ['S', str(i)]], ['s', ['N']], ['xs', ['L', ['7', '8']]]]]] for i in (0, 2, 3, 10, 11)]]]]]
    out.append((f2, v3, False, False))
    # the same class for two parameters, and twice inside one object
    f4 = [('a', inner), ('b', inner), ('o', {'k': 'obj', 'arr': False, 'style': 'A', 'cid': 900003,
                                             'fields': [('p', inner), ('q', dict(inner, arr=True))]})]
    iv = lambda k: ['O', [['i', ['S', str(k)]], ['s', ['S', 'v%d' % k]], ['xs', ['N']]]]
    v4 = ['O', [['a', iv(1)], ['b', iv(2)], ['o', ['O', [['p', iv(3)], ['q', ['A', [[0, iv(4)], [1, iv(5)]]]]]]]]]
    out.append((f4, v4, False, False))
    # ONE array type object for two arguments and for two sibling members, sparse interleaved indexes
    arr = dict(inner, arr=True, cid=900004)
    f5 = [('x', arr), ('y', arr), ('o', {'k': 'obj', 'arr': False, 'style': 'A', 'cid': 900005,
                                        'fields': [('p', arr), ('q', arr)]})]
    av = lambda ks: ['A', [[k, iv(k)] for k in ks]]
    v5 = ['O', [['x', av([1, 4, 9])], ['y', av([0, 4, 5, 30])], ['o', ['O', [['p', av([7, 8])], ['q', av([2, 7, 11])]]]]]]
    out.append((f5, v5, False, False))
    v6 = ['O', [['x', av([0, 1])], ['y', av([0, 1, 2])], ['o', ['O', [['p', av([0])], ['q', av([0, 1])]]]]]]
    out.append((f5, v6, False, True))
    f7 = [(n, dict(t, style='M')) if t.get('arr') else (n, t) for n, t in f5[:2]]
    out.append((f7, ['O', v5[1][:2]], False, False))
    return out

def oracle_get(check, impl, tier):
    rng = check.rng
    g = Gen(rng)
    n = 1000 if tier == 'quick' else 4000
    todo = []
    for fields, sv, indexed, strict in corpus(g):
        for validator in (None, 'soft'):
            todo.append((fields, sv, '.', strict, validator, indexed, True))
    for _ in range(n):
        fields = g.signature()
        strict = rng.random() < 0.4
        sv = g.topval(fields, contiguous=strict, ascii_only=rng.random() < 0.6)
        todo.append((fields, sv, rng.choice(DELIMS), strict, rng.choice([None, 'soft']), None, False))
    for fields, sv, delim, strict, validator, indexed, det in todo:
        dv = decide(fields, sv, rng, indexed)
        pairs0 = spell(fields, dv, delim)
        if not pairs0:
            continue
        perms = [pairs0, list(reversed_keep(pairs0))]
        if len(pairs0) <= 4 and len(set(k for k, _ in pairs0)) == len(pairs0):
            perms = [list(p) for p in itertools.permutations(pairs0)]
        else:
            perms += [shuffle_pairs(pairs0, rng) for _ in range(2 if tier == 'quick' else 4)]
        expected = compact(dv)[1]
        spec_tie_case(check, strict, delim, fields, dv, perms[-1])
        for pairs in perms:
            qs = encode_qs(pairs, rng)
            case = {'kind': 'get', 'fields': fields, 'delim': delim, 'strict': strict, 'validator': validator,
                    'qs': qs, 'expected': expected}
            check_get_case(check, impl, case, pairs)
            check.count(('oracle', qs, short_fields(fields), strict))

def reversed_keep(pairs):
    """reverse the pairs but keep same-key pairs in their order"""
    rev = list(reversed(pairs))
    by = {}
    for k, v in pairs:
        by.setdefault(k, []).append((k, v))
    cnt = {}
    out = []
    for k, _ in rev:
        j = cnt.get(k, 0)
        out.append(by[k][j])
        cnt[k] = j + 1
    return out

def check_get_case(check, impl, case, pairs=None):
    fields = case['fields']
    o, problems = observe_get(impl, fields, case['delim'], case['strict'], case['validator'], case['qs'])
    if pairs is None:
        pairs = [(k, '') for k in re.findall(r'(?:^|[&;])([^=&;]*)=', re.sub(r'%5[bB]', '[', re.sub(r'%5[dD]', ']', case['qs'])))]
    feat = features(fields, pairs, case['strict'])
    if o[0] == 'ok':
        got = ['O', o[1]]
        d = first_diff(['O', case['expected']], got)
        if d is None and not problems:
            return True
        kind = d[1] if d else 'wrong-python-type'
        what = ('GET ?%s (hier_delim=%r strict_arrays=%s validator=%s): the user function received %s, '
                'expected %s (%s at %s)' % (case['qs'][:300], case['delim'], case['strict'], case['validator'],
                                            json.dumps(got)[:400], json.dumps(case['expected'])[:400], kind,
                                            d[0] if d else problems[:1]))
    elif o[0] == 'vfault':
        kind = 'rejected-400'
        what = ('GET ?%s (hier_delim=%r strict_arrays=%s validator=%s): a conformant request in the documented '
                'notation was rejected with %s' % (case['qs'][:300], case['delim'], case['strict'], case['validator'], o[1]))
    else:
        kind = 'crash'
        what = 'GET ?%s: %r' % (case['qs'][:300], o[1:])
    check.fail('C03|GET|%s|%s' % (kind, feat), what, dict(case, observed=o))
    return False


def oracle_flat_roundtrip(check, impl, tier):
    """converse direction: object_to_simple_dict of an object, sent as a query string, gives an equal object"""
    from spyne.protocol.dictdoc import SimpleDictDocument
    rng = check.rng
    g = Gen(rng)
    n = 400 if tier == 'quick' else 1600
    for _ in range(n):
        fields = g.signature()
        delim = rng.choice(DELIMS)
        top = {'k': 'obj', 'arr': False, 'style': 'A', 'cid': -g.cid - 1, 'fields': fields}
        sv = g.topval(fields, True, ascii_only=rng.random() < 0.6)
        v = compact(sv)
        # a third of the graphs hold one instance at several positions: arrays of objects get a repeated
        # element and every equal-valued object of one class is the same Python instance
        shared = rng.random() < 0.34
        if shared:
            def repeat(x):
                if x[0] == 'A' and len(x[1]) >= 2 and x[1][0][0] == 'O':
                    i, j = rng.sample(range(len(x[1])), 2)
                    x[1][j] = json.loads(json.dumps(x[1][i]))
                if x[0] == 'A':
                    for y in x[1]:
                        repeat(y)
                if x[0] == 'O':
                    for _, y in x[1]:
                        repeat(y)
            repeat(v)
        inst = impl.from_val(top, v, pool={} if shared else None)
        prot = SimpleDictDocument(hier_delim=delim)
        d = prot.object_to_simple_dict(impl.cls(top), inst, subinst_eater=lambda p, x, t: p.to_unicode(t, x))
        pairs = []
        for k, x in d.items():
            if isinstance(x, list):
                pairs.extend((k, y) for y in x)
            else:
                pairs.append((k, x))
        if not pairs:
            continue
        pairs = shuffle_pairs(pairs, rng)
        case = {'kind': 'flat-roundtrip', 'fields': fields, 'delim': delim, 'strict': rng.random() < 0.4,
                'validator': rng.choice([None, 'soft']), 'qs': encode_qs(pairs, rng), 'expected': v[1]}
        check_get_case(check, impl, case, pairs)
        check.count(('rt', case['qs'], short_fields(fields)))


def oracle_unspellable(check, impl, tier):
    """the strict reading of the converse (every object maps back to an equal object) on the two
    shapes the notation cannot carry (C03_flatten_roundtrip_refuted): reported under fixed keys"""
    from spyne.protocol.dictdoc import SimpleDictDocument
    P = lambda **kw: dict({'k': 'prim', 'arr': False, 'leaf': 'i', 'style': 'A'}, **kw)
    inner = {'k': 'obj', 'arr': False, 'style': 'A', 'cid': 900010, 'fields': [('i', P()), ('s', P(leaf='u'))]}
    fields = [('xs', P(arr=True)), ('o', inner)]
    top = {'k': 'obj', 'arr': False, 'style': 'A', 'cid': 900011, 'fields': fields}
    shapes = [('empty-primitive-array', ['O', [['xs', ['L', []]], ['o', ['N']]]]),
              ('all-none-object', ['O', [['xs', ['N']], ['o', ['O', [['i', ['N']], ['s', ['N']]]]]]])]
    for name, v in shapes:
        case = unspellable_case(impl, fields, top, v)
        check.count(('unspellable', name))
        if case['observed'][0] != 'ok' or first_diff(['O', v[1]], ['O', case['observed'][1]]) is not None:
            check.fail('C03|flat-roundtrip|unspellable|%s' % name,
                       'object_to_simple_dict of %s gives %r; sent back as a query string the user function receives %s'
                       % (json.dumps(v), case['flat'], json.dumps(case['observed'])), dict(case, shape=name))

def unspellable_case(impl, fields, top, v):
    from spyne.protocol.dictdoc import SimpleDictDocument
    inst = impl.from_val(top, v)
    d = SimpleDictDocument().object_to_simple_dict(impl.cls(top), inst, subinst_eater=lambda p, x, t: p.to_unicode(t, x))
    pairs = []
    for k, x in d.items():
        pairs.extend((k, y) for y in x) if isinstance(x, list) else pairs.append((k, x))
    qs = '&'.join('%s=%s' % (quote(k, safe=''), quote(x, safe='')) for k, x in pairs)
    o, problems = observe_get(impl, fields, '.', False, None, qs)
    return {'kind': 'unspellable', 'fields': fields, 'value': v, 'flat': {k: x for k, x in d.items()}, 'qs': qs,
            'observed': list(o)}


def gen_header_datetime(rng):
    """a datetime for a DateTime header: aware with a non-zero offset (most), aware UTC, or naive (read as UTC);
    returns (value, seconds since the epoch of the instant it denotes)"""
    import datetime as D
    y = rng.choice([1970, 1971, 1994, 1999, 2000, 2024, 2026, 2038, 2099, rng.randint(1901, 2198)])
    mo = rng.randint(1, 12)
    d = rng.randint(1, 28) if rng.random() < 0.7 else rng.choice([1, 28, 29, 30, 31])
    try:
        base = D.datetime(y, mo, d, rng.choice([0, 1, 11, 12, 22, 23, rng.randint(0, 23)]), rng.choice([0, 29, 30, 59]),
                          rng.choice([0, 1, 59, rng.randint(0, 59)]), rng.choice([0, 0, 999999, rng.randint(0, 999999)]))
    except ValueError:
        base = D.datetime(y, mo, 28, 23, 59, 59)
    r = rng.random()
    if r < 0.7:
        off = rng.choice([-720, -570, -300, -60, -1, 1, 60, 330, 345, 540, 765, 840, rng.randint(-839, 839)]) or 60
        val = base.replace(tzinfo=D.timezone(D.timedelta(minutes=off)))
    elif r < 0.85:
        val = base.replace(tzinfo=D.timezone.utc)
    else:
        val = base
    aware = val if val.tzinfo is not None else val.replace(tzinfo=D.timezone.utc)
    epoch = (aware - D.datetime(1970, 1, 1, tzinfo=D.timezone.utc)) // D.timedelta(seconds=1)
    return val, epoch


def oracle_response(check, impl, tier):
    """a single primitive return value is sent as its exact text, with the declared headers; a DateTime header is
    the RFC 7231 date of the INSTANT (email.utils.formatdate as the reference, Model.imf_fixdate as the model)"""
    import datetime as D
    from email.utils import formatdate
    from spyne import Unicode, Integer, ComplexModel, ByteArray, DateTime, Date, Time
    from spyne.model.primitive import String
    from spyne.protocol.http import _header_to_bytes, HttpRpc
    rng = check.rng
    g = Gen(rng)
    n = 60 if tier == 'quick' else 300
    H = ComplexModel.__class__('C03RespHeader', (ComplexModel,),
                               {'_type_info': [('X-Count', Integer), ('Set-Cookie', String(max_occurs='unbounded')),
                                               ('X-Note', Unicode), ('Expires', DateTime), ('Last-Modified', DateTime),
                                               ('X-Day', Date), ('X-Time', Time),
                                               ('X-Tag', Unicode(max_occurs='unbounded'))], '__namespace__': 'c03'})
    P = lambda arr: {'k': 'prim', 'arr': arr}
    hfs = [('X-Count', P(False)), ('Set-Cookie', P(True)), ('X-Note', P(False)), ('Expires', P(False)),
           ('Last-Modified', P(False)), ('X-Day', P(False)), ('X-Time', P(False)), ('X-Tag', P(True))]
    rcases, dcases = [], []
    prot = HttpRpc()
    # the header codec alone: model (function of the instant) vs _header_to_bytes
    for i in range(4 * n):
        val, epoch = gen_header_datetime(rng)
        try:
            got = _header_to_bytes(prot, val, DateTime)
        except Exception as e:
            got = 'EXC %s' % type(e).__name__
        ref = formatdate(epoch, usegmt=True)
        check.count(('hdate', val.isoformat()))
        if got != ref:
            check.fail('C03|response|header-date|%s' % ('aware-offset' if val.utcoffset() else ('aware-utc' if val.tzinfo else 'naive')),
                       '_header_to_bytes(%s) = %r, the RFC 7231 date of that instant is %r' % (val.isoformat(), got, ref),
                       {'kind': 'header-date', 'value': val.isoformat(), 'epoch': epoch, 'observed': got, 'expected': ref})
        dcases.append(('(%s, %s)' % (gz(epoch), gtext(got)), '_header_to_bytes(%s) epoch=%d' % (val.isoformat(), epoch)))
    # members that are not DateTime are written with to_unicode: Date and Time as their ISO text
    for cls, name, v in ((Date, 'Date', D.date(rng.randint(1900, 2199), rng.randint(1, 12), rng.randint(1, 28))),
                         (Time, 'Time', D.time(rng.randint(0, 23), rng.randint(0, 59), rng.randint(0, 59))),
                         (Integer, 'Integer', rng.randint(-10 ** 9, 10 ** 20)), (Unicode, 'Unicode', g.text('u') or 'x')):
        try:
            got = _header_to_bytes(prot, v, cls)
        except Exception as e:
            got = 'EXC %s' % type(e).__name__
        ref = v.isoformat() if name in ('Date', 'Time') else str(v)
        check.count(('hcodec', name, repr(v)))
        if got != ref:
            check.fail('C03|response|header-codec|%s' % name, '_header_to_bytes(%r : %s) = %r, expected %r' % (v, name, got, ref),
                       {'kind': 'header-codec', 'type': name, 'value': repr(v), 'observed': got, 'expected': ref})
    lib.correspond(check, 'header_date', IMPORTS, 'Z * text', '(fun c => text_eqb (imf_fixdate (fst c)) (snd c))', dcases,
                   show='(fun c : Z * text => imf_fixdate (fst c))')
    for i in range(n):
        kind = rng.choice(['u', 'i', 'b'])
        if kind == 'u':
            val = g.text('u', ascii_only=rng.random() < 0.5) or 'x'
            rtype, body = Unicode, val.encode('utf8')
        elif kind == 'i':
            val = int(g.text('i'))
            rtype, body = Integer, str(val).encode('ascii')
        else:
            raw = bytes(rng.randrange(256) for _ in range(rng.choice([1, 3, 8, 40])))
            val, rtype, body = [raw], ByteArray, raw
        cookies = ['c%d=%d' % (j, rng.randint(0, 99)) for j in range(rng.choice([0, 1, 2, 3]))]
        tags = ['t%d' % rng.randint(0, 9) for j in range(rng.choice([0, 0, 1, 3]))]
        cnt = rng.randint(-5, 10 ** 12)
        note = ''.join(rng.choice('abcXYZ 019-_.') for _ in range(rng.choice([1, 4, 9]))).strip() or 'n'
        exp_v, exp_e = gen_header_datetime(rng)
        lm_v, lm_e = gen_header_datetime(rng) if rng.random() < 0.7 else (None, None)
        day = D.date(rng.randint(1900, 2199), rng.randint(1, 12), rng.randint(1, 28)) if rng.random() < 0.6 else None
        tod = D.time(rng.randint(0, 23), rng.randint(0, 59), rng.randint(0, 59)) if rng.random() < 0.6 else None
        hv = H()
        for k, x in (('X-Count', cnt), ('Set-Cookie', cookies or None), ('X-Note', note), ('Expires', exp_v),
                     ('Last-Modified', lm_v), ('X-Day', day), ('X-Time', tod), ('X-Tag', tags or None)):
            setattr(hv, k, x)
        w = impl.app([('a', {'k': 'prim', 'arr': False, 'leaf': 'i', 'style': 'A'})], '.', False, None,
                     out_header=(H, hv), ret=(rtype, val))
        o, headers, got = impl.get(w, 'a=1')
        check.count(('resp', kind, repr(val), cnt, tuple(cookies), note, exp_v.isoformat(), lm_v and lm_v.isoformat()))
        case = {'kind': 'response', 'rtype': kind, 'value': repr(val), 'expires': exp_v.isoformat(),
                'last_modified': lm_v and lm_v.isoformat()}
        if o[0] != 'ok':
            check.fail('C03|response|%s|not-200' % kind, 'returning %r gave %r' % (val, o), case)
            continue
        if got != body:
            check.fail('C03|response|%s|body' % kind, 'returning %r: body %r, expected %r' % (val, got, body), case)
        hl = [(k, v) for k, v in headers]
        # what each declared member has to look like on the wire (reference, independent of spyne)
        want = [('X-Count', [str(cnt)]), ('Set-Cookie', cookies), ('X-Note', [note]),
                ('Expires', [formatdate(exp_e, usegmt=True)]),
                ('Last-Modified', [formatdate(lm_e, usegmt=True)] if lm_v is not None else []),
                ('X-Day', [day.isoformat()] if day is not None else []),
                ('X-Time', [tod.isoformat()] if tod is not None else []), ('X-Tag', tags)]
        for k, vs in want:
            have = [v for k2, v in hl if k2 == k]
            if have != vs:
                sub = ('date-of-instant' if k in ('Expires', 'Last-Modified') else
                       'order' if sorted(have) == sorted(vs) else 'count' if len(have) != len(vs) else 'value')
                check.fail('C03|response|header|%s|%s' % (k, sub),
                           'declared header %s: sent %r, expected %r (all headers %r; Expires=%s Last-Modified=%s)' % (
                               k, have, vs, hl, exp_v.isoformat(), lm_v and lm_v.isoformat()), case)
        # model vs implementation: the whole header list and the body
        ct = [v for k, v in hl if k == 'Content-Type']
        if len(ct) == 1 and all(isinstance(v, str) for _, v in hl):
            hinst = [[k, (['L', vs] if vs else ['N']) if dict(hfs)[k]['arr'] else (['S', vs[0]] if vs else ['N'])] for k, vs in want]
            rcases.append(('(%s, %s, %s, %s, %s, %s)' % (
                glist(['(%s, FOne %s)' % (gtext('Content-Type'), gtext(ct[0]))]), gfields(hfs), gobj(hinst),
                glist([gtext(body.decode('latin1'))]),
                glist(['(%s, %s)' % (gtext(k), gtext(v)) for k, v in hl]), gtext(got.decode('latin1'))),
                'response returning %r with headers %r' % (val, hinst)))
        cl = [v for k, v in hl if k.lower() == 'content-length']
        if cl and cl != [str(len(body))]:
            check.fail('C03|response|header|Content-Length', 'Content-Length %r for a body of %d bytes' % (cl, len(body)), case)
    lib.correspond(check, 'http_response', IMPORTS,
                   'list (text * fval) * list (text * ty) * list (text * val) * list text * list (text * text) * text',
                   '(fun c => let \'(base, hfs, hinst, chunks, hs, body) := c in '
                   'let r := http_response base hfs hinst chunks in '
                   'list_eqb (fun a b => text_eqb (fst a) (fst b) && text_eqb (snd a) (snd b)) (fst r) hs && text_eqb (snd r) body)',
                   rcases, show='(fun c : list (text * fval) * list (text * ty) * list (text * val) * list text * list (text * text) * text => '
                                'let \'(base, hfs, hinst, chunks, hs, body) := c in http_response base hfs hinst chunks)')


def run(check):
    tier = check.tier
    check.rule = ('generated signatures (1-4 members per class, depth <= 3, primitive / object / Array(T) / '
                  'max_occurs>1 members, classes AND array type objects reused for several sibling members/arguments), conformant sparse values (array lengths '
                  '0-13, sparse or contiguous increasing indexes, primitive arrays as repeated or indexed keys), every '
                  'pair permutation for <= 4 distinct keys and seeded permutations above, 6 hier_delim choices, '
                  'strict_arrays on/off, validator None/soft, percent-encoding variants; plus a malformed-key stream '
                  '(unknown members, broken brackets, and conformant requests re-spelled inconsistently: indexes on '
                  'non-arrays, arrays without index, both spellings, empty markers over set members, duplicates) for '
                  'the model correspondence and the no-exception-escapes oracle; a case is distinct by (entry point, configuration, signature, query '
                  'string)')
    check.trusted = list(lib.COMMON_TRUSTED) + [
        'proved (Props/C03.v, closed under the global context): index order for every arrival order (s2cmi_rank); '
        'request fidelity for every covered signature, conformant value and permutation of the pairs, both '
        'strict_arrays settings (request_fidelity, get_fidelity with qs_roundtrip); the converse (flatten_roundtrip); '
        'the response headers/body (response_fidelity); refutations for the pinned sort and for unspellable values',
        'modelled, not verified: Python re on the one pattern RE_HTTP_ARRAY_INDEX (sub/findall/split as a hand-written '
        'scanner: tied by the key_regex correspondence, the pattern literal by C03_source_tie), sorted() stability and '
        'list comparison, dict insertion order, urllib.parse.unquote on ASCII escapes, setattr/getattr on '
        'ComplexModel instances',
        'read from the source on every run (harness/translate/flatkeys.py -> Gen/FlatKeys.v) and proved equal to the '
        'model (C03_source_tie): _s2cmi statement by statement, the regex literal, the strict_arrays comparisons, the '
        "'empty' marker, the index format, the separators of _parse_qs; compared by the source_flags correspondence: "
        'the sort key of the main loop, the visited-set of get_simple_type_info_with_prot, that the index map is looked up '
        'under id(list being built) with the list kept referenced, and that a Date header takes the plain path; also read '
        'and proved equal to the model: the IMF-fixdate format and the weekday/month tables of _header_to_bytes',
        'primitive leaves are kept as text in the model: Unicode and canonical-decimal Integer members only (leaf codecs are C08)',
        'idxmap[id(list)] is modelled as a component of the array value (one map per list object; the repaired tree '
        'keeps every such list referenced so that an id cannot be reused during the call)',
        'the Python twins of Spec.spell / Spec.compact_fields / Spec.typed_obj used by the direct oracle are compared '
        'with the Coq definitions on every run (spec_tie, flatten correspondences), together with wf_sig and conf_fields '
        'of every generated conformant case: the theorems apply to the generated cases',
    ]
    check.assumptions = [
        'theorem hypotheses (wf_sig): hier_delim and member names contain no "[", member names are distinct per class, '
        'no two members have the same flat key; signatures are non-recursive (a finite type tree)',
        'conformant values (conf_fields): labels of an array are increasing and >= 0 (exactly 0..n-1 under strict_arrays), '
        'a primitive array that is sent is non-empty, an object that is sent has at least one member sent',
        'the soft validator is exercised by the correspondence and the oracle (no declared constraints: its checks must '
        'pass on conformant input) but not modelled: the theorems are about validator=None',
        'percent escapes >= 0x80 (UTF-8) are outside the Coq model of unquote; they are covered by the direct oracle only',
        'POST/form bodies need werkzeug, which is not installed: that branch of decompose_incoming_envelope is unexercised',
        'a DateTime header is modelled as a function of the INSTANT (Model.imf_fixdate; datetime.astimezone is trusted, '
        'tied by the header_date correspondence on aware values with non-zero offsets and by the email.utils.formatdate '
        'reference in the oracle); header_date_instant is proved for the years 1900-2199 by a sweep over the days',
        'response_fidelity covers header classes of primitive members and arrays of primitives; the body is the chunks '
        'to_bytes_iterable wrote (the text/bytes of a leaf is C08); the transport own headers (Content-Type) are taken as given',
    ]
    check.check_sources()
    check.regen(['flatkeys'])
    check.prove('Props.C03', THEOREMS)
    check.prove('Props.C03_src', SRC_THEOREMS)
    del SPEC_TIE[:]
    SPEC_TIE_MAX[0] = 600 if tier == 'quick' else 2400
    impl = Impl()
    corr_s2cmi(check, tier)
    corr_keys(check, tier)
    corr_parse_qs(check, tier)
    corr_flatten(check, impl, tier)
    corr_get(check, impl, tier)
    oracle_get(check, impl, tier)
    oracle_flat_roundtrip(check, impl, tier)
    oracle_response(check, impl, tier)
    oracle_unspellable(check, impl, tier)
    correspond_by_size(check, 'spec_tie',
                       'bool * text * list (text * ty) * list sval * list (text * list text) * list (text * val)',
                       '(fun c => let \'(st, d, fs, vs, doc, e) := c in wf_sig d fs && conf_fields st fs vs && '
                       'perm_docb doc (spell d fs vs) && obj_eqb (compact_fields fs vs) e)', SPEC_TIE,
                       show='(fun c : bool * text * list (text * ty) * list sval * list (text * list text) * list (text * val) => '
                            'let \'(st, d, fs, vs, doc, e) := c in (wf_sig d fs, conf_fields st fs vs, '
                            'perm_docb doc (spell d fs vs), obj_eqb (compact_fields fs vs) e))')
    # the theorems are about unflatten with the natural sort and a per-branch type-info table: the
    # working tree must use both (read from the source by the flatkeys translator)
    lib.correspond(check, 'source_flags', 'From SpyneV Require Import Base.Prelude Gen.FlatKeys.', 'unit',
                   '(fun _ => src_sort_natural && src_sti_per_branch && src_idxmap_keeps_list && src_date_header_plain)',
                   [('tt', 'simple_dict_to_object sorts with _natural_key and get_simple_type_info_with_prot '
                           'expands a class in every branch (Gen/FlatKeys.v: src_sort_natural, src_sti_per_branch)')],
                   show='(fun _ : unit => (Gen.FlatKeys.src_sort_natural, Gen.FlatKeys.src_sti_per_branch, Gen.FlatKeys.src_idxmap_keeps_list, '
                        'Gen.FlatKeys.src_date_header_plain))')
    lib.flush_correspondences(check)
    check.extra['unexercised'] = ['HttpRpc POST/PUT/PATCH form-body branch (werkzeug absent)']
    return check.finish()


def replay(check, path):
    r = json.load(open(path))
    case = r.get('replay', {})
    print(json.dumps({k: r[k] for k in ('property', 'key', 'what') if k in r}, indent=1))
    kind = case.get('kind')
    if kind in ('get', 'flat-roundtrip'):
        impl = Impl()
        fields = fix_fields(case['fields'])
        case = dict(case, fields=fields)
        o, problems = observe_get(impl, fields, case['delim'], case['strict'], case['validator'], case['qs'])
        print('query string :', case['qs'])
        print('expected     :', json.dumps(case['expected']))
        print('observed now :', json.dumps(o), problems)
        ok = o[0] == 'ok' and not problems and first_diff(['O', case['expected']], ['O', o[1]]) is None
        print('REPRODUCED' if not ok else 'does not reproduce')
        return 0 if ok else 1
    if kind == 'header-codec':
        import datetime as D
        from spyne import Date, Time, Integer, Unicode
        from spyne.protocol.http import _header_to_bytes, HttpRpc
        cls = {'Date': Date, 'Time': Time, 'Integer': Integer, 'Unicode': Unicode}[case['type']]
        v = eval(case['value'], {'datetime': D})
        try:
            got = _header_to_bytes(HttpRpc(), v, cls)
        except Exception as e:
            got = 'EXC %s' % type(e).__name__
        print('value        :', case['value'], ':', case['type'])
        print('expected     :', case['expected'])
        print('observed now :', got)
        print('REPRODUCED' if got != case['expected'] else 'does not reproduce')
        return 0 if got == case['expected'] else 1
    if kind == 'header-date':
        import datetime as D
        from spyne import DateTime
        from spyne.protocol.http import _header_to_bytes, HttpRpc
        v = D.datetime.fromisoformat(case['value'])
        got = _header_to_bytes(HttpRpc(), v, DateTime)
        print('value        :', case['value'], '(instant: %d s after the epoch)' % case['epoch'])
        print('expected     :', case['expected'])
        print('observed now :', got)
        print('REPRODUCED' if got != case['expected'] else 'does not reproduce')
        return 0 if got == case['expected'] else 1
    if kind == 'malformed':
        impl = Impl()
        fields = fix_fields(case['fields'])
        o, problems = observe_get(impl, fields, case['delim'], case['strict'], case['validator'], case['qs'])
        print('query string :', case['qs'])
        print('observed now :', json.dumps(o))
        print('REPRODUCED' if o[0] == 'crash' else 'does not reproduce')
        return 0 if o[0] != 'crash' else 1
    if kind == 'unspellable':
        impl = Impl()
        fields = fix_fields(case['fields'])
        top = {'k': 'obj', 'arr': False, 'style': 'A', 'cid': 900011, 'fields': fields}
        now = unspellable_case(impl, fields, top, case['value'])
        print('value        :', json.dumps(case['value']))
        print('flattened    :', now['flat'])
        print('observed now :', json.dumps(now['observed']))
        ok = now['observed'][0] == 'ok' and first_diff(['O', case['value'][1]], ['O', now['observed'][1]]) is None
        print('REPRODUCED' if not ok else 'does not reproduce')
        return 0 if ok else 1
    if kind == 's2cmi':
        from spyne.protocol.dictdoc import simple
        m, l = {}, []
        for nidx in case['seq']:
            if m.get(nidx) is None:
                l.insert(simple._s2cmi(m, nidx), nidx)
        print('sequence', case['seq'], '-> list', l, 'map', m)
        ok = l == sorted(set(case['seq']))
        print('REPRODUCED' if not ok else 'does not reproduce')
        return 0 if ok else 1
    print(json.dumps(case, indent=1))
    return 0

def fix_fields(fs):
    """JSON turns the (name, type) tuples into lists"""
    out = []
    for n, t in fs:
        t = dict(t)
        if t['k'] == 'obj':
            t['fields'] = fix_fields(t['fields'])
        out.append((n, t))
    return out
