"""C17 — XML input is parsed with safe defaults.

Proof obligations: Props/C17.v over the configuration table generated from the
working tree (Gen/XmlParserCfg.v) and the option model of coq/C17/Xml.v.
Tie: (a) the translator, (b) a correspondence that runs a generated attack
corpus through the real lxml parser under a lattice of configurations and
through the real Spyne request entry points (XmlDocument, Soap11, Soap12 over
ServerBase and WSGI, plus the multipart/related path of Soap11) and compares
load events / rejection / the parsed tree / what user code received with the
model; (c) a direct oracle on the implementation alone: canary file (inotify),
canary socket, canary strings in user arguments and response bytes, rejection
of expansion and nesting bombs as Client.XMLSyntaxError, wall time and peak
RSS of a parsing subprocess.
"""
import os, re, sys, io, json, time, struct, ctypes, socket, threading, tempfile, shutil, subprocess, resource
import lib
from lib import gz, glist, gbool, gopt, gpair

def gtext(s):
    """str -> Coq text; long runs of one character are written (rep c n) so that expanded
    bombs do not become megabyte list literals"""
    parts, lit, i = [], [], 0
    while i < len(s):
        j = i
        while j < len(s) and s[j] == s[i]:
            j += 1
        if j - i >= 24:
            if lit:
                parts.append(glist(lit)); lit = []
            parts.append('rep %d %d' % (ord(s[i]), j - i))
        else:
            lit.extend([str(ord(s[i]))] * (j - i))
        i = j
    if lit or not parts:
        parts.append(glist(lit))
    return parts[0] if len(parts) == 1 and parts[0].startswith('[') else '(' + ' ++ '.join(parts) + ')'

THEOREMS = ['C17_defaults_safe', 'C17_no_external', 'C17_world_independent', 'C17_tree_verbatim',
            'C17_rejections_are_client_faults', 'C17_depth_bounded',
            'C17_swa_safe', 'C17_no_entity_expansion_refuted', 'C17_safe_clauses_needed']

# ------------------------------------------------------------------ vocabulary shared with the model
T_ECHO, T_S, T_ITEM, T_NAME, T_N, T_ARR, T_STRING, A_TAG, T_XI, T_Z, T_ENV, T_BODY, A_HREF, A_PARSE = range(1, 15)
A_DK = 99
TAGS = {T_ECHO: 'echo', T_S: 's', T_ITEM: 'item', T_NAME: 'name', T_N: 'n', T_ARR: 'arr', T_STRING: 'string',
        T_XI: 'include', T_Z: 'z', T_ENV: 'Envelope', T_BODY: 'Body'}
TAG_IDS = {v: k for k, v in TAGS.items()}
NS_TNS = 'tns'
NS_XI = 'http://www.w3.org/2001/XInclude'
NS11 = 'http://schemas.xmlsoap.org/soap/envelope/'
NS12 = 'http://www.w3.org/2003/05/soap-envelope'

def attr_name(a):
    return {A_TAG: 'tag', A_HREF: 'href', A_PARSE: 'parse', A_DK: 'dk'}.get(a, 'k%d' % a)

def attr_id(name):
    m = {'tag': A_TAG, 'href': A_HREF, 'parse': A_PARSE, 'dk': A_DK}
    if name in m:
        return m[name]
    if name.startswith('k') and name[1:].isdigit():
        return int(name[1:])
    return -1

# resources of the world: (scheme, res)
R_CANARY, R_DTD, R_MISSING, R_TEXT2 = 1, 2, 3, 4
E_FROMDTD = 900


class World(object):
    """a scratch directory with the canary files, inotify watches on them and a canary socket"""

    def __init__(self, rng):
        self.dir = tempfile.mkdtemp(prefix='c17w')
        tok = ''.join(rng.choice('ABCDEFGHJKLMNPQRSTUVWXYZ') for _ in range(8))
        self.canary = 'CANARYFILE' + tok
        self.text2 = 'SECONDFILE' + tok
        self.fromdtd = 'FROMDTD' + tok
        self.dtddef = 'DTDDEF' + tok
        self.files = {R_CANARY: os.path.join(self.dir, 'r1.txt'), R_DTD: os.path.join(self.dir, 'r2.dtd'),
                      R_TEXT2: os.path.join(self.dir, 'r4.txt'), R_MISSING: os.path.join(self.dir, 'r3.none')}
        open(self.files[R_CANARY], 'w').write(self.canary)
        open(self.files[R_TEXT2], 'w').write(self.text2)
        open(self.files[R_DTD], 'w').write('<!ENTITY e%d "%s">\n<!ATTLIST item dk CDATA "%s">\n'
                                           % (E_FROMDTD, self.fromdtd, self.dtddef))
        self.secrets = [self.canary, self.text2, self.fromdtd, self.dtddef]
        # canary socket
        self.srv = socket.socket()
        self.srv.bind(('127.0.0.1', 0))
        self.srv.listen(64)
        self.port = self.srv.getsockname()[1]
        self.hits = []
        self._stop = False
        th = threading.Thread(target=self._accept, daemon=True)
        th.start()
        # inotify
        self.libc = ctypes.CDLL('libc.so.6', use_errno=True)
        self.ifd = self.libc.inotify_init1(os.O_NONBLOCK)
        if self.ifd < 0:
            raise RuntimeError('inotify_init1 failed')
        self.wd = {}
        for res in (R_CANARY, R_DTD, R_TEXT2):
            wd = self.libc.inotify_add_watch(self.ifd, self.files[res].encode(), 0x1 | 0x20)  # IN_ACCESS|IN_OPEN
            if wd < 0:
                raise RuntimeError('inotify_add_watch failed')
            self.wd[wd] = res
        # self-test of the observation channel (a blind canary proves nothing)
        open(self.files[R_CANARY]).read()
        if self.file_events() != {R_CANARY}:
            raise RuntimeError('inotify self-test failed')
        s = socket.create_connection(('127.0.0.1', self.port)); s.close()
        time.sleep(0.05)
        if not self.net_hits():
            raise RuntimeError('canary socket self-test failed')

    def _accept(self):
        while not self._stop:
            try:
                c, _ = self.srv.accept()
            except OSError:
                return
            self.hits.append(1)
            try:
                c.settimeout(0.2)
                c.recv(256)
                c.sendall(b'HTTP/1.0 200 OK\r\nContent-Length: 9\r\n\r\nNETCANARY')
            except Exception:
                pass
            c.close()

    def file_events(self):
        """set of resources opened/read since the last call"""
        seen = set()
        while True:
            try:
                b = os.read(self.ifd, 65536)
            except BlockingIOError:
                return seen
            i = 0
            while i < len(b):
                wd, mask, cookie, ln = struct.unpack_from('iIII', b, i)
                i += 16 + ln
                if wd in self.wd:
                    seen.add(self.wd[wd])

    def net_hits(self):
        n = len(self.hits)
        del self.hits[:]
        return n

    def url(self, x, style=0):
        scheme, res = x
        if scheme == 'file':
            p = self.files.get(res, os.path.join(self.dir, 'r%d.none' % res))
            return ('file://' + p) if (style + res) % 2 else p
        return '%s://127.0.0.1:%d/r%d' % (scheme, self.port, res)

    def close(self):
        self._stop = True
        try:
            self.srv.close()
        except Exception:
            pass
        try:
            os.close(self.ifd)
        except Exception:
            pass
        shutil.rmtree(self.dir, ignore_errors=True)

    def coq(self):
        return ('Definition world0 (x : extid) : rescontent :=\n'
                '  match x_scheme x with\n'
                '  | SFile => if x_res x =? %d then RText %s else if x_res x =? %d then RText %s else\n'
                '             if x_res x =? %d then RDtd [(%d, EInt [PText %s])] [(%d, %d, %s)] else RMissing\n'
                '  | _ => RMissing   (* this libxml2 build has no HTTP/FTP client: nothing is ever fetched *)\n'
                '  end.\n' % (R_CANARY, gtext(self.canary), R_TEXT2, gtext(self.text2), R_DTD, E_FROMDTD,
                              gtext(self.fromdtd), T_ITEM, A_DK, gtext(self.dtddef)))


# ------------------------------------------------------------------ documents: render and print
def render_pieces(ps):
    return ''.join(p[1] if p[0] == 't' else '&e%d;' % p[1] for p in ps)

def render_edef(world, n, d, q='"'):
    if d[0] == 'int':
        return '<!ENTITY e%d %s%s%s>' % (n, q, render_pieces(d[1]), q)
    return '<!ENTITY e%d SYSTEM %s%s%s>' % (n, q, world.url(d[1], n), q)

def render_doc(world, doc, wrap=None):
    """bytes of the document; wrap = None | NS11 | NS12 puts the root into a SOAP envelope (which is
    then part of the modelled tree)"""
    out = []
    if doc['doctype']:
        out.append('<!DOCTYPE d')
        if doc['ext'] is not None:
            out.append(' SYSTEM "%s"' % world.url(doc['ext']))
        if doc['decls']:
            out.append(' [')
            pe = 0
            for d in doc['decls']:
                if d[0] == 'ent':
                    out.append(render_edef(world, d[1], d[2]))
                elif d[0] == 'att':
                    out.append('<!ATTLIST %s %s CDATA "%s">' % (TAGS[d[1]], attr_name(d[2]), d[3]))
                else:
                    pe += 1
                    if d[1][0] == 'int':
                        out.append('<!ENTITY %% p%d "%s"> %%p%d;' % (
                            pe, ''.join(render_edef(world, n, e, "'") for n, e in d[1][1]), pe))
                    else:
                        out.append('<!ENTITY %% p%d SYSTEM "%s"> %%p%d;' % (pe, world.url(d[1][1], pe), pe))
            out.append(']')
        out.append('>')
    def node(n, top=False):
        if n[0] == 't':
            out.append(n[1])
        elif n[0] == 'r':
            out.append('&e%d;' % n[1])
        elif n[0] == 'n':
            out.append(('<%s>' % TAGS[n[2]]) * n[1])
            node(n[3])
            out.append(('</%s>' % TAGS[n[2]]) * n[1])
        else:
            tag = n[1]
            if tag in (T_ENV, T_BODY):
                nm = 'e:' + TAGS[tag]
            elif tag == T_XI:
                nm = 'xi:include'
            else:
                nm = TAGS[tag]
            out.append('<' + nm)
            if tag == T_ENV:
                out.append(' xmlns:e="%s"' % n[4])
            if tag == T_ECHO:
                out.append(' xmlns="%s"' % NS_TNS)
            if tag == T_XI:
                out.append(' xmlns:xi="%s"' % NS_XI)
            for a, ps in n[2]:
                out.append(' %s="%s"' % (attr_name(a), render_pieces(ps)))
            if n[3]:
                out.append('>')
                for k in n[3]:
                    node(k)
                out.append('</%s>' % nm)
            else:
                out.append('/>')
    node(doc['root'])
    return ''.join(out).encode('ascii')

def g_pieces(ps):
    return glist(['(PText %s)' % gtext(p[1]) if p[0] == 't' else '(PRef %d)' % p[1] for p in ps])

def g_ext(x):
    return '(mkExt %s %d)' % ({'file': 'SFile', 'http': 'SHttp', 'ftp': 'SFtp'}[x[0]], x[1])

def g_edef(d):
    return '(EInt %s)' % g_pieces(d[1]) if d[0] == 'int' else '(EExt %s)' % g_ext(d[1])

def g_node(n):
    if n[0] == 't':
        return '(NText %s)' % gtext(n[1])
    if n[0] == 'r':
        return '(NRef %d)' % n[1]
    if n[0] == 'n':
        return '(NNest %d %d %s)' % (n[1], n[2], g_node(n[3]))
    return '(NElem %d %s %s)' % (n[1], glist(['(%d, %s)' % (a, g_pieces(ps)) for a, ps in n[2]]),
                                 glist([g_node(k) for k in n[3]]))

def g_doc(doc, size):
    ds = []
    for d in doc['decls']:
        if d[0] == 'ent':
            ds.append('(DEnt %d %s)' % (d[1], g_edef(d[2])))
        elif d[0] == 'att':
            ds.append('(DAtt %d %d %s)' % (d[1], d[2], gtext(d[3])))
        elif d[1][0] == 'int':
            ds.append('(DPEUse (PEInt %s))' % glist(['(%d, %s)' % (n, g_edef(e)) for n, e in d[1][1]]))
        else:
            ds.append('(DPEUse (PEExt %s))' % g_ext(d[1][1]))
    return '(mkDoc %s %s %s %s %d)' % (gbool(doc['doctype']), gopt(doc['ext'], g_ext), glist(ds),
                                       g_node(doc['root']), size)

def g_cfg(c):
    r = c['resolve_entities']
    return '(mkCfg %s %s %s %s %s %s %s %s %s %s %s %s %s)' % (
        gbool(c['attribute_defaults']), gbool(c['dtd_validation']), gbool(c['load_dtd']), gbool(c['no_network']),
        gbool(c['recover']), 'RInternal' if r == 'internal' else 'RAll' if r else 'RNo', gbool(c['huge_tree']),
        gbool(c['remove_comments']), gbool(c['remove_pis']), gbool(c['ns_clean']), gbool(c['remove_blank_text']),
        gbool(c['strip_cdata']), gbool(c['compact']))

def g_toks(toks):
    out = []
    for t in toks:
        if t[0] == 'open':
            out.append('TOpen %d' % t[1])
        elif t[0] == 'attr':
            out.append('TAttr %d %s' % (t[1], gtext(t[2])))
        elif t[0] == 'close':
            out.append('TClose')
        elif t[0] == 'nest':
            out.append('TNest %d %d' % (t[1], t[2]))
        elif t[0] == 'nestend':
            out.append('TNestEnd')
        elif t[0] == 'text':
            out.append('TText %s' % gtext(t[1]))
        else:
            out.append('TRef %d' % t[1])
    return glist(out)


def canon(root):
    """lxml tree -> token list (adjacent text merged, empty text dropped, <z> chains compressed)"""
    from lxml import etree
    toks = []
    def text(t):
        if t:
            if toks and toks[-1][0] == 'text':
                toks[-1] = ('text', toks[-1][1] + t)
            else:
                toks.append(('text', t))
    def local(e):
        return TAG_IDS.get(etree.QName(e).localname, -1)
    def content(e):
        text(e.text)
        for ch in e:
            if isinstance(ch, etree._Entity):
                nm = ch.name
                toks.append(('ref', int(nm[1:]) if nm[1:].isdigit() else -1))
            elif isinstance(ch.tag, str):
                elem(ch)
            else:
                toks.append(('ref', -2))         # comment / PI: never generated
            text(ch.tail)
    def elem(e):
        tag = local(e)
        if tag == T_Z and not e.attrib:
            k, cur = 1, e
            while len(cur) == 1 and isinstance(cur[0].tag, str) and local(cur[0]) == T_Z and not cur[0].attrib \
                    and not cur.text and not cur[0].tail:
                cur = cur[0]
                k += 1
            toks.append(('nest', k, T_Z))
            content(cur)
            toks.append(('nestend',))
            return
        toks.append(('open', tag))
        for a, v in sorted((attr_id(etree.QName(a).localname), v) for a, v in e.attrib.items()):
            toks.append(('attr', a, v))
        content(e)
        toks.append(('close',))
    elem(root)
    return toks


# ------------------------------------------------------------------ configurations
SAFE = dict(attribute_defaults=False, dtd_validation=False, load_dtd=False, no_network=True, ns_clean=False,
            recover=False, remove_blank_text=False, remove_comments=True, remove_pis=True, strip_cdata=True,
            resolve_entities=False, huge_tree=False, compact=True)
LXML_DEFAULT = dict(SAFE, resolve_entities='internal', remove_comments=False, remove_pis=False)

def cfg_lattice():
    out = [('safe', dict(SAFE)), ('lxml_default', dict(LXML_DEFAULT))]
    for k, v in (('resolve_entities', True), ('resolve_entities', 'internal'), ('load_dtd', True),
                 ('attribute_defaults', True), ('dtd_validation', True), ('no_network', False),
                 ('huge_tree', True), ('recover', True)):
        out.append(('%s=%s' % (k, v), dict(SAFE, **{k: v})))
    out.append(('resolve+nonet', dict(SAFE, resolve_entities=True, no_network=False)))
    out.append(('internal+load_dtd', dict(SAFE, resolve_entities='internal', load_dtd=True)))
    out.append(('load_dtd+nonet', dict(SAFE, load_dtd=True, no_network=False)))
    out.append(('resolve+load_dtd', dict(SAFE, resolve_entities=True, load_dtd=True)))
    out.append(('resolve+huge', dict(SAFE, resolve_entities=True, huge_tree=True)))
    return out


# ------------------------------------------------------------------ the attack corpus
ALPHA = 'abcdefghijklmnopqrstuvwxyzABCDEFGHIJKLMNOPQRSTUVWXYZ0123456789'

def word(rng, lo=1, hi=8):
    return ''.join(rng.choice(ALPHA) for _ in range(rng.randint(lo, hi)))

def marker(n):
    """the literal text an internal entity contributes: recognisable in user arguments"""
    return 'ZQ%dQZ' % n

def request_tree(s_kids, name_kids, tag_pieces, arr_strings, echo_extra=(), item_extra=(), arr_extra=(),
                 item_attrs=(), n_kids=None):
    item = ('e', T_ITEM, [(A_TAG, tag_pieces)] + list(item_attrs),
            list(item_extra) + [('e', T_NAME, [], name_kids), ('e', T_N, [], n_kids or [('t', '5')])])
    arr = ('e', T_ARR, [], list(arr_extra) + [('e', T_STRING, [], k) for k in arr_strings])
    return ('e', T_ECHO, [], list(echo_extra) + [('e', T_S, [], s_kids), item, arr])

def soap_wrap(root, nsenv, wrap=None):
    """the request inside a SOAP envelope; wrap = (wrapper position, content nodes) puts the payload between the
    elements of the envelope itself: before <Body>, before the method element, after the method element"""
    pos, pl = wrap or (None, [])
    body = ('e', T_BODY, [], (list(pl) if pos == 'body-first' else []) + [root] + (list(pl) if pos == 'body-last' else []))
    return ('e', T_ENV, [], (list(pl) if pos == 'env-first' else []) + [body], nsenv)

# 'n' is the text of a NON-string leaf (Integer): digits first, then the payload - an oracle-only position
# (the model's observation does not include n): a reader that takes the XPath string-value of the element
# instead of its text would substitute the entity there
POSITIONS = ['s', 'name', 'string', 'attr', 'between-echo', 'between-item', 'between-arr', 'n']
# between-element positions of the protocol's own wrapper (SOAP routes only): the code that picks the header
# entries and the method element out of the envelope meets whatever node the parser left there
WRAP_POSITIONS = ['env-first', 'body-first', 'body-last']

def place(rng, pos, payload_text=None, payload_attr=None):
    """a valid request with the payload (a list of content nodes / attribute pieces) at `pos`"""
    pre, post = word(rng), word(rng)
    s_kids, name_kids = [('t', word(rng))], [('t', word(rng))]
    tag_pieces = [('t', word(rng))]
    strings = [[('t', word(rng))] for _ in range(rng.randint(1, 2))]
    kw = {}
    if pos in WRAP_POSITIONS:
        pass                      # the payload goes into the envelope (soap_wrap), the request itself is plain
    elif pos == 'attr':
        tag_pieces = [('t', pre)] + payload_attr + [('t', post)]
    else:
        mixed = [('t', pre)] + payload_text + [('t', post)] if rng.random() < 0.7 else \
            (payload_text + [('t', post)] if rng.random() < 0.5 else payload_text)
        if pos == 's':
            s_kids = mixed
        elif pos == 'name':
            name_kids = mixed
        elif pos == 'string':
            strings[rng.randrange(len(strings))] = mixed
        elif pos == 'between-echo':
            kw['echo_extra'] = payload_text
        elif pos == 'between-item':
            kw['item_extra'] = payload_text
        elif pos == 'n':
            kw['n_kids'] = [('t', '5')] + payload_text
        else:
            kw['arr_extra'] = payload_text
    return request_tree(s_kids, name_kids, tag_pieces, strings, **kw)

def attack_docs(check, tier):
    """list of (family, position, doc) — doc root is the bare request (protocol wrappers are added later)"""
    rng = check.rng
    out = []
    def add(family, pos, decls, text_payload, attr_payload=None, ext=None, doctype=True):
        root = place(rng, pos, text_payload, attr_payload if attr_payload is not None else
                     [p if p[0] != 'r' else ('r', p[1]) for p in text_payload if p[0] in ('t', 'r')])
        doc = dict(doctype=doctype, ext=ext, decls=decls, root=root)
        if pos in WRAP_POSITIONS:
            doc['wrap'] = (pos, text_payload)
        out.append((family, pos, doc))
    schemes = ['file', 'http', 'ftp']
    reps = 1 if tier == 'quick' else 4
    for _ in range(reps):
        for pos in POSITIONS + WRAP_POSITIONS:
            # external general entity
            for sch in schemes:
                res = rng.choice([R_CANARY, R_TEXT2]) if sch == 'file' else rng.randint(5, 9)
                add('ext-general-%s' % sch, pos, [('ent', 1, ('ext', (sch, res)))], [('r', 1)])
            add('ext-general-missing', pos, [('ent', 1, ('ext', ('file', R_MISSING)))], [('r', 1)])
            # external entity hidden behind an internal one
            add('ext-via-internal', pos, [('ent', 1, ('ext', ('file', R_CANARY))),
                                          ('ent', 2, ('int', [('t', marker(2)), ('r', 1)]))], [('r', 2)])
            # external parameter entity (declared + referenced), good DTD / not a DTD / missing / network
            for sch, res in (('file', R_DTD), ('file', R_CANARY), ('file', R_MISSING), ('http', 6), ('ftp', 7)):
                add('ext-parameter-%s-%d' % (sch, res), pos, [('pe', ('ext', (sch, res)))],
                    [('r', E_FROMDTD)] if rng.random() < 0.6 else [('t', word(rng))])
            # external DTD subset
            for sch, res in (('file', R_DTD), ('file', R_CANARY), ('file', R_MISSING), ('http', 8), ('ftp', 9)):
                add('ext-subset-%s-%d' % (sch, res), pos, [], [('r', E_FROMDTD)] if rng.random() < 0.6 else
                    [('t', word(rng))], ext=(sch, res))
            # internal parameter entity declaring a general entity
            add('int-parameter', pos, [('pe', ('int', [(3, ('int', [('t', marker(3))]))]))], [('r', 3)])
            # internal general entity, chains
            add('int-general', pos, [('ent', 1, ('int', [('t', marker(1))]))], [('r', 1)])
            d = rng.randint(2, 6)
            add('int-chain-%d' % d, pos, [('ent', 0, ('int', [('t', marker(0))]))] +
                [('ent', i, ('int', [('t', word(rng, 0, 2)), ('r', i - 1)])) for i in range(1, d + 1)], [('r', d)])
            # duplicate declaration: the first one binds
            add('int-duplicate', pos, [('ent', 1, ('int', [('t', marker(1))])), ('ent', 1, ('int', [('t', 'SECOND')]))],
                [('r', 1)])
            # undeclared entity, with and without something that makes it "maybe declared elsewhere"
            add('undeclared', pos, [('ent', 1, ('int', [('t', marker(1))]))], [('r', 44)])
            add('undeclared-nodoctype', pos, [], [('r', 44)], doctype=False)
            add('undeclared-after-pe', pos, [('pe', ('ext', ('file', R_MISSING)))], [('r', 44)])
            # reference loop
            add('int-loop', pos, [('ent', 1, ('int', [('r', 2)])), ('ent', 2, ('int', [('r', 1)]))], [('r', 1)])
            # ATTLIST default in the internal subset
            add('attlist-default', pos, [('att', T_ITEM, A_DK, 'INTDEF' + word(rng))], [('t', word(rng))])
        # XInclude at text positions (an ordinary element to the parser)
        for pos in ('s', 'name', 'string', 'between-echo'):
            for sch in ('file', 'http'):
                xi = ('e', T_XI, [(A_HREF, [('t', 'XIHREF')]), (A_PARSE, [('t', 'text')])], [])
                add('xinclude-%s' % sch, pos, [], [xi], attr_payload=[], doctype=False)
    # entity nesting depth around libxml2's limits (19 / 39)
    for d in (17, 18, 19, 20, 37, 38, 39, 40, 45):
        for pos in ('s', 'attr'):
            add('int-nesting-%d' % d, pos, [('ent', 0, ('int', [('t', 'N')]))] +
                [('ent', i, ('int', [('r', i - 1)])) for i in range(1, d + 1)], [('r', d)])
    # expansion bombs: fan-out f, depth d, base b  (expansion b*f^d); far from the 10^6 / 5x guard
    bombs = [(10, 2, 10), (10, 3, 10), (10, 4, 10), (3, 9, 7), (10, 6, 10), (10, 9, 10), (100, 3, 10), (2, 18, 40),
             (300, 2, 30), (40, 4, 3)]
    if tier != 'quick':
        bombs += [(rng.randint(2, 12), rng.randint(2, 7), rng.randint(1, 30)) for _ in range(12)]
    for f, d, b in bombs:
        total = b * f ** d
        if 300000 < total < 3000000:
            continue              # too close to the guard for the abstract size accounting
        for pos in ('s', 'attr', 'string'):
            add('bomb-f%d-d%d-b%d' % (f, d, b), pos, [('ent', 0, ('int', [('t', 'B' * b)]))] +
                [('ent', i, ('int', [('r', i - 1)] * f)) for i in range(1, d + 1)], [('r', d)])
    # many references to one large entity ("quadratic blow-up")
    for refs, size in ((30, 1000), (400, 5000)):
        if tier == 'quick' and refs > 100:
            refs, size = 2000, 1000
        for pos in ('s', 'attr'):
            add('quadratic-%dx%d' % (refs, size), pos, [('ent', 1, ('int', [('t', 'Q' * size)]))], [('r', 1)] * refs)
    # nesting depth around 256 / 2048 (the wrappers sit inside a leaf or between elements)
    for k in (100, 240, 250, 251, 252, 253, 254, 255, 256, 300, 2030, 2040, 2043, 2044, 2045, 2046, 2047, 2048, 2100, 5000):
        for pos in ('s', 'between-echo'):
            add('nesting-%d' % k, pos, [], [('n', k, T_Z, ('t', 'x'))], attr_payload=[], doctype=False)
    # many attributes
    for k in (50, 80):
        root = request_tree([('t', 'x')], [('t', 'y')], [('t', 'z')], [[('t', 'w')]],
                            item_attrs=[(a, [('t', 'v')]) for a in range(16, 16 + k)])
        out.append(('many-attributes-%d' % k, 'attr', dict(doctype=False, ext=None, decls=[], root=root)))
    # plain valid requests (controls)
    for _ in range(3):
        out.append(('control', 's', dict(doctype=False, ext=None, decls=[], root=place(rng, 's', [('t', word(rng))]))))
    out.append(('control-doctype', 's', dict(doctype=True, ext=None, decls=[], root=place(rng, 's', [('t', word(rng))]))))
    return out


# ------------------------------------------------------------------ running the real parser
def parse_real(world, data, cfg):
    from lxml import etree
    world.file_events(); world.net_hits()
    try:
        root = etree.fromstring(data, parser=etree.XMLParser(**cfg))
        res = ('tree', canon(root))
    except etree.XMLSyntaxError:
        res = ('err',)
    return res, world.file_events(), world.net_hits()

PRELUDE = ('From Coq Require Import String.\n'
           'From SpyneV Require Import Base.Prelude C17.Cfg C17.Xml Gen.XmlParserCfg.\nOpen Scope Z_scope.\n'
           'Definition rep (c n : Z) : text := repeat c (Z.to_nat n).\n')

RAW_OKB = '''(fun k : (pcfg * doc * (list Z * option (list tok))) =>
  let '(c, d, (files, o)) := k in
  let r := parse c world0 d in
  let loaded := flat_map (fun e => match e with LoadFile x => match world0 (mkExt SFile x) with RMissing => [] | _ => [x] end | _ => [] end) (p_events r) in
  forallb (fun x => memz x files) loaded && forallb (fun x => memz x loaded) files &&
  match p_out r, o with
  | PRecovered, _ => true
  | PErr, None => true
  | PTree t g, Some toks => toks_eqb (norm_toks (flat c g t)) toks
  | _, _ => false
  end)'''

RAW_SHOW = '''(fun k : (pcfg * doc * (list Z * option (list tok))) =>
  let '(c, d, _) := k in let r := parse c world0 d in
  (p_events r, match p_out r with PTree t g => Some (norm_toks (flat c g t)) | _ => None end,
   match p_out r with PErr => 1 | PRecovered => 2 | _ => 0 end))'''

def unvalidated(cfg, doc):
    """regions of (configuration, document) where lxml's error reporting depends on details the model
    does not represent (all of them outside the safe configuration): lxml's 'internal' mode meeting a
    parameter-entity reference, and a refused http:// fetch of a DTD part (a deferred, sometimes
    swallowed error).  Not compared; said so in the evidence."""
    has_pe = any(d[0] == 'pe' for d in doc['decls'])
    if cfg['resolve_entities'] == 'internal' and has_pe:
        return True
    loading = cfg['load_dtd'] or cfg['dtd_validation'] or cfg['attribute_defaults']
    if cfg['no_network']:
        if doc['ext'] is not None and doc['ext'][0] == 'http' and loading:
            return True
        if any(d[0] == 'pe' and d[1][0] == 'ext' and d[1][1][0] == 'http' for d in doc['decls']) and \
                (loading or cfg['resolve_entities'] is True):
            return True
    return False

def raw_correspondence(check, world, docs, tier):
    lattice = cfg_lattice()
    cases = []
    for family, pos, doc in docs:
        if 'wrap' in doc:
            # payload between the elements of a SOAP envelope: the parser sees nothing new there (a between-element
            # position); compared in the thorough tier only, with the envelope as part of the document
            if tier == 'quick':
                continue
            doc = dict(doc, root=soap_wrap(doc['root'], NS11, doc['wrap']))
        data = render_doc(world, doc)
        heavy = family.startswith(('bomb', 'quadratic', 'nesting-2', 'nesting-5', 'many-'))
        cfgs = lattice if not heavy else [lattice[0], lattice[1], lattice[2], lattice[8], lattice[9], lattice[14]]
        for cname, cfg in cfgs:
            if unvalidated(cfg, doc):
                continue
            res, files, hits = parse_real(world, data, cfg)
            check.count(('raw', family, pos, cname))
            if hits:
                check.fail('C17|network-contact|raw-parser|%s' % cname, 'the parser opened a network connection '
                           'under %s for a %s document' % (cname, family), {'cfg': cname, 'doc': data.decode()})
            obs = '(%s, %s)' % (glist([str(r) for r in sorted(files)]),
                                gopt(res[1] if res[0] == 'tree' else None, g_toks))
            cases.append(('(%s, %s, %s)' % (g_cfg(cfg), g_doc(doc, len(data)), obs),
                          'lxml %s | %s at %s | %s -> %s files=%s' % (cname, family, pos, data[:300].decode(),
                                                                       res[0], sorted(files))))
    lib.correspond(check, 'libxml2_option_model', PRELUDE + world.coq(),
                   'pcfg * doc * (list Z * option (list tok))', RAW_OKB, cases, shard=120, show=RAW_SHOW)
    return len(cases)


# ------------------------------------------------------------------ driving Spyne
CAPTURE = []

def build_apps():
    from spyne import Application, rpc, ServiceBase, Unicode, Integer, ComplexModel, XmlAttribute, Array
    from spyne.protocol.xml import XmlDocument
    from spyne.protocol.soap import Soap11, Soap12

    class Item(ComplexModel):
        __namespace__ = NS_TNS
        name = Unicode
        tag = XmlAttribute(Unicode)
        dk = XmlAttribute(Unicode)
        n = Integer

    class Svc(ServiceBase):
        @rpc(Unicode, Item, Array(Unicode), _returns=Unicode)
        def echo(ctx, s, item, arr):
            CAPTURE.append((s, None if item is None else (item.name, item.tag, item.dk, item.n),
                            None if arr is None else list(arr)))
            return 'R[%r|%r|%r]' % (s, None if item is None else (item.name, item.tag, item.dk), arr)

    apps = {}
    for nm, P in (('XmlDocument', XmlDocument), ('Soap11', Soap11), ('Soap12', Soap12)):
        apps[nm] = Application([Svc], NS_TNS, name='C17App', in_protocol=P(), out_protocol=P())
        # the same service behind libxml2's schema validator: every other setting at its default
        apps[nm + '/lxml'] = Application([Svc], NS_TNS, name='C17App', in_protocol=P(validator='lxml'), out_protocol=P())
    return apps

def permissive_first(world):
    from spyne import Application, rpc, ServiceBase, Unicode
    from spyne.protocol.xml import XmlDocument
    from spyne.protocol.soap import Soap11, Soap12

    class P(ServiceBase):
        @rpc(Unicode, _returns=Unicode)
        def ping(ctx, s):
            return s
    for Prot, wrap in ((XmlDocument, None), (Soap11, NS11), (Soap12, NS12)):
        kw = dict(resolve_entities=True, huge_tree=True, load_dtd=True, attribute_defaults=True, no_network=False)
        app = Application([P], NS_TNS, name='C17Permissive', in_protocol=Prot(**kw), out_protocol=Prot(**kw))
        body = '<ping xmlns="%s"><s>x</s></ping>' % NS_TNS
        if wrap:
            body = '<e:Envelope xmlns:e="%s"><e:Body>%s</e:Body></e:Envelope>' % (wrap, body)
        try:
            call_serverbase(app, body.encode('ascii'))
        except Exception:
            pass
    world.file_events(); world.net_hits()


def call_wsgi(app, body, ctype):
    from spyne.server.wsgi import WsgiApplication
    w = WsgiApplication(app)
    st = {}
    def sr(status, headers, exc=None):
        st['status'] = status
    env = {'REQUEST_METHOD': 'POST', 'PATH_INFO': '/', 'QUERY_STRING': '', 'CONTENT_TYPE': ctype,
           'CONTENT_LENGTH': str(len(body)), 'wsgi.input': io.BytesIO(body), 'SERVER_NAME': 'c17', 'SERVER_PORT': '80',
           'wsgi.url_scheme': 'http', 'SCRIPT_NAME': '', 'SERVER_PROTOCOL': 'HTTP/1.1'}
    out = b''.join(w(env, sr))
    return st.get('status'), out

def call_serverbase(app, body):
    from spyne.server import ServerBase
    from spyne.context import MethodContext
    srv = ServerBase(app)
    ctx0 = MethodContext(srv, MethodContext.SERVER)
    ctx0.in_string = [body]
    ctx, = srv.generate_contexts(ctx0)
    if ctx.in_error is None:
        srv.get_in_object(ctx)
    if ctx.in_error is None:
        srv.get_out_object(ctx)
    else:
        ctx.out_error = ctx.in_error
    srv.get_out_string(ctx)
    err = ctx.out_error
    return (None if err is None else getattr(err, 'faultcode', repr(err))), b''.join(ctx.out_string)

def multipart(envelope, by_location=False):
    b = 'C17BOUNDARY'
    # by_location: the attachment is identified by Content-Location only (no Content-ID), the other way
    # SwA allows; collapse_swa then takes its Content-Location branch
    att = ['Content-Location: att1.bin'] if by_location else ['Content-ID: <att1>']
    parts = ['--' + b, 'Content-Type: text/xml; charset=utf-8', 'Content-ID: <root>', '', envelope.decode('ascii'),
             '--' + b, 'Content-Type: application/octet-stream', 'Content-Transfer-Encoding: base64'] + att + \
            ['', 'QUJD', '--' + b + '--', '']
    return '\r\n'.join(parts).encode('ascii'), 'multipart/related; boundary="%s"; start="<root>"; type="text/xml"' % b

ROUTES = [('XmlDocument', 'ServerBase'), ('XmlDocument', 'WSGI'), ('Soap11', 'ServerBase'), ('Soap11', 'WSGI'),
          ('Soap12', 'ServerBase'), ('Soap12', 'WSGI'), ('Soap11', 'WSGI-multipart')]
# oracle-only routes (the same parse sites reached another way; not fed to the correspondence):
#   WSGI-decl          charset in Content-Type AND an XML declaration with encoding=: lxml refuses the decoded
#                      text and _parse_xml_string falls back to a second parse call
#   WSGI-multipart-cl  the attachment is located by Content-Location, not Content-ID
#   *-lxml             the protocol constructed with validator='lxml' (oracle only: libxml2's schema validator
#                      then walks the tree the parser left, entity-reference nodes included)
ORACLE_ROUTES = [('Soap11', 'WSGI-decl'), ('Soap12', 'WSGI-decl'), ('Soap11', 'WSGI-multipart-cl')]
LXML_ROUTES = [(p, t + '-lxml') for p in ('XmlDocument', 'Soap11', 'Soap12') for t in ('ServerBase', 'WSGI')]

def classify(status_or_code, out, transport):
    """-> 'ok' | 'syntax' | 'other'"""
    if b'XMLSyntaxError' in out and (b'Client.XMLSyntaxError' in out or b'Sender' in out):
        return 'syntax'
    if transport == 'ServerBase':
        return 'ok' if status_or_code is None else 'other'
    return 'ok' if (status_or_code or '').startswith('200') else 'other'

def send(apps, proto, transport, data):
    """one request through one route; transport = ServerBase | WSGI | WSGI-decl | WSGI-multipart[-cl], with the
    suffix -lxml for the application whose protocol was constructed with validator='lxml'"""
    app = apps[proto]
    if transport.endswith('-lxml'):
        app, transport = apps[proto + '/lxml'], transport[:-5]
    ct = 'application/soap+xml; charset=utf-8' if proto == 'Soap12' else 'text/xml; charset=utf-8'
    if transport == 'ServerBase':
        return call_serverbase(app, data)
    if transport == 'WSGI':
        return call_wsgi(app, data, ct)
    if transport == 'WSGI-decl':
        return call_wsgi(app, b'<?xml version="1.0" encoding="UTF-8"?>' + data, ct)
    body, ct = multipart(data, by_location=(transport == 'WSGI-multipart-cl'))
    return call_wsgi(app, body, ct)

def drive(apps, world, route, doc):
    """run one document through one route; returns a dict of observations (implementation only)"""
    proto, transport = route
    if proto == 'XmlDocument':
        d2 = doc
    else:
        d2 = dict(doc, root=soap_wrap(doc['root'], NS11 if proto == 'Soap11' else NS12, doc.get('wrap')))
    data = render_doc(world, d2)
    del CAPTURE[:]
    world.file_events(); world.net_hits()
    t0 = time.time()
    esc = None
    status, out = None, b''
    try:
        status, out = send(apps, proto, transport, data)
    except Exception as e:
        esc = type(e).__name__
    dt = time.time() - t0
    # an exception that leaves the server uncaught: 'escape' for lxml's own syntax error, 'other' for anything
    # else (the oracle reports both: an entity-bearing request must be served or refused as a fault)
    kind = ('escape' if esc == 'XMLSyntaxError' else 'other') if esc else classify(status, out, transport)
    return dict(data=data, doc=d2, kind=kind, esc=esc, status=status, out=out, captured=list(CAPTURE),
                files=world.file_events(), hits=world.net_hits(), wall=dt)

# which function of `parse_sites` parses for which route: resolved from the working tree by following the calls
# from <protocol>.create_in_document (translate/xmlparsercfg.route_sites), so that a renamed or extracted parse
# helper is still the site the route is compared with; these are the names on the tree the model was written for
SITE_OF_ROUTE_DEFAULT = {'XmlDocument': 'XmlDocument.create_in_document', 'Soap11': '_parse_xml_string',
                         'Soap12': '_parse_xml_string', 'swa': '_join_attachment'}


def site_of_route(check):
    from translate import xmlparsercfg
    try:
        names = xmlparsercfg.route_sites(lib.REPO)
    except Exception as e:
        check.mismatch('spyne_entry_points', 'cannot resolve the parse site of each route: %s: %s' % (type(e).__name__, e))
        return dict(SITE_OF_ROUTE_DEFAULT)
    for k, v in names.items():
        if not re.match(r'^[A-Za-z_][A-Za-z0-9_.]*$', v):
            check.mismatch('spyne_entry_points', 'unexpected function name %r for route %s' % (v, k))
            return dict(SITE_OF_ROUTE_DEFAULT)
    return names

SPYNE_TYPE = 'string * bool * doc * (Z * (list text * list text * list text * list text))'
SPYNE_OKB = '''(fun k : (%s) =>
  let '(fn, swa, d, (kind, (vs, vname, vtag, varr))) := k in
  match find (fun s => String.eqb (s_func s) fn) parse_sites with
  | None => false
  | Some sB =>
    match site_cfg init_defaults parser_kwargs_src sB with
    | SCfg cB =>
      let r := if swa then
                 match find (fun s => String.eqb (s_func s) "@SWA@") parse_sites with
                 | Some sA => match site_cfg init_defaults parser_kwargs_src sA with
                              | SCfg cA => Some (swa_pipeline (s_catch sA) cA (s_catch sB) cB world0 d)
                              | _ => None end
                 | None => None end
               else Some (create_in_document (s_catch sB) cB world0 d) in
      match r with
      | None => false
      | Some (_, RSyntaxFault) => kind =? 0
      | Some (_, REscapes) => kind =? 3
      | Some (_, RUnspecified) => true
      | Some (_, RDoc t g) =>
          let toks := norm_toks (flat cB g t) in
          if ref_under [%d; %d] [] toks then kind =? 2
          else (kind =? 1) && list_eqb text_eqb (texts_of %d toks) vs && list_eqb text_eqb (texts_of %d toks) vname
               && list_eqb text_eqb (attrs_of %d %d toks) vtag && list_eqb text_eqb (texts_of %d toks) varr
      end
    | _ => false
    end
  end)''' % (SPYNE_TYPE, T_ECHO, T_ITEM, T_S, T_NAME, T_ITEM, A_TAG, T_STRING)

SPYNE_PRE = '''Fixpoint list_eqb {A} (f : A -> A -> bool) (a b : list A) : bool :=
  match a, b with [], [] => true | x :: a', y :: b' => f x y && list_eqb f a' b' | _, _ => false end.
'''

SPYNE_SHOW = '''(fun k : (%s) =>
  let '(fn, swa, d, _) := k in
  match find (fun s => String.eqb (s_func s) fn) parse_sites with
  | Some sB => match site_cfg init_defaults parser_kwargs_src sB with
               | SCfg cB => match create_in_document (s_catch sB) cB world0 d with
                            | (e, RDoc t g) => (e, 1, norm_toks (flat cB g t))
                            | (e, RSyntaxFault) => (e, 0, []) | (e, _) => (e, 9, []) end
               | _ => ([], 8, []) end
  | None => ([], 7, []) end)''' % SPYNE_TYPE

KIND_ID = {'syntax': 0, 'ok': 1, 'other': 2, 'escape': 3}

# validator='lxml': the parse is the same; libxml2's schema validator then refuses (XMLSchemaValidateError,
# "internal error") any tree in which the parser left an entity-reference node, and Spyne reports that as a client
# fault; only the method element is validated, so a reference between the elements of the envelope is not met.
# Modelled, not verified; schema validity of reference-free trees is not modelled (any outcome but an
# escaping exception agrees).  observed kind: 0 syntax fault, 1 served, 2 another fault, 3 an exception escaped
VALID_TYPE = 'string * bool * doc * Z'
VALID_OKB = '''(fun k : (%s) =>
  let '(fn, inpayload, d, kind) := k in
  match find (fun s => String.eqb (s_func s) fn) parse_sites with
  | None => false
  | Some sB =>
    match site_cfg init_defaults parser_kwargs_src sB with
    | SCfg cB =>
      match create_in_document (s_catch sB) cB world0 d with
      | (_, RSyntaxFault) => kind =? 0
      | (_, REscapes) => kind =? 3
      | (_, RUnspecified) => true
      | (_, RDoc t g) =>
          if inpayload && existsb (fun x => match x with TRef _ => true | _ => false end) (flat cB g t)
          then kind =? 2 else negb (kind =? 3)
      end
    | _ => false
    end
  end)''' % VALID_TYPE

def is_bomb(family):
    """documents the property requires to be REJECTED: expansion far beyond libxml2's guard,
    element nesting beyond its default depth limit, entity nesting beyond its limit, loops"""
    if family.startswith('bomb-'):
        f, d, b = [int(x[1:]) for x in family.split('-')[1:]]
        return b * f ** d >= 3000000
    if family.startswith('quadratic-'):
        r, s = [int(x) for x in family.split('-')[1].split('x')]
        return r * s >= 3000000
    if family.startswith('nesting-'):
        return int(family.split('-')[1]) >= 300
    if family.startswith('int-nesting-'):
        return int(family.split('-')[2]) >= 45
    return family == 'int-loop'

def spyne_layer(check, world, docs, tier):
    # a protocol instance configured permissively by its owner serves a request first, in this thread:
    # "with default settings" must hold for the default-configured applications whatever other instances
    # exist or have parsed before them (no configuration may leak between instances)
    permissive_first(world)
    apps = build_apps()
    site_names = site_of_route(check)
    cases, vcases = [], []
    stats = {}
    for family, pos, doc in docs:
        routes = ROUTES
        if tier == 'quick' and family.startswith(('nesting-', 'int-nesting', 'bomb', 'quadratic', 'many-')):
            routes = [ROUTES[check.rng.randrange(2)], ROUTES[2 + check.rng.randrange(4)], ROUTES[6]]
        routes = list(routes) + ORACLE_ROUTES
        if pos != 'attr':
            # (attribute values: libxml2 substitutes internal entities on read whatever the validator is - the
            # listed finding; not repeated on the validating routes)
            routes += LXML_ROUTES if tier != 'quick' else check.rng.sample(LXML_ROUTES, 2)
        if 'wrap' in doc:
            routes = [r for r in routes if r[0] != 'XmlDocument']
            if tier == 'quick':
                routes = check.rng.sample(routes, min(4, len(routes)))
        for route in routes:
            o = drive(apps, world, route, doc)
            proto, transport = route
            where = '%s|%s' % (proto, transport)
            check.count(('spyne', family, pos, where))
            stats[o['kind']] = stats.get(o['kind'], 0) + 1
            rp = {'route': list(route), 'family': family, 'position': pos, 'request': o['data'].decode('ascii'),
                  'observed': {'kind': o['kind'], 'escaped_exception': o['esc'], 'status': o['status'],
                               'captured': repr(o['captured'])[:400], 'response': o['out'][:400].decode('utf8', 'replace'),
                               'files_read': sorted(o['files']), 'socket_hits': o['hits']}}
            oracle(check, world, family, pos, where, o, rp)
            if route in LXML_ROUTES:
                vcases.append(('("%s"%%string, %s, %s, %d)' % (site_names[proto], gbool('wrap' not in doc),
                                                              g_doc(o['doc'], len(o['data'])),
                                                          3 if o['esc'] else KIND_ID[o['kind']]),
                               '%s | %s at %s | %s -> %s %s' % (where, family, pos, o['data'][:300].decode(), o['kind'],
                                                                o['esc'] or '')))
            if route in ORACLE_ROUTES or route in LXML_ROUTES:
                continue
            # correspondence case
            if pos in ('between-arr', 'n') or (transport == 'WSGI-multipart' and any(d[0] == 'pe' for d in doc['decls'])):
                # not modelled: an entity node that is a child of an Array element is handed to user code as
                # the literal text '&name;' (lxml's _Entity.text); lxml-default quirks with PE references
                continue
            cap = o['captured']
            vs = vname = vtag = varr = []
            if o['kind'] == 'ok' and len(cap) == 1:
                s, item, arr = cap[0]
                vs = [s or '']
                vname = [(item[0] or '') if item else '']
                vtag = [item[1]] if item and item[1] is not None else []
                varr = [x or '' for x in (arr or [])]
            elif o['kind'] == 'ok':
                check.mismatch('spyne_entry_points', 'user code ran %d times for one request' % len(cap))
            obs = '(%d, (%s, %s, %s, %s))' % (KIND_ID[o['kind']], glist([gtext(x) for x in vs]),
                                              glist([gtext(x) for x in vname]), glist([gtext(x) for x in vtag]),
                                              glist([gtext(x) for x in varr]))
            cases.append(('("%s"%%string, %s, %s, %s)' % (site_names[proto], gbool(transport == 'WSGI-multipart'),
                                                         g_doc(o['doc'], len(o['data'])), obs),
                          '%s | %s at %s | %s -> %s %r' % (where, family, pos, o['data'][:300].decode(), o['kind'],
                                                           cap[:1])))
    lib.correspond(check, 'spyne_entry_points', PRELUDE + world.coq() + SPYNE_PRE, SPYNE_TYPE,
                   SPYNE_OKB.replace('@SWA@', site_names['swa']), cases,
                   shard=150, show=SPYNE_SHOW)
    lib.correspond(check, 'validated_entry_points', PRELUDE + world.coq(), VALID_TYPE, VALID_OKB, vcases, shard=200)
    check.extra['spyne_outcomes'] = stats
    return len(cases)

def oracle(check, world, family, pos, where, o, rp):
    """the property, on the implementation alone"""
    posk = 'attribute' if pos == 'attr' else 'envelope' if pos in WRAP_POSITIONS else 'text'
    fam = family.split('-')[0] + ('-' + family.split('-')[1] if family.startswith(('ext-', 'int-')) else '')
    if o['files']:
        check.fail('C17|local-file-read|%s|%s|%s' % (fam, posk, where),
                   'a %s request made the server open %s' % (family, sorted(world.files[r] for r in o['files'])), rp)
    if o['hits']:
        check.fail('C17|network-contact|%s|%s|%s' % (fam, posk, where),
                   'a %s request made the server connect to the canary socket' % family, rp)
    blob = repr(o['captured']).encode() + o['out']
    for sec in world.secrets + ['NETCANARY']:
        if sec.encode() in blob:
            check.fail('C17|external-content-leaked|%s|%s|%s' % (fam, posk, where),
                       'content of an external resource (%s...) reached user code or the response of a %s request'
                       % (sec[:7], family), rp)
    if o['kind'] == 'escape':
        check.fail('C17|exception-escapes|%s|%s|%s' % (fam, posk, where),
                   'a %s request made %s escape the server instead of a client fault' % (family, o['esc']), rp)
    elif o['esc']:
        # whatever the parser leaves in the tree for a request that carries DTD/entity material (an entity-reference
        # node between elements, inside a leaf, in front of the method element; under any validator), the request is
        # served or refused as a fault: an unhandled exception is neither
        check.fail('C17|unhandled-exception|%s|%s|%s|%s' % (o['esc'], fam, pos, where),
                   'a %s request made %s escape the server (neither served nor refused as a fault)' % (family, o['esc']), rp)
    if is_bomb(family) and o['kind'] != 'syntax':
        check.fail('C17|bomb-not-rejected|%s|%s|%s' % (fam, posk, where),
                   'a %s document was not rejected as Client.XMLSyntaxError (outcome: %s)' % (family, o['kind']), rp)
    if b'ZQ' in blob:
        import re
        if re.search(rb'ZQ\d+QZ', blob):
            check.fail('C17|internal-entity-expanded|%s|%s' % (posk, where),
                       'replacement text of an internal entity (%s) reached user code or the response' % family, rp)
    if family.startswith(('bomb', 'quadratic')) and (b'BBBBBBBBBB' * 120 in blob or b'QQQQQQQQQQ' * 600 in blob):
        check.fail('C17|internal-entity-expanded|%s|%s' % (posk, where),
                   'an entity fan-out (%s) was expanded and reached user code or the response' % family, rp)
    if o['wall'] > 20:
        check.fail('C17|slow-request|%s|%s|%s' % (fam, posk, where),
                   'a %s request took %.1fs' % (family, o['wall']), rp)


# ------------------------------------------------------------------ time and memory of a parsing subprocess
CHILD = r'''
import sys, io, time, resource, json
sys.path.insert(0, %(repo)r); sys.path.insert(0, %(harness)r)
import logging, warnings; logging.disable(logging.CRITICAL); warnings.simplefilter('ignore')
import c17
apps = c17.build_apps()
base = resource.getrusage(resource.RUSAGE_SELF).ru_maxrss
res = []
for name, proto, transport, data in json.load(open(sys.argv[1])):
    data = data.encode('ascii')
    t0 = time.time()
    try:
        if transport == 'ServerBase':
            st, out = c17.call_serverbase(apps[proto], data)
        else:
            st, out = c17.call_wsgi(apps[proto], data, 'application/soap+xml' if proto == 'Soap12' else 'text/xml')
        kind = c17.classify(st, out, transport)
    except Exception as e:
        kind = 'escape:' + type(e).__name__
    res.append([name, proto, transport, kind, time.time() - t0, resource.getrusage(resource.RUSAGE_SELF).ru_maxrss - base])
print('@@' + json.dumps(res))
'''

def heavy_docs(tier):
    """(name, request bytes builder) for documents that are large or explosive; built as text directly"""
    def req(dtd, s='x', tagv='t', extra=''):
        return ('%s<echo xmlns="tns"><s>%s</s><item tag="%s"%s><name>nm</name><n>5</n></item>'
                '<arr><string>a</string></arr></echo>' % (dtd, s, tagv, extra))
    def bomb(f, d, b):
        return '<!DOCTYPE d [<!ENTITY e0 "%s">%s]>' % ('B' * b, ''.join(
            '<!ENTITY e%d "%s">' % (i, ('&e%d;' % (i - 1)) * f) for i in range(1, d + 1)))
    out = []
    out.append(('billion-laughs-text', req(bomb(10, 9, 10), s='&e9;'), True))
    out.append(('billion-laughs-attr', req(bomb(10, 9, 10), tagv='&e9;'), True))
    out.append(('wide-fanout-text', req(bomb(50000, 2, 10), s='&e2;'), True))
    out.append(('quadratic-attr', req('<!DOCTYPE d [<!ENTITY e1 "%s">]>' % ('Q' * 60000), tagv='&e1;' * 20000), True))
    out.append(('quadratic-text', req('<!DOCTYPE d [<!ENTITY e1 "%s">]>' % ('Q' * 60000), s='&e1;' * 20000), True))
    out.append(('nesting-100000', req('', s='<z>' * 100000 + 'x' + '</z>' * 100000), True))
    out.append(('nesting-unclosed-200000', req('', s='<z>' * 200000), True))
    n = 20000 if tier == 'quick' else 60000
    out.append(('attributes-%d' % n, req('', extra=' ' + ' '.join('k%d="v"' % i for i in range(n))), False))
    return out

def resource_check(check, tier):
    docs = heavy_docs(tier)
    jobs = []
    for name, body, must_reject in docs:
        for proto, transport in (('XmlDocument', 'ServerBase'), ('Soap11', 'WSGI'), ('Soap12', 'WSGI')):
            data = body
            if proto != 'XmlDocument':
                ns = NS11 if proto == 'Soap11' else NS12
                i = body.index('<echo')
                data = body[:i] + '<e:Envelope xmlns:e="%s"><e:Body>' % ns + body[i:] + '</e:Body></e:Envelope>'
            jobs.append([name, proto, transport, data])
    d = tempfile.mkdtemp(prefix='c17r')
    try:
        jf = os.path.join(d, 'jobs.json')
        json.dump(jobs, open(jf, 'w'))
        code = CHILD % {'repo': lib.REPO, 'harness': os.path.join(lib.ROOT, 'harness')}
        env = dict(os.environ, PYTHONHASHSEED='0')
        t0 = time.time()
        try:
            p = subprocess.run(['/venv/bin/python', '-W', 'ignore', '-c', code, jf], stdout=subprocess.PIPE,
                               stderr=subprocess.PIPE, text=True, timeout=240, env=env)
            outp = p.stdout
        except subprocess.TimeoutExpired:
            check.fail('C17|unbounded-time|subprocess', 'the parsing subprocess did not finish 24 heavy requests in 240 s',
                       {'documents': [j[0] for j in jobs]})
            return
        line = [l for l in outp.split('\n') if l.startswith('@@')]
        if not line:
            check.mismatch('resource_subprocess', 'child failed: ' + (p.stderr or '')[-800:])
            return
        res = json.loads(line[0][2:])
        must = {n: m for n, _, m in docs}
        worst_t, worst_m = 0, 0
        for (name, proto, transport, kind, wall, rss_kb), job in zip(res, jobs):
            check.count(('heavy', name, proto, transport))
            worst_t, worst_m = max(worst_t, wall), max(worst_m, rss_kb)
            rp = {'route': [proto, transport], 'family': name, 'request_head': job[3][:300], 'request_len': len(job[3]),
                  'observed': {'kind': kind, 'wall_s': wall, 'rss_growth_kb': rss_kb}}
            if must[name] and kind != 'syntax':
                check.fail('C17|bomb-not-rejected|%s|%s|%s' % (name, proto, transport),
                           'the %s document was not rejected as Client.XMLSyntaxError (outcome %s)' % (name, kind), rp)
            if not must[name] and kind != 'ok':
                check.fail('C17|valid-request-rejected|%s|%s|%s' % (name, proto, transport),
                           'a valid request with many attributes ended as %s' % kind, rp)
            # the property bounds the cost of REJECTING bombs; a large valid request (many attributes) is
            # measured and reported in the evidence but its wall time is no verdict (it grows with the
            # document and with the load of the machine)
            if wall > 15 and must[name]:
                check.fail('C17|unbounded-time|%s|%s|%s' % (name, proto, transport),
                           '%s took %.1f s' % (name, wall), rp)
            if rss_kb > 700 * 1024:
                check.fail('C17|unbounded-memory|%s|%s|%s' % (name, proto, transport),
                           '%s grew the process by %d MB' % (name, rss_kb // 1024), rp)
        check.extra['resource_measurement'] = {'documents': len(res), 'worst_wall_s': round(worst_t, 3),
                                               'peak_rss_growth_mb': worst_m // 1024,
                                               'limits': 'wall <= 15 s per request, RSS growth <= 700 MB'}
    finally:
        shutil.rmtree(d, ignore_errors=True)


# ------------------------------------------------------------------ configuration table vs. the running objects
def declared_nesting(check):
    """nesting through DECLARED members of a recursive type, up to just under libxml2's depth limit: the
    request is served or refused as a client fault - the deserialiser's own recursion must not be what gives
    way first (no RecursionError or any other exception may escape)"""
    from spyne import Application, rpc, ServiceBase, Unicode, ComplexModel
    from spyne.model.complex import SelfReference
    from spyne.protocol.xml import XmlDocument
    from spyne.protocol.soap import Soap11, Soap12

    class Node(ComplexModel):
        __namespace__ = NS_TNS
        name = Unicode
        child = SelfReference

    class Deep(ServiceBase):
        @rpc(Node, _returns=Unicode)
        def deep(ctx, node):
            d = 0
            while node is not None:
                d += 1
                node = node.child
            CAPTURE.append(d)
            return str(d)
    for nm, P, nsenv in (('XmlDocument', XmlDocument, None), ('Soap11', Soap11, NS11), ('Soap12', Soap12, NS12)):
        app = Application([Deep], NS_TNS, name='C17Deep', in_protocol=P(), out_protocol=P())
        extra = 2 if nsenv else 0           # Envelope + Body
        for depth in (10, 200, 240, 247, 250, 252, 253, 254, 255, 256, 300):
            k = depth - 2 - extra            # <deep><node> + k x <child>
            if k < 1:
                continue
            body = ('<deep xmlns="%s"><node>' % NS_TNS) + '<child>' * k + '<name>x</name>' + '</child>' * k + '</node></deep>'
            if nsenv:
                body = '<e:Envelope xmlns:e="%s"><e:Body>%s</e:Body></e:Envelope>' % (nsenv, body)
            for transport in ('ServerBase', 'WSGI'):
                del CAPTURE[:]
                esc = None
                status, out = None, b''
                try:
                    if transport == 'ServerBase':
                        status, out = call_serverbase(app, body.encode('ascii'))
                    else:
                        status, out = call_wsgi(app, body.encode('ascii'),
                                                'application/soap+xml' if nm == 'Soap12' else 'text/xml')
                except BaseException as e:
                    esc = type(e).__name__
                kind = 'escape' if esc else classify(status, out, transport)
                check.count(('declared-nesting', nm, transport, depth))
                if kind not in ('ok', 'syntax'):
                    check.fail('C17|declared-nesting|%s|%s|%s' % (kind, nm, transport),
                               'a request nested %d elements deep through declared members of a recursive type ended as '
                               '%s (%s): neither served nor refused as Client.XMLSyntaxError' % (depth, kind, esc or status),
                               {'route': [nm, transport], 'depth': depth, 'request_head': body[:200],
                                'observed': {'kind': kind, 'escaped_exception': esc, 'status': status}})
                elif kind == 'ok' and CAPTURE != [k + 1]:
                    check.fail('C17|declared-nesting|wrong-depth|%s|%s' % (nm, transport),
                               'a request nested %d deep reached user code as a chain of %r nodes' % (depth, CAPTURE),
                               {'route': [nm, transport], 'depth': depth})


def table_correspondence(check):
    from spyne.protocol.xml import XmlDocument
    from spyne.protocol.soap import Soap11, Soap12
    from lxml import etree
    import re
    cases = []
    KW_ORDER = ['attribute_defaults', 'dtd_validation', 'load_dtd', 'no_network', 'recover', 'resolve_entities',
                'huge_tree', 'remove_comments', 'remove_pis', 'ns_clean', 'remove_blank_text', 'strip_cdata', 'compact']
    def bits(kw):
        out = []
        for k in KW_ORDER:
            v = kw[k]
            if k == 'resolve_entities':
                out.append(2 if v == 'internal' else 1 if v else 0)
            else:
                out.append(1 if v else 0)
        return out
    for P in (XmlDocument, Soap11, Soap12):
        kw = dict(P().parser_kwargs)
        extra = set(kw) - set(KW_ORDER) - {'encoding'}
        if extra:
            check.mismatch('parser_kwargs_table', '%s().parser_kwargs has keys the model does not know: %s' % (P.__name__, extra))
        full = dict(LXML_DEFAULT)
        full.update({k: v for k, v in kw.items() if k in KW_ORDER})
        cases.append(('(true, %s)' % glist([str(b) for b in bits(full)]), '%s().parser_kwargs = %r' % (P.__name__, kw)))
        check.count(('table', P.__name__))
    # lxml's own defaults, from the signature in its docstring
    doc = etree.XMLParser.__doc__ or ''
    m = re.search(r'XMLParser\(self,([^)]*)\)', doc)
    if not m:
        check.mismatch('parser_kwargs_table', 'cannot read the XMLParser signature from its docstring')
    else:
        dfl = {}
        for part in m.group(1).split(','):
            if '=' in part:
                k, v = part.strip().split('=')
                dfl[k] = {'True': True, 'False': False, 'None': None}.get(v, v.strip("'\""))
        full = {k: dfl.get(k) for k in KW_ORDER}
        cases.append(('(false, %s)' % glist([str(b) for b in bits(full)]), 'lxml XMLParser defaults %r' % full))
        check.count(('table', 'lxml'))
    lib.correspond(check, 'parser_kwargs_table', PRELUDE, 'bool * list Z',
                   '''(fun k : bool * list Z =>
   let c := if fst k then match kwargs_eval init_defaults parser_kwargs_src with
                          | Some l => Some (cfg_of_kwargs l) | None => None end
            else Some lxml_default in
   match c with Some c => (fix eq (a b : list Z) := match a, b with [], [] => true | x :: a', y :: b' => (x =? y) && eq a' b' | _, _ => false end) (cfg_bits c) (snd k) | None => false end)''',
                   cases)


def run(check):
    tier = check.tier
    check.rule = ('attack families (external general/parameter entities over file/http/ftp, external subsets, XInclude, '
                  'internal chains, loops, undeclared, ATTLIST defaults, entity nesting around 19/39, expansion bombs, '
                  'quadratic blow-up, element nesting around 256/2048, many attributes) x 7 positions (3 leaf texts, 1 '
                  'attribute, 3 between-element) x parser configurations (raw lxml) or x 7 routes (3 protocols x '
                  'ServerBase/WSGI + Soap11 multipart); a case is distinct by (layer, family, position, configuration/route)')
    check.trusted = list(lib.COMMON_TRUSTED) + [
        'translator harness/translate/xmlparsercfg.py (XmlDocument.__init__ defaults, parser_kwargs dict, parser argument and '
        'try/except of every lxml parse call in protocol/xml.py, soap/soap11.py, soap/soap12.py, soap/mime.py, _inbase.py), '
        'including its normalisation rules (dict displays, `return <parser>` helper methods, once-bound locals, the '
        'try/except at every call site of a private helper, the route -> parse function resolution by call graph)',
        'modelled, not verified: libxml2 2.14 / lxml 6.1 option semantics (coq/C17/Xml.v), compared with the real parser on '
        'the corpus under 15 configurations; the renderer from abstract documents to bytes in harness/c17.py',
        'observation channels: Linux inotify (IN_OPEN|IN_ACCESS) on the canary files, a listening localhost socket, '
        'canary strings; each self-tested at start-up',
        'bounded time and memory are MEASURED on a parsing subprocess (wall time, ru_maxrss), not proved',
    ]
    check.assumptions = [
        'libxml2 in this sandbox has no HTTP/FTP client: a network fetch can be attempted by no configuration here, so '
        'no_network=True is covered by the proof obligation and the model only',
        'Spyne reads the request only through the lxml tree returned by the modelled parse call (it calls no xinclude(), '
        'XSLT or resolver; the translator refuses the tree if such a call appears in the scanned files)',
        'the amplification guard is modelled as total expansion > 10^6 and > 5 x document size; documents within a factor '
        '3 of the guard are not generated',
        'configurations are those reachable with default settings (the property says "with default settings")',
    ]
    check.regen(['xmlparsercfg'])
    check.check_sources()
    check.prove('Props.C17', THEOREMS)
    world = World(check.rng)
    try:
        docs = attack_docs(check, tier)
        table_correspondence(check)
        n1 = raw_correspondence(check, world, docs, tier)
        n2 = spyne_layer(check, world, docs, tier)
        check.sample({'families': sorted(set(f for f, _, _ in docs))[:40], 'raw_cases': n1, 'spyne_cases': n2})
        for f, p, d in docs[:3]:
            check.sample({'family': f, 'position': p, 'request': render_doc(world, d).decode()[:300]})
        lib.flush_correspondences(check)
        resource_check(check, tier)
        declared_nesting(check)
    finally:
        world.close()
    return check.finish()


def replay(check, path):
    r = json.load(open(path))
    print(json.dumps(r, indent=1)[:3000])
    rp = r.get('replay', {})
    if 'request' in rp and 'route' in rp:
        apps = build_apps()
        proto, transport = rp['route']
        data = rp['request'].encode('ascii')
        try:
            st, out = send(apps, proto, transport, data)
            print('re-run on %s: status=%r captured=%r response=%r' % (lib.REPO, st, CAPTURE, out[:400]))
        except Exception as e:
            print('re-run on %s: %s escaped: %s' % (lib.REPO, type(e).__name__, e))
        print('(canary files of the original run no longer exist; file/socket observations are not repeated here)')
    return 0
