"""spyne/context.py, spyne/server/_base.py, spyne/application.py, spyne/server/http.py,
spyne/server/wsgi.py, spyne/evmgr.py, spyne/protocol/*  ->  Gen/Pipeline.v   (C14)

The request pipeline is translated, statement by statement, into the statement language of
coq/C14/Model.v ([stmt]): try/except with the classes the handlers name, ``fire_event`` calls
with their literal event names, assignments to / tests of the context attributes the control
flow of the pipeline reads (``in_error``, ``out_error``, ``out_string``, ``out_document``),
``raise``/``return``, and the calls between the translated functions.  Everything else has to
be *provably irrelevant* to which events fire: an assignment / expression statement / ``if``
whose expressions are side-effect free by a closed whitelist.  Any other shape raises
TranslateError (fail closed).  The trace theorems of coq/C14 are proved about the generated
programs, so an edit of the skeleton (a dropped ``fire_event``, a reordered statement, a
changed ``except`` class, a changed event literal) changes what is proved about.

Besides the programs: the order in which ``MethodContext.fire_event`` reaches the managers,
the loop of ``EventManager.fire_event`` / ``add_listener``, ``oset.add``, the listener
inheritance loop of ``ServiceBaseMeta`` and - per out protocol - whether ``after_serialize``
is fired when a fault is serialised and whether ``ctx.out_document`` is assigned before the
return value is serialised.
"""
import ast, os

try:
    from . import c14norm
except Exception:
    import c14norm

try:
    from . import TranslateError
except Exception:                                      # stand-alone use (tests)
    class TranslateError(Exception):
        pass

EVENTS = {
    'method_context_created': 'Ecreated', 'method_context_closed': 'Eclosed',
    'method_call': 'Ecall', 'method_return_object': 'Eret_obj', 'method_exception_object': 'Eexc_obj',
    'method_return_document': 'Eret_doc', 'method_exception_document': 'Eexc_doc',
    'method_return_string': 'Eret_str', 'method_exception_string': 'Eexc_str',
    'method_redirect': 'Eredirect', 'method_redirect_exception': 'Eredirect_exc',
    'method_return_push': 'Eret_push',
    'before_deserialize': 'Ebefore_deser', 'after_deserialize': 'Eafter_deser',
    'before_serialize': 'Ebefore_ser', 'after_serialize': 'Eafter_ser',
    'wsgi_call': 'Ewsgi_call', 'wsgi_return': 'Ewsgi_return', 'wsgi_exception': 'Ewsgi_exception',
    'wsgi_close': 'Ewsgi_close',
}
TRACKED = {'in_error': 'VInError', 'out_error': 'VOutError', 'out_string': 'VOutString',
           'out_document': 'VOutDoc'}
DESC_ATTRS = ('descriptor', '_MethodContext__descriptor', '__descriptor')

# exception classes that except clauses / raise statements may name
XCLS = {'Fault': 'CFault', 'Redirect': 'CRedirect', 'Exception': 'CException'}
NEW_KIND = {'Fault': 'KFault', 'ResourceNotFoundError': 'KFault', 'ValidationError': 'KFault',
            'RequestTooLongError': 'KFault', 'ValueError': 'KOther', 'TypeError': 'KOther',
            'Exception': 'KOther', 'LogicError': 'KOther'}

# side-effect free callables (by the text of the callee expression, or by attribute name)
PURE_FUNCS = {'len', 'str', 'sum', 'list', 'tuple', 'iter', 'next', 'isinstance', 'isgenerator',
              'chain', '_gen_http_headers', 'get_fault_string_from_exception', 'min', 'max', 'int',
              'bool', 'repr', 'getattr', 'hasattr', 'time'}
PURE_METHODS = {'startswith', 'join', 'get', 'fault_to_http_response_code', 'items', 'keys', 'values',
                'upper', 'lower', 'partition', 'split', 'update'}
LOGGERS = {'logger', 'logger_client', 'logger_server'}

# conditions that engage machinery outside the model (generators / push / MTOM): the branch is
# not translated, reaching it is flagged [Unmodelled]; the theorems assume the flag is off
OPAQUE_WHEN_TRUE = {
    'is_generator',
    'isgenerator(ret) and ctx.out_object is not None and (len(ctx.out_object) == 1)',
    'isgenerator(ret) and ctx.out_object is not None and len(ctx.out_object) == 1',
    'p_ctx.descriptor and p_ctx.descriptor.mtom',
}


# tests whose value is fixed by how the modelled callers construct things: server-side contexts
KNOWN_TRUE = {'way is MethodContext.SERVER'}


def unparse(n):
    return ast.unparse(n)


# ------------------------------------------------------------------ statement terms (python side)
def Seq(items):
    out = []
    for i in items:
        if i == ('Skip',):
            continue
        if i[0] == 'Seq':
            out.extend(i[1])
        else:
            out.append(i)
    if not out:
        return ('Skip',)
    if len(out) == 1:
        return out[0]
    return ('Seq', out)


def skip_only(s):
    return s == ('Skip',)


def pp(s, ind=2):
    """Gallina text of a statement term"""
    pad = ' ' * ind
    k = s[0]
    if k == 'Seq':
        return 'seq [' + (';\n' + pad + '     ').join(pp(x, ind + 5) for x in s[1]) + ']'
    if k in ('Skip', 'Func', 'Reraise', 'Return', 'Unmodelled'):
        return k
    if k == 'Fire':
        return 'Fire %s' % s[1]
    if k == 'FireOn':
        return 'FireOn %s %s' % (s[1], s[2])
    if k == 'Ref':                 # Call of a named program
        return 'Call %s' % s[1]
    if k in ('SetNone', 'SetObj', 'SetExc', 'RaiseVar'):
        return '%s %s' % (k, s[1])
    if k == 'SetNew':
        return 'SetNew %s %s' % (s[1], s[2])
    if k == 'RaiseNew':
        return 'RaiseNew %s' % s[1]
    if k == 'If':
        return 'If (%s)\n%s   (%s)\n%s   (%s)' % (s[1], pad, pp(s[2], ind + 4), pad, pp(s[3], ind + 4))
    if k == 'Try':
        return 'Try (%s)\n%s    (%s)' % (pp(s[1], ind + 5), pad, pp(s[2], ind + 5))
    if k == 'IfExc':
        return 'IfExc %s\n%s   (%s)\n%s   (%s)' % (s[1], pad, pp(s[2], ind + 4), pad, pp(s[3], ind + 4))
    raise TranslateError('internal: cannot print %r' % (s,))


def refs(s):
    """names of the programs a statement term calls"""
    k = s[0]
    if k == 'Ref':
        return {s[1]}
    out = set()
    for x in s[1:]:
        if isinstance(x, tuple):
            out |= refs(x)
        elif isinstance(x, list):
            for y in x:
                out |= refs(y)
    return out


# ------------------------------------------------------------------ the function translator
class Fn(object):
    """translation of one function body.

    owner: 'server' (ServerBase / HttpBase / WsgiApplication: self.event_manager is the transport's),
           'app' (Application), 'ctx' (MethodContext family: self is the context)
    resolve: callable (attribute name on self) -> program name or None
    lenient: constructor / close(): statements that neither fire, raise, return nor touch a
             tracked attribute are skipped whatever they call (building helper objects)
    """

    def __init__(self, tr, fn, owner, ctx_names, resolve, lenient=False, where=''):
        self.tr, self.fn, self.owner = tr, fn, owner
        self.ctx_names = set(ctx_names)
        self.resolve = resolve
        self.lenient = lenient
        self.where = where or fn.name
        self.exc_names = []          # names bound by enclosing `except ... as e`
        self.exc_classes = []        # and the classes those clauses name
        self.locals_from_ctx = set()
        self.handler_depth = 0
        self.depth = 0

    def err(self, node, msg):
        raise TranslateError('%s:%s: %s: %s' % (self.where, getattr(node, 'lineno', '?'), msg,
                                                 unparse(node)[:120] if isinstance(node, ast.AST) else node))

    # ---- expressions
    def is_ctx(self, n):
        return isinstance(n, ast.Name) and n.id in self.ctx_names

    def tracked(self, n):
        """ctx.<tracked attribute> -> var name"""
        if isinstance(n, ast.Attribute) and self.is_ctx(n.value):
            if n.attr in TRACKED:
                return TRACKED[n.attr]
            if n.attr in DESC_ATTRS:
                return 'VDesc'
        return None

    def mentions_fire(self, n):
        for x in ast.walk(n):
            if isinstance(x, ast.Attribute) and x.attr == 'fire_event':
                return True
            if isinstance(x, ast.Name) and x.id == 'fire_event':
                return True
        return False

    def semantic_call(self, c):
        """a Call node with a meaning in the model -> statement term, else None"""
        if not isinstance(c, ast.Call):
            return None
        f = c.func
        txt = unparse(f)
        # ctx.fire_event('lit')
        if isinstance(f, ast.Attribute) and f.attr == 'fire_event':
            if self.is_ctx(f.value):
                if len(c.args) != 1 or c.keywords:
                    self.err(c, 'fire_event with extra arguments')
                a0 = c.args[0]
                if isinstance(a0, ast.IfExp):
                    # ctx.fire_event('a' if <tracked test> else 'b')  ==  if <test>: fire 'a' else: fire 'b'
                    cd = self.cond(a0.test)
                    if cd[0] != 'c':
                        self.err(c, 'event name chosen by a test the model does not track')
                    pick = lambda n: EVENTS[n.value] if isinstance(n, ast.Constant) and isinstance(n.value, str) \
                        and n.value in EVENTS else self.err(c, 'event name is not a known string literal')
                    return ('If', cd[1], ('Fire', pick(a0.body)), ('Fire', pick(a0.orelse)))
                ev = self.event_literal(c, 0)
                return ('Fire', ev)
            base = unparse(f.value)
            tgt = None
            if self.owner == 'server' and base == 'self.event_manager':
                tgt = 'TTpt'
            elif self.owner == 'ctx' and base == 'self.app.event_manager':
                tgt = 'TApp'
            if tgt is None:
                self.err(c, 'fire_event on an unknown manager')
            ev = self.event_literal(c, 0)
            if len(c.args) != 2 or not self.is_ctx(c.args[1]) or c.keywords:
                self.err(c, 'manager.fire_event must be called as (literal, ctx)')
            return ('FireOn', tgt, ev)
        if self.owner == 'server':
            table = {
                'self.app.in_protocol.create_in_document': 'lib_create_in_document',
                'self.app.in_protocol.decompose_incoming_envelope': 'lib_decompose',
                'self.app.in_protocol.generate_method_contexts': 'lib_generate_method_contexts',
                'self.app.in_protocol.deserialize': 'lib_deserialize',
            }
            if isinstance(f, ast.Attribute) and f.attr in ('serialize', 'create_out_string') \
                    and isinstance(f.value, ast.Attribute) and f.value.attr == 'out_protocol' \
                    and self.is_ctx(f.value.value):
                if not c.args or not self.is_ctx(c.args[0]):
                    self.err(c, 'protocol step not applied to the context')
                return ('Ref', 'lib_serialize' if f.attr == 'serialize' else 'lib_create_out_string')
            if txt in table:
                if not c.args or not self.is_ctx(c.args[0]):
                    self.err(c, 'protocol step not applied to the context')
                return ('Ref', table[txt])
            if txt == 'self.__reconstruct_wsgi_request':
                # reads the declared length (may refuse it); the body itself is read lazily
                return ('Ref', 'lib_reconstruct')
            if txt == 'self.app.process_request':
                self.need_ctx_arg(c)
                return ('Ref', self.tr.want('app', 'process_request'))
            if txt in ('start_response',):
                return ('Skip',)         # the server's start_response (assumed not to raise)
            if txt == 'process_contexts':
                return ('Skip',)         # auxiliary contexts: none (one primary context is modelled)
        if self.owner == 'app':
            if txt == 'self.call_wrapper':
                self.need_ctx_arg(c)
                return ('Ref', 'lib_call_wrapper')
            if isinstance(f, ast.Attribute) and f.attr == 'do_redirect' and isinstance(f.value, ast.Name) \
                    and f.value.id in self.exc_names and not c.args:
                return ('Ref', 'lib_do_redirect')
        # ctx.close()
        if isinstance(f, ast.Attribute) and f.attr == 'close' and self.is_ctx(f.value) and not c.args:
            return ('Ref', self.tr.want('ctx', 'close'))
        # self.<method>(...) resolved on the real class
        if isinstance(f, ast.Attribute) and isinstance(f.value, ast.Name) and f.value.id == 'self':
            name = self.resolve(f.attr, c, self)
            if name is not None:
                return ('Ref', name)
        # super(X, self).__init__(...)  in a context constructor
        if self.owner == 'ctx' and isinstance(f, ast.Attribute) and f.attr == '__init__' \
                and isinstance(f.value, ast.Call) and unparse(f.value.func) == 'super':
            return ('Ref', self.tr.want('ctx', '__init__'))
        # constructing a method context
        if isinstance(f, ast.Name) and f.id in self.tr.ctx_classes:
            return ('Ref', self.tr.want_ctor(f.id))
        return None

    def need_ctx_arg(self, c):
        if len(c.args) != 1 or not self.is_ctx(c.args[0]) or c.keywords:
            self.err(c, 'expected exactly the context as argument')

    def event_literal(self, c, i):
        if len(c.args) <= i or not isinstance(c.args[i], ast.Constant) or not isinstance(c.args[i].value, str):
            self.err(c, 'event name is not a string literal')
        name = c.args[i].value
        if name not in EVENTS:
            self.err(c, 'unknown event name %r' % name)
        return EVENTS[name]

    def effects(self, n, out):
        """collect, in evaluation order, the semantic calls inside expression n; every other part
        must be pure.  A deferred finaliser `lambda: <semantic call>` passed to _ResponseIterator
        is emitted in place (see [deferred])."""
        if n is None:
            return
        if self.handler_depth and not self.lenient:
            self.handler_safe(n)
        if isinstance(n, ast.Call):
            sem = self.semantic_call(n)
            if sem is not None:
                # arguments of a semantic call must be pure
                for a in list(n.args) + [k.value for k in n.keywords]:
                    self.pure(a)
                out.append(sem)
                return
            if isinstance(n.func, ast.Name) and n.func.id == '_ResponseIterator' and len(n.args) == 2 \
                    and not n.keywords:
                self.pure(n.args[0])
                cb = n.args[1]
                if isinstance(cb, ast.Lambda) and not cb.args.args:
                    inner = []
                    self.effects(cb.body, inner)
                    out.append(('Deferred', Seq(inner)))
                    return
                if isinstance(cb, ast.Attribute) and cb.attr == 'close' and self.is_ctx(cb.value):
                    out.append(('Deferred', ('Ref', self.tr.want('ctx', 'close'))))
                    return
                self.err(n, 'unrecognised response finaliser')
            self.pure_callee(n)
            if isinstance(n.func, ast.Attribute):
                self.effects(n.func.value, out)
            for a in n.args:
                self.effects(a, out)
            for k in n.keywords:
                self.effects(k.value, out)
            return
        if isinstance(n, (ast.Name, ast.Constant)):
            return
        if isinstance(n, ast.Attribute):
            return self.effects(n.value, out)
        if isinstance(n, ast.Subscript):
            self.effects(n.value, out)
            return self.effects(n.slice, out)
        if isinstance(n, ast.Slice):
            for x in (n.lower, n.upper, n.step):
                self.effects(x, out)
            return
        if isinstance(n, (ast.Tuple, ast.List, ast.Set)):
            for x in n.elts:
                self.effects(x, out)
            return
        if isinstance(n, ast.Starred):
            return self.effects(n.value, out)
        if isinstance(n, ast.BoolOp):
            # short circuit: only pure operands allowed
            for x in n.values:
                self.pure(x)
            return
        if isinstance(n, ast.Compare):
            self.effects(n.left, out)
            for x in n.comparators:
                self.effects(x, out)
            return
        if isinstance(n, ast.UnaryOp):
            return self.effects(n.operand, out)
        if isinstance(n, ast.BinOp):
            self.effects(n.left, out)
            return self.effects(n.right, out)
        if isinstance(n, ast.IfExp):
            for x in (n.test, n.body, n.orelse):
                self.pure(x)
            return
        if isinstance(n, (ast.GeneratorExp, ast.ListComp)):
            self.pure(n.elt)
            for g in n.generators:
                self.pure(g.iter)
                for i in g.ifs:
                    self.pure(i)
            return
        if isinstance(n, ast.Dict):
            for x in list(n.keys) + list(n.values):
                self.effects(x, out)
            return
        if isinstance(n, ast.JoinedStr):
            return
        self.err(n, 'unsupported expression')

    def handler_safe(self, n):
        """inside an except handler an expression that raises makes the exception that is being
        handled disappear before the fault is recorded (no exception events, no close).  Only
        shapes that cannot raise whatever the caught exception looks like (no arguments, non-string
        arguments, a failing __str__) are accepted there: names, constants, attributes of the
        context, the fault code of a caught Fault, logger calls, building a Fault"""
        if isinstance(n, ast.Subscript) and isinstance(n.ctx, ast.Load):
            self.err(n, 'subscript inside an except handler (IndexError/KeyError would replace the handled exception)')
        if isinstance(n, (ast.BinOp, ast.JoinedStr, ast.IfExp, ast.GeneratorExp, ast.ListComp, ast.FormattedValue)):
            self.err(n, 'formatting / arithmetic inside an except handler (may raise, e.g. through __str__)')
        if isinstance(n, ast.Attribute) and isinstance(n.value, ast.Name) and n.value.id in self.exc_names:
            cls = self.exc_classes[self.exc_names.index(n.value.id)]
            if not (cls in ('Fault', 'Redirect') and n.attr in ('faultcode', 'faultstring')):
                self.err(n, 'attribute of the caught exception that not every %s has' % cls)
        if isinstance(n, ast.Call) and self.semantic_call(n) is None:
            f = n.func
            ok = (isinstance(f, ast.Attribute) and isinstance(f.value, ast.Name) and f.value.id in LOGGERS) \
                or (isinstance(f, ast.Name) and f.id in NEW_KIND) \
                or (isinstance(f, ast.Name) and f.id in ('get_fault_string_from_exception', 'isinstance')) \
                or (isinstance(f, ast.Attribute) and f.attr == 'startswith')
            if not ok:
                self.err(n, 'call inside an except handler that may raise')

    def pure_callee(self, c):
        f = c.func
        if isinstance(f, ast.Name) and f.id in PURE_FUNCS:
            return
        if isinstance(f, ast.Attribute) and f.attr in PURE_METHODS:
            return
        if isinstance(f, ast.Attribute) and isinstance(f.value, ast.Name) and f.value.id in LOGGERS:
            return
        if isinstance(f, ast.Name) and f.id in NEW_KIND:      # building an exception object
            return
        self.err(c, 'call is neither modelled nor known to be side-effect free')

    def pure(self, n):
        out = []
        self.effects(n, out)
        if out:
            self.err(n, 'a modelled call occurs where only a side-effect free expression is allowed')

    # ---- conditions
    def cond(self, t):
        """-> ('c', coq cond) for tracked tests, ('opaque',) , or ('pure',)"""
        v = self.tracked(t)
        if v is not None:
            return ('c', 'CNotNone %s' % v, 'CIsNone %s' % v)          # truthiness of None / exception / object
        if isinstance(t, ast.Compare) and len(t.ops) == 1 and isinstance(t.comparators[0], ast.Constant) \
                and t.comparators[0].value is None:
            v = self.tracked(t.left)
            if v is not None:
                if isinstance(t.ops[0], ast.Is):
                    return ('c', 'CIsNone %s' % v, 'CNotNone %s' % v)
                if isinstance(t.ops[0], ast.IsNot):
                    return ('c', 'CNotNone %s' % v, 'CIsNone %s' % v)
        if isinstance(t, ast.UnaryOp) and isinstance(t.op, ast.Not):
            v = self.tracked(t.operand)
            if v is not None:
                return ('c', 'CIsNone %s' % v, 'CNotNone %s' % v)
        txt = unparse(t)
        if txt in OPAQUE_WHEN_TRUE:
            return ('opaque_true',)
        if txt == 'self.chunked' and self.owner == 'server':
            return ('config', self.tr.config_default('chunked'))
        if txt == 'not self.chunked' and self.owner == 'server':
            return ('config', not self.tr.config_default('chunked'))
        # any other test must not depend on the value of a tracked attribute (reading a field OF
        # the descriptor, ctx.descriptor.x, is not a test of the descriptor itself)
        parents = {}
        for x in ast.walk(t):
            for ch in ast.iter_child_nodes(x):
                parents[ch] = x
        for x in ast.walk(t):
            v = self.tracked(x)
            if v is None:
                continue
            par = parents.get(x)
            if v == 'VDesc' and isinstance(par, ast.Attribute) and par.value is x:
                continue
            self.err(t, 'compound test on a tracked attribute')
        self.pure(t)
        return ('pure',)

    # ---- statements
    def block(self, stmts):
        self.depth += 1
        try:
            out = [self.stmt(s) for s in stmts]
        finally:
            self.depth -= 1
        res = Seq(out)
        if self.depth == 0:
            return self.deferred(res)
        if any(x[0] == 'Deferred' for x in (res[1] if res[0] == 'Seq' else [res])):
            raise TranslateError('%s: response finaliser created inside a nested block' % self.where)
        return res

    def deferred(self, s):
        """('Deferred', f): the finaliser a WSGI server runs when it closes the response iterable.
        It is emitted in place, which is exact only if nothing but irrelevant statements lie
        between its creation and the end of the call; checked here."""
        if s[0] != 'Seq':
            if s[0] == 'Deferred':
                return s[1]
            return s
        items = list(s[1])
        for i, x in enumerate(items):
            if x[0] == 'Deferred':
                rest = [y for y in items[i + 1:] if y != ('Return',)]
                if rest:
                    raise TranslateError('%s: statements with an effect follow the creation of the response '
                                         'finaliser' % self.where)
                items[i] = x[1]
        return Seq(items)

    def stmt(self, s):
        if isinstance(s, ast.Expr):
            v = s.value
            if isinstance(v, ast.Constant):
                return ('Skip',)                                  # docstring
            if self.lenient and not self.mentions_fire(v) and not self.touches_tracked(s):
                sem = self.semantic_call(v) if isinstance(v, ast.Call) else None
                if sem is None:
                    return ('Skip',)
            out = []
            self.effects(v, out)
            return Seq(out)
        if isinstance(s, ast.Pass):
            return ('Skip',)
        if isinstance(s, ast.Global):
            return ('Skip',)
        if isinstance(s, ast.Assert):
            self.pure(s.test)
            return ('Skip',)      # assumed to hold (see the evidence: assumptions)
        if isinstance(s, ast.Delete):
            for t in s.targets:
                if self.tracked(t) or self.is_ctx(t):
                    self.err(s, 'deleting a tracked attribute')
                self.pure(t)
            return ('Skip',)
        if isinstance(s, (ast.Assign, ast.AugAssign, ast.AnnAssign)):
            return self.assign(s)
        if isinstance(s, ast.If):
            return self.if_(s)
        if isinstance(s, ast.Try):
            return self.try_(s)
        if isinstance(s, ast.Raise):
            return self.raise_(s)
        if isinstance(s, ast.Return):
            out = []
            if s.value is not None:
                self.effects(s.value, out)
            return Seq(out + [('Return',)])
        if isinstance(s, ast.For) and self.lenient:
            if self.mentions_fire(s) or self.touches_tracked(s) or self.has_flow(s):
                self.err(s, 'loop with an effect')
            return ('Skip',)
        self.err(s, 'unsupported statement')

    def has_flow(self, s):
        return any(isinstance(x, (ast.Raise, ast.Return)) for x in ast.walk(s))

    def touches_tracked(self, s):
        for x in ast.walk(s):
            if isinstance(x, ast.Attribute) and isinstance(x.ctx, (ast.Store, ast.Del)) and self.tracked(x):
                return True
        return False

    def assign(self, s):
        if isinstance(s, ast.Assign):
            targets, value = s.targets, s.value
        elif isinstance(s, ast.AugAssign):
            targets, value = [s.target], s.value
        else:
            targets, value = [s.target], s.value
        flat = []
        for t in targets:
            if isinstance(t, (ast.Tuple, ast.List)):
                flat.extend(t.elts)
            else:
                flat.append(t)
        tvars = [self.tracked(t) for t in flat]
        if self.lenient and not any(tvars) and not self.mentions_fire(s):
            return ('Skip',)
        for t in flat:
            if self.is_ctx(t) and not (isinstance(value, ast.Call) and self.semantic_call(value)):
                # rebinding a context name: only from another context expression
                pass
        out = []
        if any(tvars):
            if not isinstance(s, ast.Assign):
                self.err(s, 'tracked attribute in a compound assignment')
            if len(flat) > 1:
                # a = b = e  (chained): every target tracked, value the current exception or None
                if not all(tvars) or len(targets) != len(flat):
                    self.err(s, 'tracked attribute in a compound assignment')
                if isinstance(value, ast.Constant) and value.value is None:
                    return Seq([('SetNone', v) for v in tvars])
                if isinstance(value, ast.Name) and self.exc_names and value.id == self.exc_names[-1]:
                    return Seq([('SetExc', v) for v in tvars])
                self.err(s, 'tracked attribute in a compound assignment')
            v = tvars[0]
            if isinstance(value, ast.Constant) and value.value is None:
                return ('SetNone', v)
            if isinstance(value, ast.Name) and value.id in self.exc_names:
                if value.id != self.exc_names[-1]:
                    self.err(s, 'assignment of an outer exception variable')
                return ('SetExc', v)
            if isinstance(value, ast.Call) and isinstance(value.func, ast.Name) and value.func.id in NEW_KIND:
                for a in list(value.args) + [k.value for k in value.keywords]:
                    self.pure(a)
                return ('SetNew', v, NEW_KIND[value.func.id])
            if v == 'VDesc':
                self.err(s, 'assignment to the descriptor')
            self.effects(value, out)
            if isinstance(value, (ast.Name, ast.Attribute)) and not out:
                self.err(s, 'tracked attribute assigned from a variable of unknown value')
            return Seq(out + [('SetObj', v)])
        # untracked targets: locals, other attributes / items
        for t in flat:
            if isinstance(t, ast.Name):
                if t.id in self.exc_names:
                    self.err(s, 'rebinding an exception variable')
                continue
            if isinstance(t, (ast.Attribute, ast.Subscript)):
                self.pure(t.value)
                if isinstance(t, ast.Subscript):
                    self.pure(t.slice)
                continue
            self.err(s, 'unsupported assignment target')
        self.effects(value, out)
        # a local bound to (a component of) the result of a context-producing call is a context
        if isinstance(value, ast.Call) and out and out[-1][0] == 'Ref':
            prog = out[-1][1]
            if prog in self.tr.ctx_producers:
                for t in flat:
                    if isinstance(t, ast.Name):
                        if prog.startswith('g_generate_contexts'):
                            self.locals_from_ctx.add(t.id)
                        else:
                            self.ctx_names.add(t.id)
        # p_ctx, others = contexts[0], contexts[1:]   /   p_ctx = contexts[0]
        if isinstance(value, (ast.Tuple, ast.Subscript)):
            vals = value.elts if isinstance(value, ast.Tuple) else [value]
            if len(vals) == len(flat):
                for t, v in zip(flat, vals):
                    if isinstance(t, ast.Name) and isinstance(v, ast.Subscript) and isinstance(v.value, ast.Name) \
                            and v.value.id in self.locals_from_ctx and isinstance(v.slice, ast.Constant) \
                            and v.slice.value == 0:
                        self.ctx_names.add(t.id)
        return Seq(out)

    def if_(self, s):
        if self.lenient and not self.mentions_fire(s) and not self.touches_tracked(s) and not self.has_flow(s):
            return ('Skip',)
        if unparse(s.test) in KNOWN_TRUE:
            return self.block(s.body)
        c = self.cond(s.test)
        if c[0] == 'opaque_true':
            return ('If', 'CFlag FOpaque', ('Unmodelled',), self.block(s.orelse))
        if c[0] == 'config':
            if c[1] is True:
                return ('If', 'CFlag FOpaque', ('Unmodelled',), self.block(s.body))
            return ('If', 'CFlag FOpaque', ('Unmodelled',), self.block(s.orelse))
        a, b = self.block(s.body), self.block(s.orelse)
        if c[0] == 'pure':
            if skip_only(a) and skip_only(b):
                return ('Skip',)
            self.err(s.test, 'branches with an effect under a test the model does not track')
        if skip_only(a) and skip_only(b):
            return ('Skip',)
        return ('If', c[1], a, b)

    def try_(self, s):
        if s.finalbody or s.orelse:
            self.err(s, 'try with else/finally')
        body = self.block(s.body)
        if skip_only(body):
            # nothing in the body can raise in the model: the handlers are dead code there
            return ('Skip',)
        chain_ = []
        for h in s.handlers:
            if h.type is None or not isinstance(h.type, ast.Name):
                self.err(h, 'except clause without a single class name')
            cname = h.type.id
            if h.name:
                self.exc_names.append(h.name)
                self.exc_classes.append(cname)
            self.handler_depth += 1
            try:
                hb = self.block(h.body)
            finally:
                self.handler_depth -= 1
                if h.name:
                    self.exc_names.pop()
                    self.exc_classes.pop()
            chain_.append((cname, hb))
        res = ('Reraise',)
        for cname, hb in reversed(chain_):
            if cname not in XCLS:
                self.err(s, 'except clause names %s, a class the model does not track' % cname)
            res = ('IfExc', XCLS[cname], hb, res)
        return ('Try', body, res)

    def raise_(self, s):
        if s.cause is not None:
            self.err(s, 'raise ... from')
        if s.exc is None:
            if not self.handler_depth:
                self.err(s, 'bare raise outside a handler')
            return ('Reraise',)
        v = self.tracked(s.exc)
        if v is not None:
            return ('RaiseVar', v)
        if isinstance(s.exc, ast.Name) and self.exc_names and s.exc.id == self.exc_names[-1]:
            return ('Reraise',)
        if isinstance(s.exc, ast.Call) and isinstance(s.exc.func, ast.Name) and s.exc.func.id in NEW_KIND:
            for a in list(s.exc.args) + [k.value for k in s.exc.keywords]:
                self.pure(a)
            return ('RaiseNew', NEW_KIND[s.exc.func.id])
        self.err(s, 'unsupported raise')


# ------------------------------------------------------------------ the module translator
class Translator(object):
    def __init__(self, repo):
        self.repo = repo
        self.trees = {}
        self.progs = {}          # coq name -> statement term
        self.order = []
        self.busy = set()
        self.ctx_classes = {'MethodContext': ('spyne/context.py', 'MethodContext'),
                            'HttpMethodContext': ('spyne/server/http.py', 'HttpMethodContext'),
                            'WsgiMethodContext': ('spyne/server/wsgi.py', 'WsgiMethodContext')}
        self.ctx_producers = {'g_generate_contexts', 'g_ctx_init', 'g_http_ctx_init', 'g_wsgi_ctx_init'}
        self.server_chain = [('spyne/server/wsgi.py', 'WsgiApplication'), ('spyne/server/http.py', 'HttpBase'),
                             ('spyne/server/_base.py', 'ServerBase')]
        self.ctx_bases = {'WsgiMethodContext': 'HttpMethodContext', 'HttpMethodContext': 'MethodContext',
                          'MethodContext': None}

    # ---- source access
    def tree(self, rel):
        if rel not in self.trees:
            p = os.path.join(self.repo, rel)
            try:
                import warnings
                with open(p, encoding='utf8') as f, warnings.catch_warnings():
                    warnings.simplefilter('ignore')      # invalid-escape SyntaxWarnings of the source
                    self.trees[rel] = ast.parse(f.read(), p)
            except (IOError, SyntaxError) as e:
                raise TranslateError('cannot read %s: %s' % (rel, e))
        return self.trees[rel]

    def klass(self, rel, name):
        for n in self.tree(rel).body:
            if isinstance(n, ast.ClassDef) and n.name == name:
                return n
        raise TranslateError('class %s not found in %s' % (name, rel))

    def class_member(self, rel, cname, attr):
        """FunctionDef, or the name another attribute is an alias of (`a = b` in the class body)"""
        k = self.klass(rel, cname)
        found = None
        for n in k.body:
            if isinstance(n, ast.FunctionDef) and n.name == attr:
                found = n
            if isinstance(n, ast.Assign) and len(n.targets) == 1 and isinstance(n.targets[0], ast.Name) \
                    and n.targets[0].id == attr:
                if isinstance(n.value, ast.Name):
                    found = ('alias', n.value.id)
                else:
                    found = ('other',)
        return found

    def check_bases(self, rel, cname, expect):
        k = self.klass(rel, cname)
        got = [unparse(b) for b in k.bases]
        if got != expect:
            raise TranslateError('%s: bases are %r, expected %r' % (cname, got, expect))

    def server_lookup(self, attr, start=0):
        """resolve self.<attr> along WsgiApplication -> HttpBase -> ServerBase"""
        if attr.startswith('__') and not attr.endswith('__'):
            cands = [(start, attr)]              # private name: defined in the class that uses it
        else:
            cands = [(i, attr) for i in range(start, len(self.server_chain))]
        for i, a in cands:
            rel, cname = self.server_chain[i]
            m = self.class_member(rel, cname, a)
            if m is None:
                continue
            if isinstance(m, tuple):
                if m[0] == 'alias':
                    return self.server_lookup(m[1], i)
                raise TranslateError('%s.%s is not a function' % (cname, a))
            return i, m
        return None

    # ---- programs
    def define(self, name, build):
        if name in self.progs:
            return name
        if name in self.busy:
            raise TranslateError('recursion through %s' % name)
        self.busy.add(name)
        term = build()
        self.busy.discard(name)
        self.progs[name] = term
        self.order.append(name)
        return name

    def want(self, owner, attr):
        if owner == 'app' and attr == 'process_request':
            def build():
                fn = self.class_member('spyne/application.py', 'Application', 'process_request')
                if not isinstance(fn, ast.FunctionDef):
                    raise TranslateError('Application.process_request not found')
                self.sig(fn, ['self', 'ctx'])
                return Fn(self, fn, 'app', ['ctx'], lambda a, c=None, t=None: None, where='Application.process_request').block(fn.body)
            return self.define('g_process_request', build)
        if owner == 'ctx' and attr == 'close':
            def build():
                fn = self.class_member('spyne/context.py', 'MethodContext', 'close')
                if not isinstance(fn, ast.FunctionDef):
                    raise TranslateError('MethodContext.close not found')
                self.sig(fn, ['self'])
                for c in ('HttpMethodContext', 'WsgiMethodContext'):
                    if self.class_member(self.ctx_classes[c][0], c, 'close') is not None:
                        raise TranslateError('%s overrides close' % c)
                return Fn(self, fn, 'ctx', ['self'], lambda a, c=None, t=None: None, lenient=True,
                          where='MethodContext.close').block(fn.body)
            return self.define('g_close', build)
        if owner == 'ctx' and attr == '__init__':
            return self.want_ctor('MethodContext')
        raise TranslateError('internal: want(%s, %s)' % (owner, attr))

    def want_ctor(self, cname):
        """the constructor that runs for class cname (first __init__ along its bases)"""
        c = cname
        while c is not None:
            rel = self.ctx_classes[c][0]
            fn = self.class_member(rel, c, '__init__')
            if fn is not None:
                break
            c = self.ctx_bases[c]
        if c is None or not isinstance(fn, ast.FunctionDef):
            raise TranslateError('no constructor found for %s' % cname)
        name = {'MethodContext': 'g_ctx_init', 'HttpMethodContext': 'g_http_ctx_init',
                'WsgiMethodContext': 'g_wsgi_ctx_init'}[c]

        def build():
            if fn.args.args[0].arg != 'self':
                raise TranslateError('%s.__init__: first parameter is not self' % c)
            t = Fn(self, fn, 'ctx', ['self'], lambda a, c=None, t=None: None, lenient=True, where='%s.__init__' % c)
            term = t.block(fn.body)
            if c == 'MethodContext':
                # the descriptor starts as None and no fire_event precedes the end of the constructor
                inits = [x for x in (term[1] if term[0] == 'Seq' else [term]) if x == ('SetNone', 'VDesc')]
                if len(inits) != 1:
                    raise TranslateError('MethodContext.__init__: the descriptor is not initialised to None exactly once')
            return term
        return self.define(name, build)

    def sig(self, fn, names):
        got = [a.arg for a in fn.args.args]
        if got[:len(names)] != names:
            raise TranslateError('%s: parameters %r, expected %r...' % (fn.name, got, names))

    def config_default(self, attr):
        """default of a WsgiApplication constructor flag, forwarded unchanged to HttpBase/ServerBase"""
        fn = self.class_member('spyne/server/wsgi.py', 'WsgiApplication', '__init__')
        if not isinstance(fn, ast.FunctionDef):
            raise TranslateError('WsgiApplication.__init__ not found')
        names = [a.arg for a in fn.args.args]
        defaults = fn.args.defaults
        dmap = dict(zip(names[len(names) - len(defaults):], defaults))
        if attr not in dmap or not isinstance(dmap[attr], ast.Constant) or not isinstance(dmap[attr].value, bool):
            raise TranslateError('WsgiApplication.__init__: no boolean default for %s' % attr)
        # the value must reach self.<attr> unchanged: super().__init__(app, chunked, ...) and self.chunked = chunked
        hb = self.class_member('spyne/server/http.py', 'HttpBase', '__init__')
        ok = False
        if isinstance(hb, ast.FunctionDef):
            for n in ast.walk(hb):
                if isinstance(n, ast.Assign) and unparse(n) == 'self.%s = %s' % (attr, attr):
                    ok = True
        fwd = any(isinstance(n, ast.Call) and unparse(n.func).endswith('__init__') and
                  any(isinstance(a, ast.Name) and a.id == attr for a in n.args) for n in ast.walk(fn))
        if not (ok and fwd):
            raise TranslateError('cannot follow the %s flag from WsgiApplication.__init__ to self.%s' % (attr, attr))
        return dmap[attr].value

    def server_fn(self, attr, coq_name, params, start=0, ctx_names=('ctx',)):
        def build():
            r = self.server_lookup(attr, start)
            if r is None:
                raise TranslateError('server method %s not found' % attr)
            i, fn = r
            self.sig(fn, params)
            cname = self.server_chain[i][1]

            def resolve(a, call=None, caller=None):
                if a.startswith('__') and not a.endswith('__'):
                    key = '_%s%s' % (cname, a)
                else:
                    key = a
                return self.server_program(key, i) or self.server_helper(a, call, caller)
            return Fn(self, fn, 'server', ctx_names, resolve, where='%s.%s' % (cname, attr)).block(fn.body)
        return self.define(coq_name, build)

    SERVER_PROGRAMS = {
        # attribute as written after name mangling -> (coq name, leading parameters, context names)
        'generate_contexts': ('g_generate_contexts', ['self', 'ctx'], ('ctx',)),
        'get_in_object': ('g_get_in_object', ['self', 'ctx'], ('ctx',)),
        'get_out_object': ('g_get_out_object', ['self', 'ctx'], ('ctx',)),
        'get_out_string_pull': ('g_get_out_string_pull', ['self', 'ctx'], ('ctx',)),
        'get_out_string': ('g_get_out_string_pull', ['self', 'ctx'], ('ctx',)),
        'finalize_context': ('g_finalize_context', ['self', 'ctx'], ('ctx',)),
        'handle_error': ('g_handle_error', ['self', 'p_ctx', 'others', 'error', 'start_response'], ('p_ctx',)),
        'handle_rpc': ('g_handle_rpc', ['self', 'req_env', 'start_response'], ()),
        '_WsgiApplication__finalize': ('g_finalize', ['self', 'p_ctx'], ('p_ctx',)),
    }

    def server_program(self, key, start):
        if key not in self.SERVER_PROGRAMS:
            return None
        coq, params, cn = self.SERVER_PROGRAMS[key]
        attr = key
        if key.startswith('_WsgiApplication__'):
            attr = key[len('_WsgiApplication'):]
            start = 0
        else:
            start = 0        # `self.x` is looked up on the most derived class
        r = self.server_lookup(attr, start)
        if r is None:
            raise TranslateError('server method %s not found' % attr)
        # an alias (get_out_string = get_out_string_pull) resolves to the aliased function's program
        fn = r[1]
        real = fn.name if not fn.name.startswith('__') or fn.name.endswith('__') else '_%s%s' % (
            self.server_chain[r[0]][1], fn.name)
        coq, params, cn = self.SERVER_PROGRAMS.get(real, (coq, params, cn))
        return self.server_fn(attr, coq, params, start, cn)

    def server_helper(self, attr, call, caller):
        """self.<attr>(..., ctx, ...) for a plain method of the server classes that is not one of the
        named programs: translated on demand (strictly), so that a refactoring which moves
        statements of the pipeline into a helper method is followed"""
        if call is None or caller is None or (attr.startswith('__') and not attr.endswith('__')):
            return None
        r = self.server_lookup(attr, 0)
        if r is None:
            return None
        i, fn = r
        decos = [unparse(d) for d in fn.decorator_list]
        if any(d != 'staticmethod' for d in decos):
            return None
        if any(isinstance(x, (ast.Yield, ast.YieldFrom)) for x in ast.walk(fn)):
            return None
        params = [a.arg for a in fn.args.args]
        if 'staticmethod' not in decos:
            if not params or params[0] != 'self':
                return None
            params = params[1:]
        if fn.args.vararg or fn.args.kwarg or fn.args.kwonlyargs:
            return None
        cps = [q for q in params if q in ('ctx', 'p_ctx')]
        if len(cps) != 1 or call.keywords:
            return None
        pos = params.index(cps[0])
        if len(call.args) <= pos or not caller.is_ctx(call.args[pos]):
            return None
        cname = self.server_chain[i][1]

        def build():
            def resolve(a, c=None, t=None):
                key = '_%s%s' % (cname, a) if a.startswith('__') and not a.endswith('__') else a
                return self.server_program(key, i) or self.server_helper(a, c, t)
            return Fn(self, fn, 'server', cps, resolve, where='%s.%s' % (cname, attr)).block(fn.body)
        return self.define('g_h_' + attr, build)

    # ---- small tables
    def matches(self, fn, refs, consts=None, what=''):
        """index of the reference implementation (source text) that fn equals up to the
        behaviour-preserving normalisation of translate/c14norm.py"""
        try:
            got = c14norm.normal(fn, consts)
            for i, r in enumerate(refs):
                if got == c14norm.normal_src(r, consts):
                    return i
        except c14norm.NormError as e:
            raise TranslateError('%s: %s' % (what, e))
        raise TranslateError('%s: not (a behaviour-preserving rewrite of) the transcribed function; '
                             'normal form:\n%s' % (what, got))

    def ctx_fire_parts(self):
        """MethodContext.fire_event: which managers, in which order"""
        fn = self.class_member('spyne/context.py', 'MethodContext', 'fire_event')
        if not isinstance(fn, ast.FunctionDef):
            raise TranslateError('MethodContext.fire_event not found')
        for c in ('HttpMethodContext', 'WsgiMethodContext'):
            if self.class_member(self.ctx_classes[c][0], c, 'fire_event') is not None:
                raise TranslateError('%s overrides fire_event' % c)
        app_first = """
def fire_event(self, event, *args, **kwargs):
    self.app.event_manager.fire_event(event, self, *args, **kwargs)
    desc = self.descriptor
    if desc is not None:
        for evmgr in desc.event_managers:
            evmgr.fire_event(event, self, *args, **kwargs)
"""
        desc_first = """
def fire_event(self, event, *args, **kwargs):
    desc = self.descriptor
    if desc is not None:
        for evmgr in desc.event_managers:
            evmgr.fire_event(event, self, *args, **kwargs)
    self.app.event_manager.fire_event(event, self, *args, **kwargs)
"""
        i = self.matches(fn, [app_first, desc_first], what='MethodContext.fire_event')
        return [['PApp', 'PDesc'], ['PDesc', 'PApp']][i]

    def desc_parts(self):
        """MethodDescriptor.__init__: what goes into event_managers, in order; and nothing else in
        the package touches a descriptor's event_managers (descriptors are shared between the
        Applications that expose a service, so a second writer would multiply listeners)"""
        fn = self.class_member('spyne/descriptor.py', 'MethodDescriptor', '__init__')
        if not isinstance(fn, ast.FunctionDef):
            raise TranslateError('MethodDescriptor.__init__ not found')
        parts = []
        for st in fn.body:
            if not any(isinstance(x, ast.Attribute) and x.attr == 'event_managers' for x in ast.walk(st)):
                continue
            txt = unparse(st)
            params = [a.arg for a in fn.args.args]
            if isinstance(st, ast.Assign) and len(st.targets) == 1 and unparse(st.targets[0]) == 'self.event_managers' \
                    and isinstance(st.value, ast.Name) and st.value.id in params:
                if parts:
                    raise TranslateError('MethodDescriptor.__init__: event_managers assigned after use')
                parts.append('DMeth')
            elif txt == ('if self.service_class is not None:\n'
                         '    self.event_managers.append(self.service_class.event_manager)'):
                if parts != ['DMeth']:
                    raise TranslateError('MethodDescriptor.__init__: unexpected order of event_managers statements')
                parts.append('DSvc')
            else:
                raise TranslateError('MethodDescriptor.__init__: unrecognised event_managers statement: %s' % txt[:120])
        if parts != ['DMeth', 'DSvc']:
            raise TranslateError('MethodDescriptor.__init__: event_managers is built as %r' % parts)
        # every other occurrence of the attribute in the package must be a plain read in
        # MethodContext.fire_event (checked by ctx_fire_parts) — no stores, no mutating calls
        cfe = self.class_member('spyne/context.py', 'MethodContext', 'fire_event')   # shape pinned by ctx_fire_parts
        if not isinstance(cfe, ast.FunctionDef):
            raise TranslateError('MethodContext.fire_event not found')
        root = os.path.join(self.repo, 'spyne')
        for d, _, fs in os.walk(root):
            if os.sep + 'test' in d[len(root):]:
                continue
            for f in fs:
                if not f.endswith('.py'):
                    continue
                rel = os.path.relpath(os.path.join(d, f), self.repo)
                try:
                    with open(os.path.join(d, f), encoding='utf8') as fh:
                        src = fh.read()
                except (IOError, UnicodeDecodeError) as e:
                    raise TranslateError('cannot read %s: %s' % (rel, e))
                if '.event_managers' not in src:
                    continue
                for x in ast.walk(self.tree(rel)):
                    if isinstance(x, ast.Attribute) and x.attr == 'event_managers':
                        ok = (rel == 'spyne/descriptor.py' and fn.lineno <= x.lineno <= fn.end_lineno) or \
                             (rel == 'spyne/context.py' and isinstance(x.ctx, ast.Load)
                              and cfe.lineno <= x.lineno <= cfe.end_lineno)
                        if not ok:
                            raise TranslateError('%s:%d: a descriptor\'s event_managers is used outside '
                                                 'MethodDescriptor.__init__ / MethodContext.fire_event: %s'
                                                 % (rel, x.lineno, unparse(x)))
        return parts

    def evmgr_shape(self):
        """EventManager.add_listener / fire_event, oset.add / extend / __iter__,
        ServiceBaseMeta.__get_base_event_handlers: the functions the hand-written definitions of
        Model.v transcribe, compared up to behaviour-preserving rewrites (c14norm)"""
        k = 'spyne/evmgr.py'
        fe = self.class_member(k, 'EventManager', 'fire_event')
        al = self.class_member(k, 'EventManager', 'add_listener')
        if not isinstance(fe, ast.FunctionDef) or not isinstance(al, ast.FunctionDef):
            raise TranslateError('EventManager.fire_event / add_listener not found')
        self.matches(fe, ["""
def fire_event(self, event_name, ctx, *args, **kwargs):
    handlers = self.handlers.get(event_name, oset())
    for handler in handlers:
        handler(ctx, *args, **kwargs)
"""], what='EventManager.fire_event')
        self.matches(al, ["""
def add_listener(self, event_name, handler):
    handlers = self.handlers.get(event_name, oset())
    handlers.add(handler)
    self.handlers[event_name] = handlers
"""], what='EventManager.add_listener')
        # oset: a doubly linked list [key, prev, next] with a sentinel; add appends unless present,
        # extend is the same loop, __iter__ walks from the front
        orel = 'spyne/util/oset.py'
        consts = c14norm.module_int_constants(self.tree(orel))
        if [consts.get(n) for n in ('KEY', 'PREV', 'NEXT')] != [0, 1, 2]:
            raise TranslateError('oset: KEY/PREV/NEXT are not 0/1/2: %r' % consts)
        ok = self.class_member(orel, 'oset', 'add')
        it = self.class_member(orel, 'oset', '__iter__')
        ex = self.class_member(orel, 'oset', 'extend')
        if not isinstance(ok, ast.FunctionDef) or not isinstance(it, ast.FunctionDef):
            raise TranslateError('oset.add / __iter__ not found')
        add_refs = ["""
def add(self, key):
    if key not in self.map:
        end = self.end
        curr = end[1]
        curr[2] = end[1] = self.map[key] = [key, curr, end]
"""]
        self.matches(ok, add_refs, consts, what='oset.add')
        self.matches(it, ["""
def __iter__(self):
    end = self.end
    curr = end[2]
    while curr is not end:
        yield curr[0]
        curr = curr[2]
"""], consts, what='oset.__iter__')
        gb = self.class_member('spyne/service.py', 'ServiceBaseMeta', '__get_base_event_handlers')
        if not isinstance(gb, ast.FunctionDef):
            raise TranslateError('ServiceBaseMeta.__get_base_event_handlers not found')
        with_add = """
def get(self, cls_bases):
    handlers = {}
    for base in cls_bases:
        evmgr = getattr(base, 'event_manager', None)
        if evmgr is None:
            continue
        for k, v in evmgr.handlers.items():
            handler = handlers.get(k, oset())
            for h in v:
                handler.add(h)
            handlers[k] = handler
    return handlers
"""
        with_extend = with_add.replace("""            for h in v:
                handler.add(h)
""", """            handler.extend(v)
""")
        if self.matches(gb, [with_add, with_extend], what='ServiceBaseMeta.__get_base_event_handlers') == 1:
            # extend(keys) must be the add loop
            if not isinstance(ex, ast.FunctionDef):
                raise TranslateError('oset.extend not found')
            self.matches(ex, ["""
def extend(self, keys):
    for key in keys:
        if key not in self.map:
            end = self.end
            curr = end[1]
            curr[2] = end[1] = self.map[key] = [key, curr, end]
""", """
def extend(self, keys):
    for key in keys:
        self.add(key)
"""], consts, what='oset.extend')
        return True

    PROTOCOLS = [
        # (tag, file, class)
        ('PXml', 'spyne/protocol/xml.py', 'XmlDocument'),
        ('PSoap11', 'spyne/protocol/soap/soap11.py', 'Soap11'),
        ('PHier', 'spyne/protocol/dictdoc/hier.py', 'HierDictDocument'),
        ('PMsgpackRpc', 'spyne/protocol/msgpack.py', 'MessagePackRpc'),
    ]

    def proto_flags(self, rel, cname):
        """serialize(): (after_serialize fired on the fault branch, out_document assigned before the
        return value is serialised)"""
        fn = self.class_member(rel, cname, 'serialize')
        if not isinstance(fn, ast.FunctionDef):
            raise TranslateError('%s.serialize not found' % cname)
        body = [s for s in fn.body if not (isinstance(s, ast.Expr) and isinstance(s.value, ast.Constant))
                and not isinstance(s, ast.Assert)]
        def is_fire(s, ev):
            return unparse(s) == "self.event_manager.fire_event('%s', ctx)" % ev
        if not body or not is_fire(body[0], 'before_serialize'):
            raise TranslateError('%s.serialize: does not start with the before_serialize event' % cname)
        # the branch on ctx.out_error
        idx = [i for i, s in enumerate(body) if isinstance(s, ast.If) and unparse(s.test) == 'ctx.out_error is not None']
        if len(idx) != 1:
            raise TranslateError('%s.serialize: expected exactly one top-level `if ctx.out_error is not None`' % cname)
        i = idx[0]
        fault_branch = body[i].body
        doc_early = False
        for s in body[1:i]:
            if isinstance(s, ast.Assign) and any(unparse(t) == 'ctx.out_document' for t in s.targets):
                doc_early = True
            elif any(isinstance(x, ast.Attribute) and x.attr == 'fire_event' for x in ast.walk(s)):
                raise TranslateError('%s.serialize: event fired before the out_error branch' % cname)
        # all fire_event calls of the function: before (first), after (one, either at top level after
        # the branch, or at the end of the value branch with the fault branch returning)
        fires = [x for x in ast.walk(fn) if isinstance(x, ast.Call) and isinstance(x.func, ast.Attribute)
                 and x.func.attr == 'fire_event']
        names = sorted(unparse(x) for x in fires)
        if names != ["self.event_manager.fire_event('after_serialize', ctx)",
                     "self.event_manager.fire_event('before_serialize', ctx)"]:
            raise TranslateError('%s.serialize: unexpected fire_event calls %r' % (cname, names))
        if any(self_fires(s) for s in fault_branch):
            raise TranslateError('%s.serialize: event fired inside the fault branch' % cname)
        fault_returns = bool(fault_branch) and isinstance(fault_branch[-1], ast.Return)
        tail = body[i + 1:]
        top_after = [j for j, s in enumerate(tail) if is_fire(s, 'after_serialize')]
        if body[i].orelse:
            # if/else form: after_serialize must be at top level after the if
            if len(top_after) != 1 or fault_returns:
                raise TranslateError('%s.serialize: unrecognised position of after_serialize' % cname)
            after_on_fault = True
        else:
            # fault branch returns early; the rest of the function is the value branch
            if not fault_returns or len(top_after) != 1 or top_after[0] != len(tail) - 1:
                raise TranslateError('%s.serialize: unrecognised position of after_serialize' % cname)
            after_on_fault = False
        # in the fault branch the document must be assigned
        if not any(isinstance(x, ast.Assign) and any(unparse(t) == 'ctx.out_document' for t in x.targets)
                   for s in fault_branch for x in ast.walk(s)) and not doc_early:
            raise TranslateError('%s.serialize: the fault branch does not assign ctx.out_document' % cname)
        return after_on_fault, doc_early

    def proto_deser(self, rel, cname):
        fn = self.class_member(rel, cname, 'deserialize')
        if not isinstance(fn, ast.FunctionDef):
            raise TranslateError('%s.deserialize not found' % cname)
        body = [s for s in fn.body if not (isinstance(s, ast.Expr) and isinstance(s.value, ast.Constant))
                and not isinstance(s, ast.Assert)]
        if len(body) < 2 or unparse(body[0]) != "self.event_manager.fire_event('before_deserialize', ctx)" \
                or unparse(body[-1]) != "self.event_manager.fire_event('after_deserialize', ctx)":
            raise TranslateError('%s.deserialize: not bracketed by before_/after_deserialize' % cname)
        fires = [x for x in ast.walk(fn) if isinstance(x, ast.Call) and isinstance(x.func, ast.Attribute)
                 and x.func.attr == 'fire_event']
        if len(fires) != 2:
            raise TranslateError('%s.deserialize: unexpected fire_event calls' % cname)
        if any(isinstance(x, ast.Return) for x in ast.walk(fn)):
            raise TranslateError('%s.deserialize: early return' % cname)
        return True


def self_fires(s):
    return any(isinstance(x, ast.Attribute) and x.attr == 'fire_event' for x in ast.walk(s))


HEADER = '''(** GENERATED by harness/translate/pipeline.py from the working tree of Spyne
    (spyne/context.py, server/_base.py, application.py, server/http.py, server/wsgi.py,
    evmgr.py, util/oset.py, service.py, protocol/...).  Do not edit. *)
From SpyneV Require Import C14.Model.

'''


def generate(repo):
    tr = Translator(repo)
    tr.check_bases('spyne/server/wsgi.py', 'WsgiApplication', ['HttpBase'])
    tr.check_bases('spyne/server/http.py', 'HttpBase', ['ServerBase'])
    tr.check_bases('spyne/server/wsgi.py', 'WsgiMethodContext', ['HttpMethodContext'])
    tr.check_bases('spyne/server/http.py', 'HttpMethodContext', ['MethodContext'])
    tr.evmgr_shape()
    parts = tr.ctx_fire_parts()
    dparts = tr.desc_parts()
    # roots
    tr.want_ctor('MethodContext')
    tr.want('ctx', 'close')
    for key in ('generate_contexts', 'get_in_object', 'get_out_object', 'get_out_string', 'handle_rpc'):
        tr.server_program(key, 0)
    for need in ('g_ctx_init', 'g_close', 'g_generate_contexts', 'g_get_in_object', 'g_get_out_object',
                 'g_get_out_string_pull', 'g_finalize_context', 'g_process_request', 'g_handle_rpc',
                 'g_handle_error', 'g_finalize'):
        if need not in tr.progs:
            raise TranslateError('program %s was not produced (the call graph of the pipeline changed)' % need)
    out = [HEADER]
    out.append('Definition g_ctx_fire_parts : list fpart := [%s].\n\n' % '; '.join(parts))
    out.append('Definition g_desc_parts : list dpart := [%s].\n\n' % '; '.join(dparts))
    for name in tr.order:
        out.append('Definition %s : stmt :=\n  %s.\n\n' % (name, pp(tr.progs[name], 2)))
    flags = []
    for tag, rel, cname in tr.PROTOCOLS:
        af, dc = tr.proto_flags(rel, cname)
        tr.proto_deser(rel, cname)
        flags.append('(%s, (%s, %s))' % (tag, 'true' if af else 'false', 'true' if dc else 'false'))
    tr.proto_deser('spyne/protocol/http.py', 'HttpRpc')      # in protocol only
    out.append('(** per out protocol: (after_serialize is fired when a fault is serialised,\n'
               '    ctx.out_document is assigned before the return value is serialised) *)\n')
    out.append('Definition g_proto_flags : list (proto * (bool * bool)) :=\n  [%s].\n' % ';\n   '.join(flags))
    return {'Pipeline.v': ''.join(out)}
