"""spyne/protocol/xml.py  ->  Gen/XsiGuard.v   (C04)

The xsi:type block of ``XmlDocument.from_element`` decides which class an
element is deserialised as.  This translator checks, statement by statement,
that the block still is the one the hand-written model ``C04/XmlModel.v:resolve``
transcribes (split at the first ':', element.nsmap.get(prefix), the
"{%s}%s" class key, interface.classes.get, ValidationError when either lookup
fails) and turns the *decision* -- what replaces ``cls`` -- into a Gallina table

    xsi_target : same -> arr -> subof -> samename -> cplx -> XReject | XDeclared | XNew

over the five tests the code makes (see C04/Guard.v).  Two shapes are accepted:

  * ``cls = newclass``                                   (no guard: always XNew)
  * ``cls = self._get_xsi_target(cls, newclass, xsi_type)`` with the body of
    ``_get_xsi_target`` made of ``if``/``raise ValidationError``/``return cls``/
    ``return newclass`` over exactly those five tests.

Anything else raises TranslateError (fail closed).
"""
import ast, os
from .pyexpr import BoolTranslator, TranslateError, find_function

SRC = 'spyne/protocol/xml.py'


def _dump(n):
    return ast.dump(n, annotate_fields=False)


def _expr(s):
    return _dump(ast.parse(s, mode='eval').body)


def _stmt(s):
    return _dump(ast.parse(s).body[0])


EXPECT_IN_BLOCK = [
    # (what, expected statement) -- each must occur exactly once in the xsi:type block
    ('split', "prefix, objtype = xsi_type.split(':', 1)"),
    ('nosplit', "prefix, objtype = None, xsi_type"),
    ('nsmap', "ns = element.nsmap.get(prefix)"),
    ('classkey', 'classkey = "{%s}%s" % (ns, objtype)'),
    ('lookup', "newclass = ctx.app.interface.classes.get(classkey, None)"),
]


def _strip_doc(body):
    return [s for s in body if not (isinstance(s, ast.Expr) and isinstance(s.value, ast.Constant)
                                    and isinstance(s.value.value, str))]


def _is_logger_call(s):
    return (isinstance(s, ast.Expr) and isinstance(s.value, ast.Call)
            and isinstance(s.value.func, ast.Attribute) and isinstance(s.value.func.value, ast.Name)
            and s.value.func.value.id in ('logger', 'logger_invalid'))


def _raises_validation_error(s):
    return (isinstance(s, ast.Raise) and isinstance(s.exc, ast.Call) and isinstance(s.exc.func, ast.Name)
            and s.exc.func.id == 'ValidationError')


def _block_of(fn):
    """the body of ``if xsi_type is not None:`` inside ``if self.parse_xsi_type:``"""
    outer = [s for s in fn.body if isinstance(s, ast.If) and _dump(s.test) == _expr('self.parse_xsi_type')]
    if len(outer) != 1 or outer[0].orelse:
        raise TranslateError('from_element: expected exactly one "if self.parse_xsi_type:" without else')
    body = outer[0].body
    if len(body) != 2 or _dump(body[0]) != _stmt('xsi_type = element.get(XSI_TYPE, None)'):
        raise TranslateError('from_element: the xsi:type block does not start with element.get(XSI_TYPE, None)')
    inner = body[1]
    if not isinstance(inner, ast.If) or _dump(inner.test) != _expr('xsi_type is not None') or inner.orelse:
        raise TranslateError('from_element: expected "if xsi_type is not None:" without else')
    return outer[0], inner.body


def _check_block(block):
    """the statements the model transcribes are all there, in the expected control structure"""
    flat = []

    def walk(stmts):
        for s in stmts:
            flat.append(s)
            if isinstance(s, ast.If):
                walk(s.body)
                walk(s.orelse)
            elif isinstance(s, (ast.For, ast.While, ast.Try, ast.With, ast.FunctionDef)):
                raise TranslateError('from_element: unexpected compound statement in the xsi:type block')
    walk(block)
    dumps = [_dump(s) for s in flat]
    for what, text in EXPECT_IN_BLOCK:
        if dumps.count(_stmt(text)) != 1:
            raise TranslateError('from_element: expected exactly one %r (%s)' % (text, what))
    # if ":" in xsi_type: split else: nosplit
    s0 = block[0]
    if not (isinstance(s0, ast.If) and _dump(s0.test) == _expr('":" in xsi_type')
            and [_dump(x) for x in s0.body] == [_stmt(EXPECT_IN_BLOCK[0][1])]
            and [_dump(x) for x in s0.orelse] == [_stmt(EXPECT_IN_BLOCK[1][1])]):
        raise TranslateError('from_element: the prefix split is not the expected if/else')
    # ns lookup; if ns is not None: classkey else: (logging) raise ValidationError
    if _dump(block[1]) != _stmt(EXPECT_IN_BLOCK[2][1]):
        raise TranslateError('from_element: expected the nsmap lookup after the split')
    s2 = block[2]
    if not (isinstance(s2, ast.If) and _dump(s2.test) == _expr('ns is not None')
            and [_dump(x) for x in s2.body] == [_stmt(EXPECT_IN_BLOCK[3][1])]):
        raise TranslateError('from_element: expected "if ns is not None: classkey = ..."')
    els = [s for s in s2.orelse if not _is_logger_call(s)]
    if len(els) != 1 or not _raises_validation_error(els[0]):
        raise TranslateError('from_element: an unknown prefix must raise ValidationError')
    if _dump(block[3]) != _stmt(EXPECT_IN_BLOCK[4][1]):
        raise TranslateError('from_element: expected the interface.classes lookup')
    s4 = block[4]
    if not (isinstance(s4, ast.If) and _dump(s4.test) == _expr('newclass is None') and not s4.orelse):
        raise TranslateError('from_element: expected "if newclass is None:"')
    b4 = [s for s in s4.body if not _is_logger_call(s)]
    if len(b4) != 1 or not _raises_validation_error(b4[0]):
        raise TranslateError('from_element: an unregistered class key must raise ValidationError')
    rest = [s for s in block[5:] if not _is_logger_call(s)]
    if len(rest) != 1 or not (isinstance(rest[0], ast.Assign) and len(rest[0].targets) == 1
                              and isinstance(rest[0].targets[0], ast.Name) and rest[0].targets[0].id == 'cls'):
        raise TranslateError('from_element: expected exactly one assignment to cls after the lookups')
    # nothing else in the block may assign cls
    n_cls = 0
    for s in flat:
        if isinstance(s, (ast.Assign, ast.AugAssign, ast.AnnAssign)):
            tg = s.targets if isinstance(s, ast.Assign) else [s.target]
            for t in tg:
                for nm in ast.walk(t):
                    if isinstance(nm, ast.Name) and nm.id == 'cls':
                        n_cls += 1
    if n_cls != 1:
        raise TranslateError('from_element: cls is assigned %d times in the xsi:type block' % n_cls)
    return rest[0].value


def _after_block(fn, outer):
    """what follows the block must dispatch on cls"""
    i = fn.body.index(outer)
    tail = [_dump(s) for s in fn.body[i + 1:]]
    want = [_stmt('handler = self.deserialization_handlers[cls]'), _stmt('return handler(ctx, cls, element)')]
    if tail != want:
        raise TranslateError('from_element: the statements after the xsi:type block are not the handler dispatch')


LEAVES = {
    _expr('sub is sup'): 'same',
    _expr('issubclass(sup, Array)'): 'arr',
    _expr('issubclass(sub, sup)'): 'subof',
    _expr('issubclass(sup, ComplexModelBase)'): 'cplx',
    _expr('(newclass.get_namespace(), newclass.get_type_name()) == (cls.get_namespace(), cls.get_type_name())'): 'samename',
    _expr('(newclass.get_namespace(), newclass.get_type_name()) != (cls.get_namespace(), cls.get_type_name())'): '(negb samename)',
    _expr('(cls.get_namespace(), cls.get_type_name()) == (newclass.get_namespace(), newclass.get_type_name())'): 'samename',
    _expr('(cls.get_namespace(), cls.get_type_name()) != (newclass.get_namespace(), newclass.get_type_name())'): '(negb samename)',
}


def _leaf(n):
    return LEAVES.get(_dump(n))


def _no_cmp(op, l, r):
    raise TranslateError('unsupported comparison in _get_xsi_target: %s' % ast.dump(l)[:120])


def _tr_target(fn):
    a = fn.args
    names = [x.arg for x in a.args]
    if names and names[0] == 'self':
        names = names[1:]
    if names != ['cls', 'newclass', 'xsi_type'] or a.vararg or a.kwarg or a.kwonlyargs or a.defaults:
        raise TranslateError('_get_xsi_target: unexpected signature %r' % (names,))
    body = _strip_doc(fn.body)
    want = [_stmt("sup = getattr(cls, '__orig__', None) or cls"),
            _stmt("sub = getattr(newclass, '__orig__', None) or newclass")]
    if [_dump(s) for s in body[:2]] != want:
        raise TranslateError('_get_xsi_target: expected the two __orig__ lookups first')
    bt = BoolTranslator(_leaf, _no_cmp)

    def block(stmts, k):
        stmts = [s for s in _strip_doc(stmts) if not isinstance(s, ast.Pass) and not _is_logger_call(s)]
        if not stmts:
            if k is None:
                raise TranslateError('_get_xsi_target: a path ends without return or raise')
            return k
        s, rest = stmts[0], stmts[1:]
        if isinstance(s, ast.Return):
            if isinstance(s.value, ast.Name) and s.value.id == 'cls':
                return 'XDeclared'
            if isinstance(s.value, ast.Name) and s.value.id == 'newclass':
                return 'XNew'
            raise TranslateError('_get_xsi_target: unexpected return value')
        if _raises_validation_error(s):
            return 'XReject'
        if isinstance(s, ast.If):
            kk = block(rest, k) if rest else k
            t = bt.tr(s.test)
            return '(if %s then %s else %s)' % (t, block(s.body, kk), block(s.orelse, kk) if s.orelse else _need(kk))
        raise TranslateError('_get_xsi_target: unsupported statement %s' % type(s).__name__)

    def _need(k):
        if k is None:
            raise TranslateError('_get_xsi_target: a path ends without return or raise')
        return k

    return block(body[2:], None)


def generate(repo):
    path = os.path.join(repo, SRC)
    tree = ast.parse(open(path).read())
    fe = find_function(tree, ['XmlDocument', 'from_element'])
    names = [x.arg for x in fe.args.args]
    if names != ['self', 'ctx', 'cls', 'element']:
        raise TranslateError('from_element: unexpected signature %r' % (names,))
    outer, block = _block_of(fe)
    value = _check_block(block)
    _after_block(fe, outer)
    if _dump(value) == _expr('newclass'):
        guarded, table = 'false', 'XNew'
    elif _dump(value) in (_expr('self._get_xsi_target(cls, newclass, xsi_type)'),):
        guarded = 'true'
        table = _tr_target(find_function(tree, ['XmlDocument', '_get_xsi_target']))
    else:
        raise TranslateError('from_element: cls is replaced by an unrecognised expression: %s' % ast.dump(value)[:160])
    text = ('(* generated by harness/translate/xsitype.py from %s -- do not edit *)\n'
            'From SpyneV Require Import C04.Guard.\n\n'
            '(** does from_element pass the registered class through _get_xsi_target? *)\n'
            'Definition xsi_guarded : bool := %s.\n\n'
            '(** what replaces [cls] once interface.classes returned a class for the xsi:type *)\n'
            'Definition xsi_target : xsi_table := fun same arr subof samename cplx =>\n  %s.\n' % (SRC, guarded, table))
    return {'XsiGuard.v': text}
